"""Design-phase scratch script, NOT part of the verification machinery.

It re-runs, against whatever `skfem` is on PYTHONPATH, the failing inputs that
DESIGN.md section 4 lists for the defects F03-F20, and was used once to confirm
that the drafted repairs in candidate-fixes.diff remove them.  No registered
check ever executes it: the checks in MANIFEST.json are static and never
import skfem.
"""
import numpy as np, warnings, scipy.sparse as sp, logging, tempfile, os
warnings.simplefilter('ignore')
import skfem; print(skfem.__file__)
from skfem import *
from skfem.utils import enforce, solver_iter_pcg, solve
from skfem.generic_utils import OrientedBoundary
from skfem.models.poisson import laplace, unit_load, mass
R={}
# F03
A = sp.csr_matrix(np.array([[2.,1,0,0],[0,0,0,0],[0,1,3.,1],[1,0,0,4.]])); b=np.arange(4.)+1; x=np.array([10.,20,30,40])
ok=True
for D in ([0,1,2],[1,2],[0,1],[2,1],[1],[3,1]):
    Ao,bo=enforce(A,b,x=x,D=np.array(D)); Ad=Ao.toarray(); E=A.toarray().copy()
    for d in D: E[d]=0; E[d,d]=1
    ok&=np.allclose(Ad,E) and np.allclose(bo[D],x[D]) and np.allclose(np.delete(bo,D),np.delete(b,D))
R['F03']=ok
# F04/F05
m = MeshLine(np.linspace(0,1,5)).with_subdomains({'left': lambda x: x[0]<0.5})
mr=m.refined(); s=mr.subdomains['left']; R['F04']=np.allclose(np.sort(mr.p[0,mr.t[:,s]].mean(0)),[.0625,.1875,.3125,.4375])
ma=m.refined(np.array([0])); s=ma.subdomains['left']; R['F05']=np.isclose(np.abs(np.diff(ma.p[0,ma.t[:,s]],axis=0)).sum(),0.5) and (ma.p[0,ma.t[:,s]].max()<=0.5)
# F06
mt = MeshTet().refined().with_subdomains({'low': lambda x: x[2]<0.5}).with_boundaries({'bottom': lambda x: x[2]==0})
vol=lambda mm: abs(mm.mapping().detDF(np.zeros((3,1)))).sum()/6
v0=vol(mt.restrict('low',skip_boundaries=True)); mta=mt.refined(np.array([0,1,2,5,9]))
R['F06']=np.isclose(vol(mta.restrict('low',skip_boundaries=True)),v0) and mta.boundaries is None and (mta.p[2,mta.t[:,mta.subdomains['low']]].mean(0)<0.5).all()
# F07
class H(logging.Handler):
    def __init__(s): super().__init__(); s.msgs=[]
    def emit(s, r): s.msgs.append(r.getMessage())
h=H(); logging.getLogger('skfem').addHandler(h)
MeshTri2().with_subdomains({'a': lambda x: x[0]<.5}).refined(np.array([0])); R['F07']=any('subdomains' in q for q in h.msgs)
# F08
e=ElementTriMorley(); ma_=MeshTri().refined(1); mb=MeshTri().refined(1).scaled((2.,3.)); Basis(ma_,e); bb=Basis(mb,e); bf=Basis(mb,ElementTriMorley())
R['F08']=np.allclose(bb.basis[3][0],bf.basis[3][0])
# F09
e=ElementLinePp(3); X1=np.array([[.1,.3,.7]]); X2=np.array([[.2,.5,.9]]); e.lbasis(X1,2); R['F09']=np.allclose(e.lbasis(X2,2)[0],ElementLinePp(3).lbasis(X2,2)[0])
# F10
mq=MeshQuad().refined(1); mp=mq.mapping(); X=np.array([[.3,.6],[.2,.7]]); mp.J(0,0,X,tind=np.array([1],dtype=np.int64)); R['F10']=mp.J(0,0,X,tind=np.array([1,0],dtype=np.int32)).shape==(2,2)
# F11
s_=solver_iter_pcg(); b1=Basis(MeshTri().refined(2),ElementTriP1()); b2=Basis(MeshTri().refined(3),ElementTriP1())
solve(laplace.assemble(b1)+mass.assemble(b1),unit_load.assemble(b1),solver=s_)
try: solve(laplace.assemble(b2)+mass.assemble(b2),unit_load.assemble(b2),solver=s_); R['F11']=True
except Exception as ex: R['F11']=False
# F12
np.random.seed(5); a=np.random.rand(); np.random.seed(5); MeshTet().refined(np.array([0])); R['F12']=np.random.rand()==a
# F13
mt2=MeshTri().with_boundaries({'l':lambda x:x[0]==0}); d=mt2.to_dict(); k0=sorted(d); MeshTri.from_dict(d); MeshTri.from_dict(d); R['F13']=sorted(d)==k0
# F14
from skfem.io.meshio import to_meshio
cd={'mine':[np.zeros(mt2.nelements)]}; to_meshio(mt2,cell_data=cd); R['F14']=list(cd)==['mine']
# F15
m=MeshTri.init_tensor(np.linspace(0,1,4),np.linspace(0,1,4)); rng=np.random.default_rng(0); bad=0
for _ in range(200):
    f=np.sort(rng.choice(np.nonzero(m.f2t[1]!=-1)[0],size=rng.integers(1,8),replace=False)); o=rng.integers(0,2,size=len(f))
    mm=m.with_boundaries({'i':OrientedBoundary(f,o)}); bb_,_=mm._decode_cell_data(mm._encode_cell_data()); g=bb_['i']
    bad+= not (np.array_equal(np.asarray(g),f) and np.array_equal(getattr(g,'ori',np.zeros(len(g),dtype=int)),o))
R['F15']=bad==0
# F18
mm=MeshTri().refined(1); ub=Basis(mm,ElementTriP2()); vb=ub.with_element(ElementTriP1())
coo=BilinearForm(lambda u,v,w:u.grad[0]*v).elemental(ub,vb); loc=coo.tolocal(); Ag=coo.tocsr().toarray(); Rr=np.zeros_like(Ag)
for e_ in range(mm.nelements):
    for i in range(vb.Nbfun):
        for j in range(ub.Nbfun): Rr[vb.element_dofs[i,e_],ub.element_dofs[j,e_]]+=loc[e_,i,j]
A0=BilinearForm(lambda u,v,w:u.grad[0]*v,nthreads=3).assemble(ub,vb).toarray()
R['F18']=np.allclose(Rr,Ag) and np.allclose(A0,Ag)
# F19
mh=MeshHex().refined(1); ec=ElementHex2()*ElementHexS2(); bc=Basis(mh,ec); dd=bc.get_dofs(); ix=bc.split_indices()
R['F19']=np.isin(dd.all(['u^1']),ix[0]).all() and np.isin(dd.all(['u^2']),ix[1]).all()
# F20
from skfem.autodiff.helpers import det as jdet
Aj=np.random.default_rng(1).random((3,3,2,2)); R['F20']=np.allclose(np.asarray(jdet(Aj)),np.linalg.det(Aj.transpose(2,3,0,1)))
for k in sorted(R): print(k, 'fixed' if R[k] else 'STILL FAILING')
