"""C05 (hunt 4) finding 1: condense() cannot reduce a system whose matrix (or
mass matrix) is stored in COO, DIA or BSR format; penalize() cannot penalise a
BSR matrix.  These are the *default* output formats of scipy.sparse.block_diag
/ coo_matrix triplets (COO), scipy.sparse.eye / identity / diags (DIA) and
scipy.sparse.kron (BSR).  The sibling enforce() accepts all of them.

The property promises, for all sparse matrices, that solving the condensed
(penalised) system and expanding returns a vector equal to x on the constrained
indices which satisfies the original equations on the kept ones.
"""
import sys
import warnings

import numpy as np
import scipy.sparse as sp

from skfem import MeshTri, Basis, ElementTriP1, condense, enforce, penalize, solve
from skfem.models.poisson import laplace, mass, unit_load

warnings.simplefilter('ignore')

m = MeshTri().refined(2)
basis = Basis(m, ElementTriP1())
K = laplace.assemble(basis)
M = mass.assemble(basis)
f = unit_load.assemble(basis)
N = basis.N

failures = []


def check_linear(label, fun, A, b, x, D):
    """fun in (condense, enforce, penalize); A any sparse format."""
    Ad = A.toarray()
    I = np.setdiff1d(np.arange(A.shape[0]), D)
    try:
        y = solve(*fun(A, b, x=x, D=D))
    except Exception as e:
        print(f"  {label:55s} raises {type(e).__name__}: {str(e)[:50]}")
        failures.append(label)
        return
    e1 = abs(y[D] - x[D]).max()
    e2 = abs((Ad @ y - b)[I]).max()
    ok = e1 < 1e-8 and e2 < 1e-8
    print(f"  {label:55s} |y-x|_D = {e1:.1e}, |Ay-b|_I = {e2:.1e}"
          f" -> {'ok' if ok else 'WRONG'}")
    if not ok:
        failures.append(label)


# 1. a two-field block system built with scipy.sparse.block_diag (default: COO)
print("block system diag(K, K + M) from sp.block_diag(blocks):")
A_coo = sp.block_diag((K, K + M))         # no format given -> COO
b2 = np.concatenate((f, 0 * f))
D2 = np.concatenate((basis.get_dofs().flatten(),
                     basis.get_dofs().flatten() + N))
x2 = np.zeros(2 * N)
x2[D2] = np.linspace(1., 2., len(D2))
print("  format returned by sp.block_diag:", A_coo.format)
for fun in (enforce, penalize, condense):
    check_linear(f"{fun.__name__}(sp.block_diag(...)) [coo]", fun, A_coo, b2, x2, D2)

# 2. vector problem via Kronecker product (default format of sp.kron: BSR)
print("vector Laplacian sp.kron(K, I_2):")
A_bsr = sp.kron(K, np.eye(2))
print("  format returned by sp.kron:", A_bsr.format)
b3 = np.repeat(f, 2)
D3 = np.sort(np.concatenate((2 * basis.get_dofs().flatten(),
                             2 * basis.get_dofs().flatten() + 1)))
x3 = np.zeros(2 * N)
x3[D3] = np.linspace(-1., 1., len(D3))
for fun in (enforce, penalize, condense):
    check_linear(f"{fun.__name__}(sp.kron(K, I)) [bsr]", fun, A_bsr, b3, x3, D3)

# 3. a DIA matrix (sp.diags) as the system matrix
print("diagonal system sp.diags(...):")
A_dia = sp.diags(np.arange(1., N + 1))
print("  format returned by sp.diags:", A_dia.format)
D4 = basis.get_dofs().flatten()
x4 = np.zeros(N)
x4[D4] = 3.
for fun in (enforce, penalize, condense):
    check_linear(f"{fun.__name__}(sp.diags(...)) [dia]", fun, A_dia, f, x4, D4)

# 4. eigenproblem with a lumped (diagonal, DIA) mass matrix
print("eigenproblem K x = lambda M_lumped x, M_lumped = sp.diags(M.sum(1)):")
Ml = sp.diags(np.asarray(M.sum(axis=1)).ravel())
print("  format of the lumped mass matrix:", Ml.format)
I = basis.complement_dofs(basis.get_dofs())
ref = np.sort(np.linalg.eigvals(
    np.linalg.solve(Ml.toarray()[np.ix_(I, I)], K.toarray()[np.ix_(I, I)])
).real)[:3]
try:
    L, X = solve(*condense(K, Ml, D=basis.get_dofs()), k=3, sigma=0.)
    L = np.sort(L.real)
    ok = np.allclose(L, ref, rtol=1e-8) and abs(X[basis.get_dofs().flatten()]).max() == 0
    print("  condense(K, Ml) eigenvalues", L, "reference", ref,
          '-> ok' if ok else '-> WRONG')
    if not ok:
        failures.append('eigen')
except Exception as e:
    print(f"  condense(K, Ml, D=...) raises {type(e).__name__}: {e}")
    print("  reference eigenvalues of the reduced pencil:", ref)
    failures.append('condense eigen [dia mass]')

print()
if failures:
    print("FAILED for:", *failures, sep="\n  ")
    print("The property demands a condensed / penalised system (and its "
          "expanded solution) for every sparse matrix format.")
    sys.exit(1)
print("all formats handled")
