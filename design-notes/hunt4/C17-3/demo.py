"""C17 (hunt 4) finding 3.

Mesh.load(..., int_data_to_sets=True) - a keyword of the loader
(skfem.io.meshio.from_meshio) - raises AttributeError for every file: it calls
meshio.Mesh.int_data_to_sets(), which does not exist in the meshio releases
the library otherwise supports (meshio >= 5.1; the README itself speaks of
"meshio 5.3.0+").
"""
import os
import sys
import tempfile
import warnings

import numpy as np
import meshio

from skfem import Mesh, MeshTri, MeshHex

warnings.filterwarnings('ignore')
print('meshio', meshio.__version__)

failures = 0
for m in [MeshTri().refined(2), MeshHex().refined(1)]:
    m = (m.with_subdomains({'sub': np.arange(m.nelements // 2)})
         .with_boundaries({'bnd': m.boundary_facets()[::2]}))
    for fmt in ['.vtk', '.vtu', '.msh']:
        with tempfile.TemporaryDirectory() as d:
            fname = os.path.join(d, 'mesh' + fmt)
            devnull = open(os.devnull, 'w')
            stdout, sys.stdout = sys.stdout, devnull
            try:
                m.save(fname)
                ref = Mesh.load(fname)                       # works
                try:
                    M = Mesh.load(fname, int_data_to_sets=True)
                    ok = (np.array_equal(M.p, m.p)
                          and np.array_equal(M.t, m.t)
                          and 'sub' in (M.subdomains or {})
                          and np.array_equal(np.sort(M.subdomains['sub']),
                                             np.sort(m.subdomains['sub']))
                          and 'bnd' in (M.boundaries or {})
                          and np.array_equal(np.sort(M.boundaries['bnd']),
                                             np.sort(m.boundaries['bnd'])))
                    msg = 'mesh and tags loaded' if ok else 'tags differ'
                except Exception as e:
                    ok = False
                    msg = '{}: {}'.format(type(e).__name__, e)
            finally:
                sys.stdout = stdout
                devnull.close()
        print('{:9s} {:5s} plain load ok; int_data_to_sets=True -> {}'.format(
            type(m).__name__, fmt, msg))
        failures += not ok

print()
print('expected: the keyword is either honoured or absent; the saved mesh and '
      'its tags come back')
if failures:
    print('{} loads FAILED'.format(failures))
    sys.exit(1)
print('all loads passed')
