"""C19 / finding 2: a Basis of a composite element cannot be built (with the
default quadrature) for ordinary combinations of components, although every
component - and every pairwise coupling of components - can be integrated
with the rules the library has.

ElementComposite.maxdeg is the SUM of the component degrees, the default
integration order is 2 * maxdeg, and the tetrahedral rules stop at order 8
(triangles: 19).
"""
import sys
import logging
import numpy as np
from skfem import (MeshTet, MeshTri, Basis, BilinearForm, ElementVector,
                   ElementTetP1, ElementTetP2, ElementTetMini, ElementTetCCR,
                   ElementTetP0, ElementTriArgyris, ElementTriP4,
                   ElementTriP2)

logging.disable(logging.CRITICAL)
failed = False
rng = np.random.default_rng(0)


def scal(f):
    # any scalar made of the field: sum of its value components
    v = np.asarray(f)
    return v.reshape((-1,) + v.shape[-2:]).sum(axis=0)


def block_check(B):
    """Coupled form on the composite basis == blocks of component forms."""
    n = len(B.elem.elems)
    C = rng.random((n, n)) + .5
    A = BilinearForm(
        lambda *a: sum(C[i, j] * scal(a[j]) * scal(a[n + i])
                       for i in range(n) for j in range(n))
    ).assemble(B).toarray()
    ix = B.split_indices()
    bs = B.split_bases()
    err = 0.
    for i in range(n):
        for j in range(n):
            Aij = BilinearForm(
                lambda u, v, w: C[i, j] * scal(u) * scal(v)
            ).assemble(bs[j], bs[i]).toarray()
            err = max(err, np.abs(A[np.ix_(ix[i], ix[j])] - Aij).max())
    return err


tet = MeshTet().refined(1)
tri = MeshTri().refined(1)
cases = [
    ("tet  P2 * P2 * P1 (three scalar fields)", tet,
     lambda: ElementTetP2() * ElementTetP2() * ElementTetP1()),
    ("tet  vector MINI * P1 (Stokes, MINI element)", tet,
     lambda: ElementVector(ElementTetMini()) * ElementTetP1()),
    ("tet  vector CCR * P0", tet,
     lambda: ElementVector(ElementTetCCR()) * ElementTetP0()),
    ("tri  Argyris * Argyris", tri,
     lambda: ElementTriArgyris() * ElementTriArgyris()),
    ("tri  P4 * P4 * P2", tri,
     lambda: ElementTriP4() * ElementTriP4() * ElementTriP2()),
]

for label, mesh, make in cases:
    e = make()
    degs = [c.maxdeg for c in e.elems]
    print(label)
    print("   component maxdeg:", degs, " composite maxdeg:", e.maxdeg,
          " highest degree of a product of two components:", 2 * max(degs))
    # every component on its own is fine
    for c in e.elems:
        Basis(mesh, c)
    try:
        B = Basis(mesh, e)
    except NotImplementedError as exc:
        print("   Basis(mesh, composite) ->", repr(exc))
        # the same space with the order that is actually needed
        B = Basis(mesh, e, intorder=2 * max(degs))
        print("   with intorder = 2 * max(maxdeg) the block identity holds,"
              " error = {:.1e}".format(block_check(B)))
        failed = True
    else:
        err = block_check(B)
        print("   built, block identity error = {:.1e}".format(err))
        if err > 1e-10:
            failed = True

if failed:
    print("FAIL: the property promises a result for these component "
          "combinations, the default construction raises")
    sys.exit(1)
print("PASS")
