"""C01 / hunt 4 / finding 1

Globally defined elements (ElementGlobal: Argyris, Hermite, Morley, BFS, ...)
evaluate their basis functions as combinations of monomials x**i * y**j in the
GLOBAL coordinates.  The conditioning of that representation grows like
(|x| / h) ** maxdeg, so that on perfectly ordinary meshes (a unit square a few
units away from the origin, or simply a fine mesh of the unit square) the
assembled matrix / vector and Basis.interpolate no longer represent the weak
form evaluated on the finite element function.

Test function: the constant 1.  For the Argyris element its coefficient vector
is known exactly: value DOFs = 1, all derivative DOFs = 0.  Hence

    x^T M x = b^T x = J = |Omega| = 1        (M: mass matrix, b: unit load)

and u_h = interpolate(x) must be 1 at every quadrature point, whatever the
position of the unit square in the plane.
"""
import sys
import numpy as np
from skfem import (MeshTri, Basis, ElementTriArgyris, BilinearForm,
                   LinearForm, Functional)

mass = BilinearForm(lambda u, v, w: u * v)
load = LinearForm(lambda v, w: 1. * v)
area = Functional(lambda w: w['uh'] ** 2)


def run(nrefs, shift):
    m = MeshTri().refined(nrefs).translated((shift, shift))
    basis = Basis(m, ElementTriArgyris())
    x = basis.zeros()
    x[basis.nodal_dofs[0]] = 1.          # u = 1, u_x = u_y = ... = u_n = 0
    M = mass.assemble(basis)
    b = load.assemble(basis)
    uh = basis.interpolate(x)
    J = area.assemble(basis, uh=uh)
    return x @ M @ x, b @ x, J, np.abs(uh - 1.).max(), M


bad = False
print("unit square [s, s+1]^2, ElementTriArgyris, u_h = 1; "
      "the property demands 1 in the columns 3-5 and 0 in the last")
print("{:>5} {:>6} {:>22} {:>22} {:>22} {:>12}".format(
    'nrefs', 's', 'x^T M x', 'b^T x', 'J = int u_h^2', 'max|u_h-1|'))
for nrefs, shift in [(3, 0.), (3, 10.), (3, 50.), (4, 20.), (6, 0.), (6, 5.)]:
    vMv, bx, J, err, M = run(nrefs, shift)
    print("{:>5} {:>6} {:>22.15g} {:>22.15g} {:>22.15g} {:>12.3e}".format(
        nrefs, shift, vMv, bx, J, err))
    if max(abs(vMv - 1.), abs(bx - 1.), abs(J - 1.), err) > 1e-8:
        bad = True

# translation invariance of the integrand u * v: same matrix on both meshes
M0 = run(3, 0.)[4]
M1 = run(3, 50.)[4]
rel = abs(M1 - M0).max() / abs(M0).max()
print("max |M(shifted by 50) - M(unshifted)| / max |M| = {:.3e}  "
      "(demanded: round-off)".format(rel))
if rel > 1e-8:
    bad = True

if bad:
    print("FAIL: the assembled forms of a globally defined element do not "
          "represent the weak form away from the origin")
    sys.exit(1)
print("OK")
