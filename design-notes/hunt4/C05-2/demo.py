"""C05 (hunt 4) finding 2: an EMPTY constrained (or kept) set is rejected when it
arrives as an empty array of NumPy's default dtype or as an empty dictionary of
views.

`np.array([])`, `np.array([i for i in ... if cond(i)])` with no hit and
`np.intersect1d(D1, np.array([]))` are all float64 arrays of length 0; `{}` is
the dictionary of views of a mesh without named boundaries.  They describe the
split "nothing is constrained" (or "nothing is kept"), for which the property
promises the solution of the original system (or x itself).
"""
import sys
import warnings

import numpy as np
import scipy.sparse as sp

from skfem import condense, enforce, penalize, solve

warnings.simplefilter('ignore')

n = 6
A = sp.csr_matrix(np.diag(np.arange(2., n + 2)) + np.eye(n, k=1))
b = np.ones(n)
x = np.arange(n, dtype=float)
y_free = np.linalg.solve(A.toarray(), b)      # nothing constrained
y_fixed = x                                   # everything constrained

nobody = np.array([i for i in range(n) if i > 100])   # no index qualifies
print("empty selection:", repr(nobody))

cases = [
    ("D=np.array([...no hit...])", dict(D=nobody), y_free),
    ("I=np.array([...no hit...])", dict(I=nobody), y_fixed),
    ("D={} (no views)", dict(D={}), y_free),
    ("D=np.array([], dtype=int) (control)", dict(D=np.array([], dtype=int)),
     y_free),
]

failed = []
for label, kw, expected in cases:
    for fun in (condense, enforce, penalize):
        try:
            y = solve(*fun(A, b, x=x, **kw))
            ok = np.allclose(y, expected, atol=1e-8)
            print(f"{fun.__name__:9s} {label:38s} -> "
                  f"{'ok' if ok else 'WRONG ' + str(y)}")
            if not ok:
                failed.append((fun.__name__, label))
        except Exception as e:
            print(f"{fun.__name__:9s} {label:38s} -> raises "
                  f"{type(e).__name__}: {str(e)[:60]}")
            failed.append((fun.__name__, label))

print()
print("expected in every line: the solution of the unconstrained system",
      np.round(y_free, 4), "for an empty D, x itself for an empty I")
if failed:
    print(f"{len(failed)} calls failed")
    sys.exit(1)
print("all empty splits handled")
