"""Joining two second-order meshes with `+`: the joined mesh numbers its
vertices among the mid-side nodes, so the vertex count / incidence matrices
are wrong and the mesh cannot be used."""
import sys
import numpy as np
from skfem import Basis, Functional
from skfem.mesh import MeshTri2, MeshQuad2, MeshTet2, MeshHex2

bad = 0
for cls, nv_expected in ((MeshTri2, 6), (MeshQuad2, 6), (MeshTet2, 12), (MeshHex2, 12)):
    m = cls()                                   # unit square / cube
    shift = (1.,) + (0.,) * (m.dim() - 1)
    M = m + m.translated(shift)                 # two unit cells side by side
    used = np.unique(M.t).size
    print(cls.__name__, 'distinct vertices in the cell list:', used,
          '(expected %d)' % nv_expected, ' nvertices:', M.nvertices,
          ' p2t shape:', M.p2t.shape, ' stored points:', M.p.shape[1])
    ok = (M.nvertices == nv_expected)
    try:
        vol = Functional(lambda w: 1. + 0. * w.x[0]).assemble(Basis(M, M.elem()))
        print('   volume', vol, 'expected 2')
        ok = ok and np.isclose(vol, 2.)
    except Exception as e:
        print('   Basis on the joined mesh raises', repr(e))
        ok = False
    bad += not ok

# the same conflation in restrict / remove_unused_nodes / remove_duplicate_nodes
m = MeshTri2.init_circle(2)
area = lambda M: Functional(lambda w: 1. + 0. * w.x[0]).assemble(Basis(M, M.elem()))
print('MeshTri2 disk, area', area(m))
for name, f, expected in (
        ('restrict(x > 0)', lambda: m.restrict(lambda x: x[0] > 0), area(m) / 2),
        ('remove_unused_nodes()', lambda: m.remove_unused_nodes(), area(m)),
        ('remove_duplicate_nodes()', lambda: m.remove_duplicate_nodes(), area(m))):
    r = f()
    print(name, ': stored points', r.p.shape[1], 'nvertices', r.nvertices,
          '(vertices of the cell list: %d)' % np.unique(r.t).size)
    try:
        a = area(r)
        print('   area', a, 'expected', expected)
        bad += not np.isclose(a, expected)
    except Exception as e:
        print('   Basis on the result raises', repr(e))
        bad += 1
print('violations:', bad)
sys.exit(1 if bad else 0)
