"""C07: a vertex named by its coordinates (point tuple) is found or not
depending on the length unit of the mesh - the match uses an absolute 1e-12.

The same 10 x 10 mesh of a square is built in units where the side is 1, 1e2,
..., 1e6.  In every unit the vertex number 40 is named by its coordinates
(0.3 * side, 0.7 * side); the coordinates stored in the mesh differ from that
by one unit in the last place at most.  The DOF query by point must return
the same DOF as the query by vertex index in every unit.
"""
import sys
import numpy as np
from skfem import MeshTri, Basis, ElementTriP1

x = np.linspace(0, 1, 11)
m = MeshTri.init_tensor(x, x)
v = int(Basis(m, ElementTriP1()).get_dofs(nodes=(0.3, 0.7)).flatten()[0])
print("vertex named by (0.3, 0.7) on the unit mesh:", v, m.p[:, v])

bad = []
for side in [1., 1e2, 1e3, 1e4, 1e5, 1e6]:
    ms = m.scaled((side, side))
    basis = Basis(ms, ElementTriP1())
    pt = (0.3 * side, 0.7 * side)
    h = side / 10
    err = np.linalg.norm(ms.p[:, v] - np.array(pt))
    by_index = basis.get_dofs(nodes=[v]).flatten()
    by_point = basis.get_dofs(nodes=pt).flatten()
    print("side {:8.0e}: |stored - given| = {:.1e} = {:.1e} cell sizes; "
          "by index {}, by point {}".format(side, err, err / h,
                                            by_index, by_point))
    if not np.array_equal(by_index, by_point):
        bad.append(side)

if bad:
    print("FAIL: the point names vertex {} to within 1e-15 cell sizes, but "
          "the query by point is empty for side =".format(v), bad)
    sys.exit(1)
print("OK")
