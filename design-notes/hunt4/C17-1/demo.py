"""C17 (hunt 4) finding 1.

A second-order mesh whose vertex numbers have a gap (one point of the point
array is not used by any cell, e.g. the centre point of an arc in a Gmsh file
or the vertices of the other cell type of a mixed mesh, cf. docs ex41) does
not survive Mesh.save -> Mesh.load through any mesh-file format: the loader
renumbers the vertices, permutes the point array, and user point data no
longer belong to the points of the loaded mesh.  save_npz -> load_npz of the
very same mesh is exact.
"""
import os
import sys
import tempfile
import warnings

import numpy as np

from skfem import Mesh, MeshTri1, MeshTri2, MeshQuad1, MeshQuad2

warnings.filterwarnings('ignore')

failures = []


def check(label, cond):
    print('   {:<62s} {}'.format(label, 'ok' if cond else 'VIOLATED'))
    if not cond:
        failures.append(label)


def same(a, b):
    return a.shape == b.shape and np.array_equal(a, b)


def cycle(m, fmt, **kwargs):
    u = m.p[0] + 10. * m.p[1]       # user data: one value per stored point
    with tempfile.TemporaryDirectory() as d:
        fname = os.path.join(d, 'mesh' + fmt)
        devnull = open(os.devnull, 'w')
        stdout, sys.stdout = sys.stdout, devnull   # silence meshio's chatter
        try:
            m.save(fname, point_data={'u': u}, **kwargs)
            out = ['point_data']
            M = Mesh.load(fname, out=out)
        finally:
            sys.stdout = stdout
            devnull.close()
    return M, u, out[0]['u']


# the unit square split into two triangles; point 0 (the centre) belongs to
# no cell -- an "orphan" point in the middle of the numbering
p = np.array([[.5, 0., 1., 0., 1.],
              [.5, 0., 0., 1., 1.]])
t = np.array([[1, 2],
              [2, 3],
              [3, 4]])
tri1 = MeshTri1(p, t)
quad1 = MeshQuad1(p, np.array([[1], [2], [4], [3]]))

for m1, cls2 in [(tri1, MeshTri2), (quad1, MeshQuad2)]:

    m = cls2.from_mesh(m1)
    bnd = m.boundary_facets()
    m = (m.with_boundaries({'bnd': bnd})
         .with_subdomains({'all': np.arange(m.nelements)}))
    print('{}: {} points, {} cells, vertex numbers used: {}'.format(
        cls2.__name__, m.p.shape[1], m.nelements, np.unique(m.t)))

    for fmt, kwargs in [('.vtk', {}),
                        ('.vtu', {}),
                        ('.msh', {}),
                        ('.msh', {'file_format': 'gmsh22'})]:
        M, u, U = cycle(m, fmt, **kwargs)
        print(' {} {}'.format(fmt, kwargs))
        print('   saved  t =', m.t.tolist())
        print('   loaded t =', M.t.tolist())
        check('same class', type(M) is type(m))
        check('connectivity t unchanged', same(M.t, m.t))
        check('point array p unchanged', same(M.p, m.p))
        check('point data returned unchanged', same(np.asarray(U), u))
        check('point data still belong to the points of the loaded mesh',
              U.shape[0] == M.p.shape[1]
              and np.allclose(U, M.p[0] + 10. * M.p[1]))

    # sibling: the NumPy archive keeps the same mesh exactly
    with tempfile.TemporaryDirectory() as d:
        fname = os.path.join(d, 'mesh.npz')
        m.save_npz(fname)
        M = cls2.load_npz(fname)
    print(' .npz')
    check('npz: connectivity and points unchanged',
          same(M.t, m.t) and same(M.p, m.p))

# control: the first-order meshes with the same orphan point are fine
for m1 in [tri1, quad1]:
    M, u, U = cycle(m1, '.vtk')
    print('{} (control, first order) .vtk'.format(type(m1).__name__))
    check('control: t and p unchanged', same(M.t, m1.t) and same(M.p, m1.p))

print()
if failures:
    print('{} checks VIOLATED: the property demands that load(save(m)) has '
          'the same vertex coordinates and connectivity as m and that point '
          'data come back matching the mesh.'.format(len(failures)))
    sys.exit(1)
print('all checks passed')
