"""C19 / finding 4: COOData.toarray() (and np.asarray(coodata)) works for the
elemental data of linear, bilinear and trilinear forms but raises IndexError
for the elemental data of a Functional (0-tensor), also after adding two such
objects as asm() does for a list of bases.
"""
import sys
import logging
import numpy as np
from skfem import (MeshTri, Basis, Functional, LinearForm, BilinearForm,
                   TrilinearForm, ElementTriP2, ElementTriP0)

logging.disable(logging.CRITICAL)
m = MeshTri().refined(1)
B = Basis(m, ElementTriP2() * ElementTriP0())
parts = [B.with_elements(np.arange(0, 3)), B.with_elements(np.arange(3, 8))]
x = np.random.default_rng(0).random(B.N)

forms = [
    ("Functional   ", Functional(lambda w: w['z'][0] * w['z'][1] + w.x[0])),
    ("LinearForm   ", LinearForm(lambda v, q, w: v * w['z'][1] + q)),
    ("BilinearForm ", BilinearForm(lambda u, p, v, q, w: u * q + p * v)),
    ("TrilinearForm", TrilinearForm(
        lambda u, p, v, q, r, s, w: u * q * r + p * v * s)),
]
failed = False
for name, form in forms:
    whole = form.coo_data(B, z=x)
    summed = sum(form.coo_data(b, z=x) for b in parts)
    ref = whole.todefault()
    if hasattr(ref, 'toarray'):
        ref = ref.toarray()
    for label, coo in (("whole", whole), ("sum of parts", summed)):
        try:
            arr = coo.toarray()
            ok = np.allclose(arr, ref)
            print(name, label, "toarray() shape", np.shape(arr),
                  "equals the assembled tensor:", ok)
            failed |= not ok
        except Exception as exc:
            print(name, label, "toarray() ->", repr(exc),
                  "  (assembled value: {})".format(ref))
            failed = True

if failed:
    print("FAIL")
    sys.exit(1)
print("PASS")
