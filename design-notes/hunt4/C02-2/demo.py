"""C02 (hunt 4) finding 2: a Boolean mask given as the subset of cells / facets
of a basis is taken for an index array only half of the time.

CellBasis / FacetBasis count the integration entities with len(mask) (= all
cells / facets) but index the geometry with the mask (= the selected ones).
Most masks therefore raise a broadcasting ValueError, but a mask with exactly
ONE True broadcasts: the measure of the single selected entity is silently
integrated once per cell / facet of the whole mesh.

Property clause: "functionals of polynomials equal their closed-form integrals
over ... any tagged subdomain or any set of facets", "all subsets of cells and
of facets", "the entries of the mass matrix of a partition-of-unity element sum
to the measure of the integration domain".
"""
import sys
import numpy as np
from skfem import (MeshTri, MeshQuad, MeshLine, ElementTriP1, ElementQuad1,
                   ElementLineP1, Basis, FacetBasis, Functional, BilinearForm)

one = Functional(lambda w: 1. + 0. * w.x[0])
mass = BilinearForm(lambda u, v, w: u * v)

bad = 0


def check(label, build, mask):
    """Compare the mask with the equivalent index array."""
    global bad
    ix = np.nonzero(mask)[0]
    ref = float(one.assemble(build(ix)))
    try:
        b = build(mask)
        got = float(one.assemble(b))
        msum = float(mass.assemble(b).sum())
        ok = abs(got - ref) < 1e-12 and abs(msum - ref) < 1e-12
        print("{:42s} indices: {:.6f}   mask: measure {:.6f}, sum(M) {:.6f}   {}"
              .format(label, ref, got, msum, "ok" if ok else "SILENTLY WRONG"))
    except Exception as e:
        ok = False
        print("{:42s} indices: {:.6f}   mask: {}: {}   (loud)"
              .format(label, ref, type(e).__name__, str(e)[:50]))
    bad += not ok


for m, e in [(MeshTri().refined(2), ElementTriP1()),
             (MeshQuad().refined(2), ElementQuad1()),
             (MeshLine(np.linspace(0, 1, 9)), ElementLineP1())]:
    name = type(m).__name__
    # exactly one cell / one facet selected
    cmask = np.zeros(m.nelements, dtype=bool)
    cmask[3] = True
    fmask = np.zeros(m.nfacets, dtype=bool)
    fmask[m.boundary_facets()[0]] = True
    check(name + " cells, one True", lambda s: Basis(m, e, elements=s), cmask)
    check(name + " facets, one True", lambda s: FacetBasis(m, e, facets=s),
          fmask)
    # the same through a tag, as with_subdomains / with_boundaries store
    # whatever they are given
    mt = m.with_subdomains({'s': cmask}).with_boundaries({'b': fmask})
    check(name + " cells, tag holding the mask",
          lambda s: Basis(mt, e, elements='s' if s.dtype == bool else s), cmask)
    check(name + " facets, tag holding the mask",
          lambda s: FacetBasis(mt, e, facets='b' if s.dtype == bool else s),
          fmask)
    # several True
    cmask2 = m.p[0, m.t].mean(axis=0) < .5
    check(name + " cells, left half", lambda s: Basis(m, e, elements=s), cmask2)

if bad:
    print("\nFAIL: {} selections by Boolean mask do not give the integral over "
          "the selected set".format(bad))
    sys.exit(1)
print("\nPASS")
