"""C17 (hunt 4) finding 4.

Exporting a two-dimensional mesh together with two-component (vector) point
or cell data to VTK / VTU silently rewrites the CALLER's dictionaries: after
m.save('x.vtk', point_data=pd) the entry pd['u'] is a different array with
three columns.  With encode_point_data=True (or through a copy of the
dictionary) the same call leaves the caller's data alone.
"""
import os
import sys
import tempfile
import warnings

import numpy as np

from skfem import MeshTri, MeshQuad, MeshTri2

warnings.filterwarnings('ignore')

failures = 0

for m in [MeshTri().refined(2), MeshQuad().refined(2), MeshTri2.init_circle(1)]:
    m = m.with_boundaries({'bnd': m.boundary_facets()})
    for fmt in ['.vtk', '.vtu']:
        for kwargs in [{}, {'encode_point_data': True}]:
            # a displacement-like field: two components per point / per cell
            u = np.stack([m.p[0], 2. * m.p[1]], axis=1)
            g = np.ones((m.nelements, 2))
            pd = {'u': u}
            cd = {'g': [g]}
            with tempfile.TemporaryDirectory() as d:
                devnull = open(os.devnull, 'w')
                stdout, sys.stdout = sys.stdout, devnull
                try:
                    m.save(os.path.join(d, 'mesh' + fmt),
                           point_data=pd, cell_data=cd, **kwargs)
                finally:
                    sys.stdout = stdout
                    devnull.close()
            ok_p = pd['u'] is u and pd['u'].shape == (m.p.shape[1], 2)
            ok_c = cd['g'][0] is g and cd['g'][0].shape == (m.nelements, 2)
            print('{:9s} {} {!s:28s} point_data["u"]: {} -> {}   '
                  'cell_data["g"][0]: {} -> {}   {}'.format(
                      type(m).__name__, fmt, kwargs,
                      u.shape, pd['u'].shape, g.shape, cd['g'][0].shape,
                      'ok' if ok_p and ok_c else 'CALLER DATA REPLACED'))
            failures += not (ok_p and ok_c)

print()
print('expected: saving leaves the arguments as they were (the same arrays, '
      'two columns)')
if failures:
    print('{} saves modified the caller\'s dictionaries'.format(failures))
    sys.exit(1)
print('all saves left the arguments alone')
