"""C18 demo: Mesh.scaled accepts a single factor only if it is a Python float.

``m.scaled(0.5)`` / ``m.scaled(2.0)`` scale every dimension (used like that in
the test-suite and the examples); the same call with the factor 2 written as
an integer, or given as a NumPy scalar that is not a float64, raises
TypeError.
"""
import sys
import numpy as np
from skfem import MeshLine, MeshTri, MeshQuad, MeshTet, MeshHex

fail = False
for m in [MeshLine(), MeshTri().refined(), MeshQuad(), MeshTet(), MeshHex()]:
    reference = m.scaled(2.0)          # works: isinstance(2.0, float)
    for factor in [2, np.int64(2), np.float32(2), np.array(2.)]:
        label = f"{type(m).__name__}.scaled({factor!r})"
        try:
            out = m.scaled(factor)
        except Exception as e:
            print(f"{label}: raises {e!r}; expected the mesh scaled by 2 "
                  f"(extent {reference.p.max(axis=1)})")
            fail = True
            continue
        same = (np.array_equal(out.p, reference.p)
                and np.array_equal(out.t, reference.t))
        print(f"{label}: extent {out.p.max(axis=1)}, "
              f"{'equal to' if same else 'DIFFERENT from'} scaled(2.0)")
        fail = fail or not same

if fail:
    print("DEFECT: a scalar factor that is not a Python float is rejected")
    sys.exit(1)
print("ok")
