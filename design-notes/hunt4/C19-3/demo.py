"""C19 / finding 3: CompositeBasis (b1 * b2) overrides split() but inherits
split_indices() and split_bases() from AbstractBasis, which read self.elem -
an attribute a CompositeBasis does not have.  The "documented splitting of
the DOF numbers" is therefore unavailable for the basis-level composite,
although it exists for the element-level composite Basis(mesh, e1 * e2).
"""
import sys
import logging
import numpy as np
from skfem import (MeshTri, Basis, BilinearForm, ElementTriP2, ElementTriP1,
                   ElementVector)

logging.disable(logging.CRITICAL)
m = MeshTri().refined(1)
b1 = Basis(m, ElementVector(ElementTriP2()), intorder=4)
b2 = Basis(m, ElementTriP1(), intorder=4)


@BilinearForm
def coupled(u, p, v, q, w):
    return (u[0] * v[0] + 2. * u[1] * v[1] + p * v.grad[0, 0]
            + 3. * u.grad[1, 1] * q + 4. * p * q)


blocks = [
    [BilinearForm(lambda u, v, w: u[0] * v[0] + 2. * u[1] * v[1]),
     BilinearForm(lambda p, v, w: p * v.grad[0, 0])],
    [BilinearForm(lambda u, q, w: 3. * u.grad[1, 1] * q),
     BilinearForm(lambda p, q, w: 4. * p * q)],
]

# element-level composite: works
B = Basis(m, b1.elem * b2.elem, intorder=4)
A = coupled.assemble(B).toarray()
ix = B.split_indices()
bs = B.split_bases()
err = max(np.abs(A[np.ix_(ix[i], ix[j])]
                 - blocks[i][j].assemble(bs[j], bs[i]).toarray()).max()
          for i in range(2) for j in range(2))
print("Basis(mesh, e1 * e2): split_indices() sizes", [len(i) for i in ix],
      " block identity error {:.1e}".format(err))

# basis-level composite: the same request
cb = b1 * b2
A = coupled.assemble(cb).toarray()
print("b1 * b2: N =", cb.N, " split(x) sizes",
      [len(x) for x, _ in cb.split(np.zeros(cb.N))])
failed = False
try:
    ix = cb.split_indices()
    bs = cb.split_bases()
except AttributeError as exc:
    print("b1 * b2: split_indices() / split_bases() ->", repr(exc))
    print("expected: [arange(0, {}), arange({}, {})] and [b1, b2]"
          .format(b1.N, b1.N, cb.N))
    failed = True
else:
    err = max(np.abs(A[np.ix_(ix[i], ix[j])]
                     - blocks[i][j].assemble(bs[j], bs[i]).toarray()).max()
              for i in range(2) for j in range(2))
    print("b1 * b2: split_indices() sizes", [len(i) for i in ix],
          " block identity error {:.1e}".format(err))
    x = np.random.default_rng(0).random(cb.N)
    same = all(np.array_equal(x[i], xs) and b is bb
               for i, b, (xs, bb) in zip(ix, bs, cb.split(x)))
    print("split(x) == zip(x[split_indices()], split_bases()):", same)
    failed = err > 1e-12 or not same

if failed:
    print("FAIL")
    sys.exit(1)
print("PASS")
