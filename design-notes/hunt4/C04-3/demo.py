"""C04 (composite wrappers): every numbered DOF must stand for a local basis
function of the cells that reference it.

ElementComposite(ElementComposite(P2, P1), P0) is numbered like the flat
P2 * P1 * P0 (same N, same tables), but its basis functions have only two
fields and the DOFs of the inner second component (P1) have identically zero
basis functions: the component is silently dropped.
"""
import sys
import numpy as np
from skfem import (MeshTri, Basis, BilinearForm, ElementComposite,
                   ElementTriP2, ElementTriP1, ElementTriP0)

m = MeshTri().refined(1)


def mass(*a):
    n = (len(a) - 1) // 2
    return sum(u * v for u, v in zip(a[:n], a[n:-1]))


flat = ElementTriP2() * ElementTriP1() * ElementTriP0()   # __mul__ flattens
nested = ElementComposite(ElementComposite(ElementTriP2(), ElementTriP1()),
                          ElementTriP0())

res = {}
for name, e in [('flat', flat), ('nested', nested)]:
    b = Basis(m, e)
    M = BilinearForm(mass).assemble(b)
    dead = np.nonzero(abs(M).sum(axis=1).A1 == 0)[0]
    res[name] = (b.N, len(b.basis[0]), dead)
    print(f'{name:7s} N = {b.N}, (nodal, facet, interior) DOFs per entity = '
          f'({e.nodal_dofs}, {e.facet_dofs}, {e.interior_dofs}), '
          f'fields per basis function = {len(b.basis[0])}, '
          f'numbered DOFs with an identically zero basis function: '
          f'{len(dead)} {dead.tolist()}')

print()
print('property: the numbering (N, tables) and the local basis agree: 3 '
      'fields, no dead DOFs (or the nested constructor must be refused)')
N, nf, dead = res['nested']
if nf != 3 or len(dead) > 0:
    print('VIOLATED: the nested composite numbers', N, 'DOFs for 3 '
          'components but evaluates', nf, 'fields;', len(dead),
          'DOFs (the P1 vertex DOFs) are dead.')
    sys.exit(1)
print('ok')
