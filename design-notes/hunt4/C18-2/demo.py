"""C18 demo: mesh surgery on second-order meshes drops the mid-side nodes.

MeshTri2 / MeshQuad2 / MeshTet2 / MeshHex2 store one point per node of the
quadratic element (vertices first, then edge / face / interior nodes) while
``t`` lists the vertices only.  restrict, remove_elements,
remove_unused_nodes, remove_duplicate_nodes and ``+`` renumber the point array
through ``t`` alone, so the returned object - still a MeshTri2 etc. - has lost
(or scrambled) every mid-side node: it is not a valid mesh and the curved
geometry is gone.
"""
import sys
import numpy as np
from skfem import (MeshTri2, MeshQuad1, MeshQuad2, MeshTet2, MeshHex2, Basis,
                   Functional)


def measure(m, elements=None):
    """Measure of (a subset of) the cells, on the iso-parametric geometry."""
    basis = Basis(m, m.elem(), elements=elements)
    return Functional(lambda w: 1. + 0. * w.x[0]).assemble(basis)


def nnodes_expected(m):
    """Number of points a mesh of this class needs for its cells."""
    return int(m.dofs.element_dofs.max()) + 1


def bulge(p):
    # a smooth, non-affine change of coordinates: the mid-side nodes matter
    return p[0] + 0.2 * np.sin(np.pi * p[0]) * np.sin(np.pi * p[1])


meshes = {
    'MeshTri2 (disk)': MeshTri2.init_circle(nrefs=2),
    'MeshQuad2': MeshQuad2.from_mesh(MeshQuad1().refined(2)).morphed(bulge),
    'MeshTet2': MeshTet2().morphed(bulge),
    'MeshHex2': MeshHex2().refined(1).morphed(bulge),
}

fail = False
for name, m in meshes.items():
    mid = m.p[:, m.t].mean(axis=1)
    keep = np.nonzero(mid[0] < mid[0].mean())[0].astype(np.int32)
    drop = np.setdiff1d(np.arange(m.nelements, dtype=np.int32), keep)
    shift = np.zeros(m.dim())
    shift[0] = 10.
    print(f"{name}: {m.nelements} cells, {m.p.shape[1]} points "
          f"({m.nvertices} vertices), measure {measure(m):.12f}")
    cases = [
        ('restrict', lambda: m.restrict(keep), measure(m, keep)),
        ('remove_elements', lambda: m.remove_elements(drop),
         measure(m, keep)),
        ('remove_unused_nodes', lambda: m.remove_unused_nodes(), measure(m)),
        ('remove_duplicate_nodes', lambda: m.remove_duplicate_nodes(),
         measure(m)),
        ('m + m.translated', lambda: m + m.translated(shift), 2 * measure(m)),
    ]
    for op, run, expected in cases:
        try:
            M = run()
        except Exception as e:
            print(f"  {op:23s} raises {e!r:.70}")
            fail = True
            continue
        msg = (f"  {op:23s} -> {type(M).__name__} with {M.p.shape[1]} points, "
               f"its cells need {nnodes_expected(M)};")
        try:
            got = measure(M)
            msg += f" measure {got:.12f}, expected {expected:.12f}"
            ok = (abs(got - expected) < 1e-9
                  and M.p.shape[1] == nnodes_expected(M))
        except Exception as e:
            msg += f" measure: {type(e).__name__}: {e!s:.50}"
            msg += f" (expected {expected:.12f})"
            ok = False
        print(msg)
        fail = fail or not ok

if fail:
    print("DEFECT: surgery on second-order meshes loses the mid-side nodes")
    sys.exit(1)
print("ok")
