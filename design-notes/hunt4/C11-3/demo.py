"""Mesh.smoothed() on second-order meshes: mid-side nodes are treated as
vertices without neighbours and become NaN."""
import sys
import warnings
import numpy as np
from skfem.mesh import MeshTri2, MeshQuad2, MeshTet2, MeshHex2

warnings.simplefilter('ignore')
bad = 0
for m in (MeshTri2.init_circle(2), MeshQuad2().refined(2),
          MeshTet2.init_ball(1), MeshHex2().refined(1)):
    s = m.smoothed()
    nnan = int(np.isnan(s.p).any(axis=0).sum())
    print(type(m).__name__, 'stored points', m.p.shape[1], 'vertices',
          m.nvertices, '-> points with NaN coordinates after smoothed():',
          nnan, '(expected 0)')
    bad += nnan > 0
print('violations:', bad)
sys.exit(1 if bad else 0)
