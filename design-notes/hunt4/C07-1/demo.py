"""C07: predicate selectors on curved (second-order) meshes are not evaluated
at the midpoints of the facets.

On MeshTri2.init_circle() every boundary facet is a curved (quadratic) edge
whose midpoint - the image of the reference midpoint, i.e. the mid-side node -
lies on the unit circle.  A predicate "midpoint is on the unit circle" must
therefore name exactly the boundary facets, and get_dofs(predicate) /
with_boundaries({...: predicate}) must agree with get_dofs(index array) and
with the argument-free query.
"""
import sys
import numpy as np
from skfem import MeshTri2, Basis, FacetBasis, ElementTriP2

m = MeshTri2.init_circle(2)
basis = Basis(m, ElementTriP2())


def on_circle(x):
    return np.isclose(np.linalg.norm(x, axis=0), 1.)


bf = m.boundary_facets()

# the true midpoints of the boundary facets, from the library's own mapping
fb = FacetBasis(m, ElementTriP2(), facets=bf,
                quadrature=(np.array([[.5]]), np.array([1.])))
mid = fb.global_coordinates().value[:, :, 0]
print("radius of the midpoints of the boundary facets (FacetBasis):",
      np.unique(np.round(np.linalg.norm(mid, axis=0), 12)))
assert on_circle(mid).all()   # the predicate holds on every boundary facet

by_index = basis.get_dofs(bf).flatten()
by_default = basis.get_dofs().flatten()
by_pred = basis.get_dofs(on_circle).flatten()
by_tag = (Basis(m.with_boundaries({'outer': on_circle}), ElementTriP2())
          .get_dofs('outer').flatten())

print("boundary facets                 :", len(bf))
print("facets_satisfying(on_circle)    :", len(m.facets_satisfying(on_circle)))
print("#DOFs by index array            :", len(by_index))
print("#DOFs by argument-free query    :", len(by_default))
print("#DOFs by predicate              :", len(by_pred))
print("#DOFs by tag built from predicate:", len(by_tag))

ok = (np.array_equal(by_index, by_pred)
      and np.array_equal(by_index, by_tag)
      and np.array_equal(by_index, by_default))
if not ok:
    print("FAIL: the predicate / tag selector does not name the facets whose "
          "midpoints satisfy the predicate")
    sys.exit(1)
print("OK")
