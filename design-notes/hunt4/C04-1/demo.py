"""C04: a facet DOF number shared by two cells must denote the same DOF in both.

ElementTriArgyris / ElementTriMorley carry one normal-derivative DOF per facet.
On a triangle mesh whose cells are not stored with ascending vertex numbers
(here: the result of the public ``MeshTri.oriented()``), the two cells that
share a facet DOF number disagree about the direction of the normal, so the
same global number stands for  +du/dn  in one cell and  -du/dn  in the other.
"""
import sys
import numpy as np
from skfem import (MeshTri, InteriorFacetBasis, ElementTriArgyris,
                   ElementTriMorley)

rng = np.random.default_rng(0)
m_sorted = MeshTri.init_sqsymmetric().refined(1)
m_ccw = m_sorted.oriented()        # all cells counter-clockwise, sort_t=False
assert (m_ccw.orientation() == 1).all()

# one quadrature point: the facet midpoint, where the DOF is evaluated
q = (np.array([[0.5]]), np.array([1.]))

bad = False
for name, m in [('MeshTri (cells sorted)', m_sorted),
                ('MeshTri.oriented()', m_ccw)]:
    for e in [ElementTriArgyris(), ElementTriMorley()]:
        b0 = InteriorFacetBasis(m, e, side=0, quadrature=q)
        b1 = InteriorFacetBasis(m, e, side=1, quadrature=q)
        # both cells of a facet reference the same global number for u_n
        num0 = b0.element_dofs  # noqa (numbering is shared via b0.facet_dofs)
        x = rng.random(b0.N)
        u0, u1 = b0.interpolate(x), b1.interpolate(x)
        n = b0.normals.value                     # one fixed normal per facet
        dn0 = np.einsum('i...,i...', u0.grad, n)[:, 0]
        dn1 = np.einsum('i...,i...', u1.grad, n)[:, 0]
        dof = x[b0.facet_dofs[0, b0.find]]       # value of the shared DOF
        opposite = int((np.abs(dn0 + dn1) < 1e-8).sum())
        jump = np.abs(dn0 - dn1).max()
        print(f'{name:24s} {type(e).__name__:18s} '
              f'|du/dn| equals the DOF value on both sides: '
              f'{np.allclose(np.abs(dn0), np.abs(dof)) and np.allclose(np.abs(dn1), np.abs(dof))};  '
              f'facets where the two cells see opposite signs: '
              f'{opposite} of {len(dof)};  max jump of du/dn at midpoints: '
              f'{jump:.3g}')
        if jump > 1e-8:
            bad = True

print()
print('property: the number in facet_dofs[:, f] is one DOF, the normal '
      'derivative at the midpoint of f w.r.t. ONE normal, in both cells '
      'containing f  ->  jump must be 0 on every mesh')
if bad:
    print('VIOLATED: on the re-oriented mesh the shared number is +du/dn in '
          'one cell and -du/dn in the other (Argyris is no longer C1).')
    sys.exit(1)
print('ok')
