"""C10 (hunt4) finding 1.

In one dimension ``MappingIsoparametric.detDF`` hands out the array that lives
in the mapping's internal Jacobian cache.  An in-place operation on the
returned determinant (an ordinary thing to do with a freshly computed array:
``det *= w``, ``np.abs(det, out=det)`` ...) therefore rewrites the cache, and
from then on DF / invDF / detDF -- and every CellBasis built on the mesh with
the same reference points -- silently return values that are no longer the
derivative of the cell map.  The affine sibling and the 2-D / 3-D branches of
the same method return fresh arrays.
"""
import sys
import numpy as np
from skfem import MeshLine1, MeshTri1, CellBasis, ElementLineP1

p = np.array([[0., .5, 1.]])
t = np.array([[0, 1], [1, 2]]).T
X = np.array([[.25, .75]])
W = np.array([.5, .5])
bad = False

for affine in [True, False]:
    m = MeshLine1(p, t, affine=affine)
    mp = m.mapping()
    name = type(mp).__name__
    eps = 1e-6
    fd = (mp.F(X + eps) - mp.F(X - eps))[0] / (2 * eps)   # derivative of F

    det = mp.detDF(X)
    print(f"{name}: detDF(X) first call      = {det.tolist()}")
    det *= W            # caller scales *its* array by quadrature weights
    det2 = mp.detDF(X)  # same mapping, same points
    DF2 = mp.DF(X)[0, 0]
    length = CellBasis(m, ElementLineP1(), quadrature=(X, W)).dx.sum()
    print(f"{name}: detDF(X) second call     = {det2.tolist()}")
    print(f"{name}: DF(X)   second call      = {DF2.tolist()}")
    print(f"{name}: dF/dX by differences     = {fd.round(9).tolist()}")
    print(f"{name}: mesh length by CellBasis = {length}   (property: 1.0)")
    if not (np.allclose(det2, fd) and np.allclose(DF2, fd)
            and np.isclose(length, 1.)):
        print(f"  -> {name}: the delivered Jacobian is no longer the "
              "derivative of the map")
        bad = True

# the 2-D branch of the very same method returns a fresh array
m2 = MeshTri1(affine=False)
mp2 = m2.mapping()
X2 = np.array([[.2, .3], [.1, .5]])
d = mp2.detDF(X2)
d *= 0.
print("MappingIsoparametric 2-D: detDF after the caller zeroed its copy =",
      mp2.detDF(X2).tolist())

sys.exit(1 if bad else 0)
