"""C18 demo: ``@`` (join of meshes of different type) identifies only
bitwise-equal vertices, its sibling ``+`` identifies vertices up to round-off.

A strip [0, 0.4] x [0, 0.1] is assembled from four square patches of width
0.1, alternately triangles and quadrilaterals, each one made in the usual way
as  unit mesh -> scaled(0.1) -> translated((x0, 0)), x0 = 0.0, 0.1, 0.2, 0.3.  Neighbouring
patches have three vertices in common.  In floating point the right side of
patch 2 is 0.1 + 0.2 = 0.30000000000000004 and the left side of patch 3 is
0.0 + 0.3 = 0.3, one ulp apart.
"""
import sys
import numpy as np
from skfem import MeshTri, MeshQuad

h = 0.1
classes = [MeshTri, MeshQuad, MeshTri, MeshQuad]
offsets = [0.0, 0.1, 0.2, 0.3]
patches = [cls().refined().scaled((h, h)).translated((x0, 0.))
           for x0, cls in zip(offsets, classes)]

joined = patches[0] @ patches[1] @ patches[2] @ patches[3]
points = joined[0].p
print("x-coordinates on the two sides of the interface 2|3:",
      repr(patches[2].p[0].max()), repr(patches[3].p[0].min()))

fail = False
for k in range(3):
    shared = np.intersect1d(np.unique(joined[k].t), np.unique(joined[k + 1].t))
    print(f"'@': vertices shared by patch {k} and patch {k + 1}: "
          f"{len(shared)} (expected 3)")
    if len(shared) != 3:
        fail = True
print(f"'@': points of the joined strip: {points.shape[1]} "
      f"(expected 4 * 9 - 3 * 3 = 27)")
if points.shape[1] != 27:
    fail = True
# distinct points of the result that are closer than a millionth of a cell
d = np.linalg.norm(points[:, :, None] - points[:, None, :], axis=0)
close = np.argwhere(np.triu(d < 1e-6 * h, k=1))
print(f"'@': pairs of distinct vertices closer than 1e-6 * h: {len(close)} "
      "(expected 0)")
if len(close):
    fail = True

# the sibling: '+' on patches of one type, same coordinates
same = [MeshQuad().refined().scaled((h, h)).translated((x0, 0.))
        for x0 in offsets]
total = same[0] + same[1] + same[2] + same[3]
print(f"'+': vertices of the joined strip of four quad patches: "
      f"{total.nvertices} (expected 27), boundary facets "
      f"{len(total.boundary_facets())} (expected 20)")
if total.nvertices != 27:
    fail = True

if fail:
    print("DEFECT: '@' leaves the patches disconnected along an interface "
          "whose vertices agree only up to round-off")
    sys.exit(1)
print("ok")
