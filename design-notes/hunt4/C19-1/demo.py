"""C19 / finding 1: a composite element used as a COMPONENT of another
wrapper (ElementComposite(ElementComposite(a, b), c) or
ElementVector(ElementComposite(a, b))) silently loses every field of the
inner composite except the first one.

The DOFs of the lost component are still numbered, but all their basis
functions are identically zero, so interpolating the whole vector does not
contain what interpolating the split components gives, and every assembled
matrix has zero rows/columns for those DOFs.
"""
import sys
import logging
import numpy as np
from skfem import (MeshTri, Basis, BilinearForm, ElementComposite,
                   ElementVector, ElementTriP2, ElementTriP1, ElementTriP0)

logging.disable(logging.CRITICAL)
REFUSALS = (NotImplementedError, ValueError, TypeError)
failed = False

m = MeshTri().refined(1)
rng = np.random.default_rng(0)


def fields_of(basis, x):
    out = basis.interpolate(x)
    return list(out) if isinstance(out, tuple) else [out]


def flat_split(basis, x):
    """Interpolate every (recursively) split component separately."""
    out = []
    for xk, bk in basis.split(x):
        if isinstance(bk.elem, ElementComposite):
            out += flat_split(bk, xk)
        else:
            out += fields_of(bk, xk)
    return out


def mass(basis):
    def form(*args):
        n = (len(args) - 1) // 2
        return sum(np.sum((args[k] * args[n + k]).reshape(
            (-1,) + args[k].shape[-2:]), axis=0) for k in range(n))
    return BilinearForm(form).assemble(basis).toarray()


# ---------------------------------------------------------------- case A
print("case A: ElementComposite(ElementComposite(P2, P1), P0)")
try:
    inner = ElementComposite(ElementTriP2(), ElementTriP1())
    nested = ElementComposite(inner, ElementTriP0())
    B = Basis(m, nested, intorder=4)
except REFUSALS as exc:
    print("  refused loudly:", repr(exc), "-> acceptable")
else:
    flat = Basis(m, ElementTriP2() * ElementTriP1() * ElementTriP0(),
                 intorder=4)
    x = rng.random(B.N)
    whole = fields_of(B, x)
    parts = flat_split(B, x)
    print("  N =", B.N, "(the flattened P2*P1*P0 basis has N =", flat.N, ")")
    print("  fields when interpolating the whole vector :", len(whole))
    print("  fields when interpolating the split parts  :", len(parts))
    if len(whole) != len(parts):
        print("  -> the whole interpolation lost a component")
        failed = True
    else:
        for a, b in zip(whole, parts):
            if not np.allclose(a, b):
                failed = True
    M = mass(B)
    rank = np.linalg.matrix_rank(M)
    nzero = int((np.abs(M).sum(axis=1) == 0).sum())
    print("  mass matrix: rank", rank, "of", B.N, "- zero rows:", nzero,
          "(property demands the block matrix of three SPD mass matrices)")
    if rank != B.N:
        failed = True

# ---------------------------------------------------------------- case B
print("case B: ElementVector(ElementComposite(P2, P1))")
try:
    inner = ElementComposite(ElementTriP2(), ElementTriP1())
    B = Basis(m, ElementVector(inner), intorder=4)
except REFUSALS as exc:
    print("  refused loudly:", repr(exc), "-> acceptable")
else:
    x = rng.random(B.N)
    whole = fields_of(B, x)
    # component k of the vector is a P2 x P1 pair
    (x0, b0), (x1, b1) = B.split(x)
    pair0 = fields_of(b0, x0)
    print("  fields of the whole:", len(whole), "with shape", whole[0].shape)
    print("  fields of split component 0:", len(pair0))
    n_whole = sum(int(np.prod(f.shape[:-2])) for f in whole)
    n_parts = sum(len(fields_of(bk, xk)) for xk, bk in B.split(x))
    print("  scalar fields in the whole:", n_whole,
          " scalar fields in the parts:", n_parts)
    if n_whole != n_parts:
        failed = True
    M = mass(B)
    rank = np.linalg.matrix_rank(M)
    print("  mass matrix: rank", rank, "of", B.N)
    if rank != B.N:
        failed = True

if failed:
    print("FAIL: components of a wrapped composite element are silently "
          "dropped")
    sys.exit(1)
print("PASS")
