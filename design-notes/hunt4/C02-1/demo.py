"""C02 (hunt 4) finding 1: uniform refinement silently drops the orientation
of a named, oriented set of interior facets, so a facet integral of
polynomial data (a flux  n . F  with polynomial F) changes under refinement.

Property clause: "functionals of polynomials equal their closed-form integrals
over ... any set of facets ... The result does not depend on ... refining the
mesh."
"""
import sys
import numpy as np
from skfem import (MeshTri, MeshQuad, ElementTriP1, ElementQuad1, FacetBasis,
                   Functional)

# F = (x^2, y):  on the interface {x = 1/2} with unit normal (s, 0):
#   int n.F ds = s * (1/2)^2 * 1 = s / 4
flux = Functional(lambda w: w.n[0] * w.x[0] ** 2 + w.n[1] * w.x[1])

bad = 0
for mesh, elem in [(MeshTri().refined(2), ElementTriP1()),
                   (MeshTri.init_sqsymmetric().refined(1), ElementTriP1()),
                   (MeshQuad().refined(2), ElementQuad1())]:
    for normal in (np.array([1., 0.]), np.array([-1., 0.])):
        exact = normal[0] / 4
        # the documented way to get an oriented interface
        mid = mesh.facets_satisfying(lambda x: np.isclose(x[0], .5),
                                     normal=normal)
        m0 = mesh.with_boundaries({'mid': mid})
        vals = []
        m = m0
        for level in range(3):
            fb = FacetBasis(m, elem, facets='mid', intorder=4)
            vals.append(float(flux.assemble(fb)))
            m = m.refined()
        ok = np.allclose(vals, exact, atol=1e-12)
        bad += not ok
        print("{:9s} normal={:>4.0f}: flux on levels 0,1,2 = {}   exact = {:+.4f}"
              "   tag type before/after refinement: {} / {}   {}".format(
                  type(mesh).__name__, normal[0],
                  ["{:+.4f}".format(v) for v in vals], exact,
                  type(m0.boundaries['mid']).__name__,
                  type(m0.refined().boundaries['mid']).__name__,
                  "ok" if ok else "WRONG"))

if bad:
    print("\nFAIL: {} of 6 oriented interfaces give a different flux after "
          "Mesh.refined()".format(bad))
    sys.exit(1)
print("\nPASS")
