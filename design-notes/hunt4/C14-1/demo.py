"""C14 (hunt 4) finding 1.

MeshLine1.element_finder rejects points of the meshed domain as "outside of
the mesh" when the sorted list of *stored points* is not a partition of one
single interval:

 (a) the domain has a gap (1-D analogue of a non-convex domain / a hole,
     obtained with the public Mesh.remove_elements or Mesh.__add__): the
     right end point of every connected piece except the last one is
     rejected;
 (b) the point array holds a vertex that no cell uses (the 2-D/3-D finders do
     not care): every point of the cell between its left vertex and the
     unused point is rejected, and so is the right end point of the domain if
     the unused point lies to the right of it.

The property demands that for every point of the meshed domain a cell that
contains it is returned, and that probes / interpolator evaluate the discrete
function there.
"""
import sys
import numpy as np
from skfem import MeshLine, CellBasis, ElementLineP1

failures = 0


def probe(basis, y, x, expected):
    global failures
    try:
        got = basis.interpolator(y)(np.array([[x]]))[0]
        ok = abs(got - expected) < 1e-12
        print(f"   x = {x!r:6}: got {got!r}, expected {expected!r}"
              f"{'' if ok else '   <-- WRONG'}")
    except Exception as ex:
        ok = False
        print(f"   x = {x!r:6}: raised {type(ex).__name__}: {ex}"
              f"   (expected the value {expected!r})")
    if not ok:
        failures += 1


# ---------------------------------------------------------------- (a) gap
m = MeshLine(np.array([0., 1., 2., 3., 4., 5., 6.]))
mg = m.remove_elements(np.array([3]))       # domain [0, 3] u [4, 6]
print("(a) mesh with a gap, vertices", mg.p[0], "cells", mg.t.T.tolist())
basis = CellBasis(mg, ElementLineP1())
y = 2. * basis.doflocs[0]                    # u(x) = 2 x, nodal values
for x, u in ((0., 0.), (2.5, 5.), (3., 6.), (4., 8.), (6., 12.)):
    probe(basis, y, x, u)
# the point in the gap must (and does) raise
try:
    mg.element_finder()(np.array([3.5]))
    print("   x = 3.5 in the gap: NO exception")
    failures += 1
except Exception:
    print("   x = 3.5 in the gap: raises (correct)")

# same thing with two meshes joined by the public Mesh.__add__
mj = MeshLine(np.array([0., .5, 1.])) + MeshLine(np.array([2., 2.5, 3.]))
print("(a') joined mesh, vertices", mj.p[0], "cells", mj.t.T.tolist())
basis = CellBasis(mj, ElementLineP1())
y = 2. * basis.doflocs[0]
for x, u in ((1., 2.), (2., 4.), (3., 6.)):
    probe(basis, y, x, u)

# ------------------------------------------------------- (b) unused vertex
# vertex 3 (x = 0.25) is stored but belongs to no cell
mu = MeshLine(np.array([[0., .5, 1., .25]]), np.array([[0, 1], [1, 2]]))
print("(b) unused stored point 0.25; vertices", mu.p[0],
      "cells", mu.t.T.tolist())
basis = CellBasis(mu, ElementLineP1())
y = 2. * basis.doflocs[0]
for x, u in ((.1, .2), (.3, .6), (.75, 1.5)):
    probe(basis, y, x, u)
# unused point to the right of the domain: the right end point is lost
mu = MeshLine(np.array([[0., .5, 1., 7.]]), np.array([[0, 1], [1, 2]]))
print("(b') unused stored point 7.0; vertices", mu.p[0],
      "cells", mu.t.T.tolist())
basis = CellBasis(mu, ElementLineP1())
y = 2. * basis.doflocs[0]
for x, u in ((.75, 1.5), (1., 2.)):
    probe(basis, y, x, u)

print()
if failures:
    print(f"DEFECT: {failures} points of the meshed domain were not "
          "located / evaluated")
    sys.exit(1)
print("OK")
