"""C01 / hunt 4 / finding 3

An extra parameter called ``v`` enters a BilinearForm and a LinearForm (as
w['v'] / w.v) but cannot be passed to a Functional: the positional basis
argument of ``Functional.elemental`` is itself called ``v`` and swallows the
keyword.  So the very check the property describes,

    s = J(u_h, v_h)   with  Functional(lambda w: w['u'] * w['v'])
                            .assemble(basis, u=u, v=v)

raises a TypeError, whereas the same keyword works for the two other form
types.
"""
import sys
import numpy as np
from skfem import (MeshTri, Basis, ElementTriP1, ElementTriP2, BilinearForm,
                   LinearForm, Functional, asm)

m = MeshTri().refined(2)
basis = Basis(m, ElementTriP2())
rng = np.random.default_rng(0)
u = rng.standard_normal(basis.N)
v = rng.standard_normal(basis.N)

A = BilinearForm(lambda u, v, w: u * v).assemble(basis)
ref = v @ A @ u
print("v^T A u                                    =", ref)

# 'v' as an extra parameter of a bilinear and of a linear form: fine
A2 = BilinearForm(lambda u_, v_, w: u_ * v_ * w['v']).assemble(basis, v=v)
b = LinearForm(lambda v_, w: w['u'] * v_ * (1. + 0. * w['v'])
               ).assemble(basis, u=u, v=v)
print("b^T v   (LinearForm with u=..., v=...)     =", b @ v)

fail = False
for label, call in [
    ("Functional.assemble(basis, u=u, v=v)",
     lambda: Functional(lambda w: w['u'] * w['v']).assemble(basis, u=u, v=v)),
    ("Functional.elemental(basis, u=u, v=v).sum()",
     lambda: Functional(lambda w: w['u'] * w['v']).elemental(basis, u=u,
                                                             v=v).sum()),
    ("asm(Functional, basis, u=u, v=v)",
     lambda: asm(Functional(lambda w: w['u'] * w['v']), basis, u=u, v=v)),
]:
    try:
        s = call()
        print("{:45s} = {}".format(label, s))
        if abs(s - ref) > 1e-10 * abs(ref):
            fail = True
    except Exception as e:
        print("{:45s} raised {}: {}".format(label, type(e).__name__, e))
        fail = True

# any other name works
s = Functional(lambda w: w['u'] * w['vv']).assemble(basis, u=u, vv=v)
print("same with the keyword renamed to 'vv'       =", s)

if fail:
    print("FAIL: the extra parameter 'v' does not reach a Functional")
    sys.exit(1)
print("OK")
