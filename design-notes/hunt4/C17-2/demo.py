"""C17 (hunt 4) finding 2.

Mesh.save declares  cell_data: Optional[Dict[str, ndarray]]  ("Data related to
the elements of the mesh"), the exact counterpart of point_data.  Passing what
the signature asks for - one array with a value per cell - raises for every
mesh and every format; only the undocumented form {'name': [array]} (a list
with one array per meshio cell block) is accepted.
"""
import os
import sys
import tempfile
import warnings

import numpy as np

from skfem import Mesh, MeshTri, MeshQuad, MeshTet, MeshHex, MeshTri2

warnings.filterwarnings('ignore')

failures = 0

for m in [MeshTri().refined(2), MeshQuad().refined(2), MeshTet().refined(1),
          MeshHex().refined(1), MeshTri2.init_circle(1),
          MeshTri.init_refdom()]:      # the last one is a single cell
    c = np.arange(m.nelements, dtype=np.float64) + .5   # one value per cell
    u = np.arange(m.p.shape[1], dtype=np.float64)       # one value per point
    for fmt, kwargs in [('.vtk', {}), ('.vtu', {}), ('.msh', {}),
                        ('.msh', {'file_format': 'gmsh22'})]:
        label = '{:9s} ({:3d} cells) {} {}'.format(type(m).__name__,
                                                    m.nelements, fmt, kwargs)
        with tempfile.TemporaryDirectory() as d:
            fname = os.path.join(d, 'mesh' + fmt)
            devnull = open(os.devnull, 'w')
            stdout, sys.stdout = sys.stdout, devnull
            try:
                m.save(fname, point_data={'u': u}, cell_data={'c': c},
                       **kwargs)
                out = ['point_data', 'cell_data']
                Mesh.load(fname, out=out)
                back = np.asarray(out[1]['c']).reshape(-1)
                ok = (back.shape == c.shape and np.array_equal(back, c)
                      and np.array_equal(out[0]['u'], u))
                msg = 'data came back unchanged' if ok else \
                    'data came back as {}'.format(out[1]['c'])
            except Exception as e:
                ok = False
                msg = '{}: {}'.format(type(e).__name__, e)
            finally:
                sys.stdout = stdout
                devnull.close()
        print('{:60s} {}'.format(label, msg))
        failures += not ok

print()
print('expected: point_data={"u": array} and cell_data={"c": array} are both '
      'stored and come back unchanged')
if failures:
    print('{} save/load cycles FAILED'.format(failures))
    sys.exit(1)
print('all cycles passed')
