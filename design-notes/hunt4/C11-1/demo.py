"""Periodic (MeshDG) meshes: the geometric selectors index the stored DG point
array with vertex numbers, so the boundary facets / vertices / cells they
return contradict the connectivity tables of the same mesh."""
import sys
import numpy as np
from skfem.mesh import MeshQuad1DG, MeshTri1DG

bad = 0
L = np.linspace(0, 1, 4)
for cls in (MeshQuad1DG, MeshTri1DG):
    m = cls.init_tensor(L, L, periodic=[0])      # 3 cells per period in x
    # true vertex coordinates, read through the cells (the only way the
    # points of a periodic mesh are addressed: p[:, element_dofs])
    ed = m.dofs.element_dofs
    X = np.full((2, m.nvertices), np.nan)
    for i in range(m.t.shape[0]):
        X[:, m.t[i]] = m.p[:, ed[i]]
    X[0, X[0] == 1.] = 0.                          # x = 1 is identified with x = 0
    bf = m.boundary_facets()
    on_bottom = np.array([f for f in bf if (X[1, m.facets[:, f]] == 0).all()])
    on_top = np.array([f for f in bf if (X[1, m.facets[:, f]] == 1).all()])
    print(cls.__name__, 'boundary facets', bf.tolist(),
          '-> bottom', on_bottom.tolist(), 'top', on_top.tolist())

    got_bottom = m.facets_satisfying(lambda x: x[1] == 0, boundaries_only=True)
    print('  facets_satisfying(y == 0, boundaries_only=True):',
          got_bottom.tolist(), 'expected', on_bottom.tolist())
    bad += sorted(got_bottom.tolist()) != sorted(on_bottom.tolist())

    tags = m.with_defaults().boundaries
    print('  with_defaults():', {k: v.tolist() for k, v in tags.items()},
          "expected {'bottom':", on_bottom.tolist(), ", 'top':",
          on_top.tolist(), '}')
    bad += not ('bottom' in tags and 'top' in tags
                and sorted(tags['bottom'].tolist()) == sorted(on_bottom.tolist())
                and sorted(tags['top'].tolist()) == sorted(on_top.tolist())
                and 'left' not in tags and 'right' not in tags)

    got_nodes = m.nodes_satisfying(lambda x: x[1] == 0, boundaries_only=True)
    exp_nodes = np.intersect1d(np.nonzero(X[1] == 0)[0], m.boundary_nodes())
    print('  nodes_satisfying(y == 0, boundaries_only=True):',
          got_nodes.tolist(), 'expected', exp_nodes.tolist())
    bad += got_nodes.tolist() != exp_nodes.tolist()

    cells = m.elements_satisfying(lambda x: x[1] < 1 / 3)
    exp_cells = np.nonzero(m.p[:, ed].mean(axis=1)[1] < 1 / 3)[0]
    print('  elements_satisfying(y < 1/3):', cells.tolist(),
          'expected', exp_cells.tolist())
    bad += cells.tolist() != exp_cells.tolist()

    h = m.param()
    exp_h = np.sqrt(2) / 3 if cls is MeshTri1DG else 1 / 3
    print('  param():', h, 'expected', exp_h)
    bad += not np.isclose(h, exp_h)

print('violations:', bad)
sys.exit(1 if bad else 0)
