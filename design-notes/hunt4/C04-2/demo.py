"""C04: an assembled matrix may be nonzero at (i, j) only if DOFs i and j occur
together in an integrated cell.

FacetBasis / InteriorFacetBasis with side=1 look the cell of a facet up in
mesh.f2t[1].  For an exterior facet that entry is -1 ("no cell").  The -1 is
used as an index, i.e. as "the last cell of the mesh": the facet integral is
silently written into the DOFs of a cell that does not touch the facet (with
its basis functions extrapolated to the facet).
"""
import sys
import numpy as np
from skfem import (MeshTri, FacetBasis, InteriorFacetBasis, BilinearForm,
                   ElementTriP1)

m = MeshTri().refined(2)
e = ElementTriP1()
mass = BilinearForm(lambda u, v, w: u * v)
last = m.nelements - 1
print('last cell', last, 'has vertices', m.t[:, last],
      'at', m.p[:, m.t[:, last]].T.tolist(), '(touches the boundary:',
      bool(np.isin(m.t2f[:, last], m.boundary_facets()).any()), ')')


def cells_of(facets):
    c = m.f2t[:, facets].flatten()
    return np.unique(c[c >= 0])


def check(title, make_basis, facets):
    print()
    print(title)
    try:
        basis = make_basis()
    except (ValueError, IndexError, NotImplementedError) as ex:
        print('  refused:', type(ex).__name__, ex, ' -> fine')
        return True
    A = mass.assemble(basis).tocoo()
    # pairs (i, j) that occur together in a cell containing an integrated facet
    ed = basis.dofs.element_dofs[:, cells_of(facets)]
    allowed = set((i, j) for k in range(ed.shape[1])
                  for i in ed[:, k] for j in ed[:, k])
    offending = [(i, j) for i, j in zip(A.row, A.col) if (i, j) not in allowed]
    print('  cells used by the basis (tind):', np.unique(basis.tind))
    print('  shape', A.shape, ' nonzeros', A.nnz,
          ' nonzeros outside the cells of the integrated facets:',
          len(offending))
    if offending:
        print('  e.g.', offending[:4], ' all rows:',
              sorted(set(i for i, _ in offending)))
    return len(offending) == 0


ok = True
bf = m.boundary_facets()
ok &= check('FacetBasis(m, e, side=1)   [default facets = boundary facets]',
            lambda: FacetBasis(m, e, side=1), bf)

# all facets of a subdomain that touches the outer boundary, traces from
# "the other side"
sub = m.elements_satisfying(lambda x: x[0] < 0.5)
fs = np.unique(m.t2f[:, sub])
ok &= check('InteriorFacetBasis(m, e, facets=<facets of the left half>, '
            'side=1)',
            lambda: InteriorFacetBasis(m, e, facets=fs, side=1), fs)

print()
print('property: nonzero (i, j) only if i and j occur together in an '
      'integrated cell; a facet without a cell on side 1 has nothing to '
      'integrate (or the call must be refused)')
if not ok:
    print('VIOLATED: the exterior facets were integrated into the last cell '
          'of the mesh (index -1).')
    sys.exit(1)
print('ok')
