"""C01 / hunt 4 / finding 2

FacetBasis / InteriorFacetBasis cannot be built on a quadrilateral,
hexahedral or second-order mesh that lies more than ~1000 cell sizes away
from the origin: the Newton iteration that pulls the facet quadrature points
back to the reference cell stops on an ABSOLUTE tolerance of 1e-12 on the
Newton step, which the round-off of the global coordinates (eps * |x| / h)
exceeds, so it "does not converge" although it has converged to full working
precision.

The property promises, for boundary-facet and interior-facet bases on every
mesh geometry, b^T v = l(v_h) etc.  Here: l(v) = int_{boundary} v ds, v_h = 1,
hence b^T 1 = perimeter = 4 L, whatever the position of the square.
"""
import sys
import numpy as np
from skfem import (MeshQuad, MeshTri, FacetBasis, InteriorFacetBasis,
                   ElementQuad1, ElementTriP1, LinearForm, Functional)

L = 100.                       # a 100 m x 100 m square, 16 x 16 cells ...
origin = np.array([5.0e5, 6.7e6])   # ... in UTM-like coordinates

rng = np.random.default_rng(0)
m0 = MeshQuad().refined(4)
p = m0.p.copy()
I = m0.interior_nodes()
p[:, I] += 0.01 * rng.uniform(-1., 1., size=p[:, I].shape)   # non-affine cells

unit_load = LinearForm(lambda v, w: 1. * v)
jump_free = Functional(lambda w: 1. + 0. * w.x[0])

fail = False
for name, shift in [('at the origin', 0. * origin), ('shifted', origin)]:
    m = MeshQuad(L * p + shift[:, None], m0.t)
    for cls in (FacetBasis, InteriorFacetBasis):
        try:
            fb = cls(m, ElementQuad1())
            b = unit_load.assemble(fb)
            s = jump_free.assemble(fb)
            print("{:14s} {:20s} b^T 1 = {:.10f}, J = {:.10f}".format(
                name, cls.__name__, b @ fb.ones(), s))
        except Exception as e:
            print("{:14s} {:20s} raised {}: {}".format(
                name, cls.__name__, type(e).__name__, e))
            fail = True

# the affine sibling has no difficulty with the same coordinates
mt = MeshTri(L * p + origin[:, None], m0.to_meshtri().t)
fbt = FacetBasis(mt, ElementTriP1())
print("{:14s} {:20s} b^T 1 = {:.10f}   (triangles, affine map)".format(
    'shifted', 'FacetBasis', unit_load.assemble(fbt) @ fbt.ones()))
print("demanded: b^T 1 = J = 4 L = {} on the boundary".format(4 * L))

if fail:
    print("FAIL: facet bases cannot be built away from the origin")
    sys.exit(1)
print("OK")
