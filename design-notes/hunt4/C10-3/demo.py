"""C10 (hunt4) finding 3 (lower value; admissibility of the subset types is
debatable, see notes).

On a straight-sided triangle mesh the affine and the isoparametric mapping are
asked for the same cell subset, given (a) as an index array, (b) as a Python
list, (c) as a Boolean mask.  MappingAffine answers all three identically.
MappingIsoparametric
  * raises ``TypeError: unhashable type: 'list'`` from DF / invDF / detDF /
    invF for (b) although its own F accepts the list,
  * for a mask (c) raises a broadcasting ValueError - or, when exactly one
    cell is selected, SILENTLY returns one row per mesh cell (all copies of the
    selected cell) instead of one row.
"""
import sys
import numpy as np
from skfem import MeshTri1

base = MeshTri1().refined(2)
ma = MeshTri1(base.p, base.t, affine=True).mapping()
mi = MeshTri1(base.p, base.t, affine=False).mapping()
nt = base.t.shape[1]
X = np.array([[.2, .3], [.1, .5]])
one = np.zeros(nt, dtype=bool); one[3] = True
two = one.copy(); two[7] = True
subsets = {
    'index array [3, 7]': np.array([3, 7]),
    'list [3, 7]': [3, 7],
    'mask {3, 7}': two,
    'mask {3}': one,
}
bad = False
for label, tind in subsets.items():
    for meth in ['F', 'DF', 'detDF']:
        ra = getattr(ma, meth)(X, tind)
        try:
            ri = getattr(mi, meth)(X, tind)
            same = ra.shape == ri.shape and np.allclose(ra, ri)
            msg = f"shape {ri.shape}" + ("" if same else "  <-- differs")
        except Exception as exc:
            same = False
            msg = f"raises {type(exc).__name__}: {str(exc)[:60]}"
        print(f"{label:20s} {meth:6s} affine shape {str(ra.shape):14s} "
              f"isoparametric {msg}")
        bad |= not same
sys.exit(1 if bad else 0)
