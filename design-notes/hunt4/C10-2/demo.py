"""C10 (hunt4) finding 2.

The periodic ("DG topology") triangle and quadrilateral meshes MeshTri1DG and
MeshQuad1DG have no facet map at all: ``mesh.bndelem`` is ``None`` because
ElementTriP1DG / ElementQuad1DG are missing from BOUNDARY_ELEMENT_MAP (their
sibling ElementHex1DG is listed), so ``mapping.G``, ``mapping.detDG``,
``FacetBasis`` and ``InteriorFacetBasis`` all die with
``AttributeError: 'NoneType' object has no attribute 'lbasis'``.
"""
import sys
import numpy as np
from skfem import (MeshTri1DG, MeshQuad1DG, FacetBasis, InteriorFacetBasis,
                   CellBasis, Functional)

g = np.linspace(0, 1, 4)
bad = False
for cls in [MeshTri1DG, MeshQuad1DG]:
    # unit square, periodic in x: the boundary is bottom + top, length 2
    m = cls.init_tensor(g, g, periodic=[0])
    e = m.elem()
    area = Functional(lambda w: 1. + 0. * w.x[0]).assemble(CellBasis(m, e))
    print(f"{cls.__name__}: cell map works, area = {area:.12f}")
    print(f"  mesh.bndelem = {m.bndelem!r}")
    X = np.array([[.25, .75]])
    try:
        x = m.mapping().G(X, find=m.boundary_facets())
        print("  mapping.G ->", x.shape)
    except Exception as exc:
        print(f"  mapping.G raises {type(exc).__name__}: {exc}")
        bad = True
    for B in [FacetBasis, InteriorFacetBasis]:
        try:
            fb = B(m, e)
            length = fb.dx.sum()
            nrm = np.sqrt((fb.normals.value ** 2).sum(0))
            print(f"  {B.__name__}: total facet measure {length:.12f}, "
                  f"|n| in [{nrm.min():.3f}, {nrm.max():.3f}]")
            if B is FacetBasis and not np.isclose(length, 2.):
                print("    property: boundary (bottom + top) has length 2")
                bad = True
            if not np.allclose(nrm, 1.):
                bad = True
        except Exception as exc:
            print(f"  {B.__name__} raises {type(exc).__name__}: {exc}")
            print("    property: every mesh class has a facet map whose "
                  "surface factor is the facet measure and unit normals")
            bad = True

sys.exit(1 if bad else 0)
