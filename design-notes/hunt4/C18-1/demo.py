"""C18 demo: a Boolean cell mask given to Mesh.remove_elements / Mesh.restrict.

restrict(mask) on a mesh without named subdomains treats the mask as a mask
(NumPy indexing) and returns the masked cells.  The sibling remove_elements
and the subdomain branch of restrict push the same array through integer set
arithmetic and silently misread it as the cell numbers {0, 1}.
"""
import sys
import numpy as np
from skfem import MeshTri, MeshQuad, MeshTet

fail = False

for m in [MeshTri().refined(2), MeshQuad().refined(2), MeshTet().refined(1)]:
    name = type(m).__name__
    mid = m.p[:, m.t].mean(axis=1)
    mask = mid[0] < 0.5                       # the left half of the unit cube
    left = np.nonzero(mask)[0]
    print(f"{name}: {m.nelements} cells, mask selects {mask.sum()}")

    # reference: the same request made with an index array
    ref = m.remove_elements(left)
    out = m.remove_elements(mask)
    xmid = out.p[0, out.t].mean(axis=0)
    print(f"  remove_elements(index array): {ref.nelements} cells left")
    print(f"  remove_elements(mask)       : {out.nelements} cells left, "
          f"{(xmid < 0.5).sum()} of them still in x < 1/2")
    print(f"  property demands            : {m.nelements - mask.sum()} cells "
          "left, none of them in x < 1/2")
    if out.nelements != ref.nelements or (xmid < 0.5).any():
        fail = True

    # restrict: without subdomains the mask is honoured ...
    r0 = m.restrict(mask)
    print(f"  restrict(mask), no subdomains: {r0.nelements} cells "
          f"(expected {mask.sum()})")
    if r0.nelements != mask.sum():
        fail = True
    # ... with a named subdomain the same call breaks down
    ms = m.with_subdomains({'low': lambda x: x[1] < 0.5})
    expected = np.intersect1d(ms.subdomains['low'], left)
    try:
        r1 = ms.restrict(mask)
        got = r1.subdomains['low']
        print(f"  restrict(mask), with subdomain: {r1.nelements} cells, "
              f"'low' has {len(got)} cells (expected {len(expected)})")
        if r1.nelements != mask.sum() or len(got) != len(expected):
            fail = True
    except Exception as e:
        print(f"  restrict(mask), with subdomain: raises {e!r:.90}")
        fail = True

if fail:
    print("DEFECT: a Boolean cell mask is misread by remove_elements / "
          "restrict")
    sys.exit(1)
print("ok")
