"""MeshTet1.refined(empty marked set) loses the named boundaries.

In an adaptive loop the marker may select nothing (converged, all indicators
zero).  Mesh.refined(marked) with an empty set returns the same cells and
points; before commit 1f9121c the (still valid) named boundaries were kept,
now they are dropped and the next get_dofs('left') raises.
"""
import sys
import logging
import numpy as np
from skfem import MeshTet, Basis, ElementTetP1

logging.disable(logging.CRITICAL)

m = MeshTet().refined(1).with_defaults()
eta = np.zeros(m.nelements)
marked = np.nonzero(eta > 0.5 * eta.max())[0]        # nothing to refine
print("marked cells:", marked.tolist())
r = m.refined(marked)
print("same points:", np.array_equal(r.p, m.p),
      " same cells:", np.array_equal(r.t, m.t))
print("named boundaries before:", sorted(m.boundaries))
print("named boundaries after :",
      None if r.boundaries is None else sorted(r.boundaries))
try:
    n = len(Basis(r, ElementTetP1()).get_dofs('left').flatten())
    print("get_dofs('left') on the returned mesh:", n, "DOFs")
    ok = (n == len(Basis(m, ElementTetP1()).get_dofs('left').flatten()))
except Exception as e:
    print("get_dofs('left') on the returned mesh raised %s: %s"
          % (type(e).__name__, e))
    ok = False
print("OK" if ok else
      "FAIL: nothing was refined but the named boundaries are gone")
sys.exit(0 if ok else 1)
