"""penalize: the fallback scale for a zero constrained diagonal fails for DIA.

Commit 4a0a687 takes abs(A).max() as the scale of the default penalty when
the constrained rows have no diagonal entry.  DIA matrices - one of the
formats penalize accepts and returns unchanged, cf. commit a6f5dc6 - have no
.max(): the input the commit set out to repair now raises AttributeError
instead of being penalised.
"""
import sys
import warnings

import numpy as np
import scipy.sparse as sp

from skfem.utils import penalize, solve

warnings.simplefilter('ignore')
failures = 0

# saddle-point-like system: no diagonal entry in the constrained row 0
dense = np.array([[0., 2., 0.],
                  [2., 3., 1.],
                  [0., 1., 4.]])
b = np.array([1., 2., 3.])
x = np.array([5., 0., 0.])
D = np.array([0])

expected = np.zeros(3)
expected[0] = 5.
expected[1:] = np.linalg.solve(dense[1:, 1:], b[1:] - dense[1:, 0] * 5.)
print("expected solution:", expected)

for fmt in ('csr', 'csc', 'lil', 'dok', 'coo', 'dia'):
    A = sp.csr_matrix(dense).asformat(fmt)
    try:
        y = solve(*penalize(A, b, x=x, D=D))
        ok = np.allclose(y, expected, atol=1e-6)
        print(f"{fmt}: {y} ->", "ok" if ok else "WRONG")
    except Exception as e:
        ok = False
        print(f"{fmt}: raised {e!r}")
    failures += not ok

# DIA works as long as the constrained diagonal is non-zero
A = sp.csr_matrix(dense + np.eye(3)).asformat('dia')
print("dia, non-zero diagonal:", solve(*penalize(A, b, x=x, D=D)))

print("failures:", failures)
sys.exit(1 if failures else 0)
