"""Element.condensed(): the *outer* part of a vector element keeps components
that still own the interior DOFs.

Commit 9f388e1 made the components of the *interior* part of a condensed
composite / vector element the interior parts of the components, so that
Basis(m, ei).split(x) pairs each component vector with a basis of matching
size.  The outer part eo of an ElementVector was left as it was: eo.elem is
still the complete scalar element (with its interior DOFs), so
Basis(m, eo).split(x) hands out (x_k, basis_k) with len(x_k) != basis_k.N.
"""
import sys
import logging
import numpy as np
from skfem import (MeshTri, MeshTet, Basis, ElementVector, ElementTriMini,
                   ElementTriCCR, ElementTetMini)

logging.disable(logging.CRITICAL)
failed = False

for mesh, elem in [(MeshTri().refined(1), ElementVector(ElementTriMini())),
                   (MeshTri().refined(1), ElementVector(ElementTriCCR())),
                   (MeshTet().refined(1), ElementVector(ElementTetMini()))]:
    ei, eo = elem.condensed()
    for label, part in (('interior part ei', ei), ('outer part eo', eo)):
        basis = Basis(mesh, part)
        x = np.random.RandomState(0).rand(basis.N)
        whole = np.asarray(basis.interpolate(x))      # (dim, ncells, nqp)
        for k, (xk, bk) in enumerate(basis.split(x)):
            line = ("{} ElementVector({}), {}, component {}: "
                    "len(x_k) = {}, basis_k.N = {}".format(
                        type(mesh).__name__, type(elem.elem).__name__,
                        label, k, len(xk), bk.N))
            if len(xk) != bk.N:
                print(line, "-> MISMATCH (basis_k.interpolate(x_k) raises)")
                failed = True
                continue
            err = np.abs(np.asarray(bk.interpolate(xk)) - whole[k]).max()
            print(line, "-> component reproduced, error {:.1e}".format(err))
            failed |= err > 1e-12

print("expected: every pair returned by split() fits together and reproduces "
      "the corresponding component of the field")
sys.exit(1 if failed else 0)
