"""Name filters on ElementDG(composite) still return DOFs of the wrong component.

Commit 7625f8d made ElementComposite list its DOF names as nodal, facet, edge,
interior "in the order all readers use" so that a name filter such as
get_dofs().all(['u^1']) picks the DOFs of the first component for components
having both edge and facet DOFs (ElementHex2 * ElementHexS2).  ElementDG has
its own copy of that bookkeeping: it reads the names in that order, but also
WRITES its (all interior) names as nodal, facet, edge, interior although its
basis functions - the ones of the wrapped element - run nodal, edge, facet,
interior.  For the very elements of the commit message wrapped in ElementDG the
filter therefore still returns DOFs of the other component.
"""
import sys
import logging
import numpy as np
from skfem import (MeshTet, MeshHex, Basis, ElementDG, ElementTetP2,
                   ElementTetRT1, ElementHex2, ElementHexS2)

logging.disable(logging.CRITICAL)
failed = False

for mesh, comp_elem in [
        (MeshHex().refined(1), ElementHex2() * ElementHexS2()),
        (MeshTet().refined(1), ElementTetP2() * ElementTetRT1()),
]:
    elem = ElementDG(comp_elem)
    basis = Basis(mesh, elem, intorder=2)
    allcells = np.arange(mesh.nelements)

    for k in range(len(comp_elem.elems)):
        names = sorted({n for n in comp_elem.dofnames
                        if n.endswith('^{}'.format(k + 1))})

        # expected: the DOFs whose basis function lives in component k,
        # read off the basis functions themselves
        active = np.array([np.abs(np.asarray(basis.basis[i][k])).max() > 0
                           for i in range(basis.Nbfun)])
        expected = np.unique(basis.element_dofs[active])

        got = np.sort(basis.get_dofs(elements=allcells).all(names))

        # second check: a vector that is one on the filtered DOFs must be
        # zero in every other component
        x = basis.zeros()
        x[got] = 1.
        leak = max(np.abs(np.asarray(c)).max()
                   for j, c in enumerate(basis.interpolate(x)) if j != k)

        ok = np.array_equal(got, expected)
        print("{:8s} ElementDG({} * {}), names {}: {} DOFs returned, "
              "{} of them belong to component {}, leak into the other "
              "component {:.3g} -> {}".format(
                  type(mesh).__name__,
                  type(comp_elem.elems[0]).__name__,
                  type(comp_elem.elems[1]).__name__,
                  names, len(got),
                  len(np.intersect1d(got, expected)), k + 1, leak,
                  'ok' if ok else 'WRONG'))
        failed |= not ok

    # the same filter without the DG wrapper is right (that is what 7625f8d
    # repaired)
    cbasis = Basis(mesh, comp_elem, intorder=2)
    cgot = cbasis.get_dofs(elements=allcells).all(
        [n for n in comp_elem.dofnames if n.endswith('^1')])
    print("         without ElementDG: filter == split_indices()[0]:",
          np.array_equal(np.sort(cgot), np.sort(cbasis.split_indices()[0])))

print("expected: every filter returns exactly the DOFs of its component")
sys.exit(1 if failed else 0)
