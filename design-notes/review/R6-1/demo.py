"""condense / mpc with a dense system matrix (ndarray): worked before
f52ad38, now AttributeError: 'numpy.ndarray' object has no attribute 'format'.
"""
import sys
import numpy as np
import skfem as fem
from skfem.models.poisson import laplace, unit_load, mass

m = fem.MeshTri().refined(2)
basis = fem.CellBasis(m, fem.ElementTriP1())
A = laplace.assemble(basis)
M = mass.assemble(basis)
b = unit_load.assemble(basis)
D = m.boundary_nodes()

AII, bI, x, I = fem.condense(A, b, D=D)          # sparse reference
fail = False

# 1. dense system matrix, e.g. for a dense eigenvalue solver
try:
    AIId, bId, xd, Id = fem.condense(A.toarray(), b, D=D)
    err = abs(AIId - AII.toarray()).max() + abs(bId - bI).max()
    print("condense(dense A, b): difference to the sparse result", err,
          "(expected 0)")
    fail |= err > 1e-14
except Exception as e:
    print("condense(dense A, b) raises", type(e).__name__, e,
          " (expected: the condensed dense system)")
    fail = True

# 2. generalized eigenvalue problem with dense matrices
try:
    Ad, Md, _, _ = fem.condense(A.toarray(), M, D=D)
    print("condense(dense A, sparse M):", type(Ad).__name__, Ad.shape)
except Exception as e:
    print("condense(dense A, sparse M) raises", type(e).__name__, e)
    fail = True

# 3. mpc with a dense matrix
try:
    B, y, *_ = fem.mpc(A.toarray(), b, S=D)
    Bs, ys, *_ = fem.mpc(A, b, S=D)
    err = abs(B - Bs).max() + abs(y - ys).max()
    print("mpc(dense A, b): difference to the sparse result", err,
          "(expected 0)")
    fail |= err > 1e-14
except Exception as e:
    print("mpc(dense A, b) raises", type(e).__name__, e,
          " (expected: the constrained system)")
    fail = True

sys.exit(1 if fail else 0)
