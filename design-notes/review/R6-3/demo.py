"""A composite element wrapped in ElementDG is still taken as a one-field
component by ElementComposite (and Element.__mul__): its fields after the first
are dropped and their basis functions are identically zero.
"""
import sys
import numpy as np
import skfem as fem
from skfem import BilinearForm

m = fem.MeshTri().refined(1)
P2, P1, P0 = fem.ElementTriP2(), fem.ElementTriP1(), fem.ElementTriP0()


def mass_rank(elem):
    basis = fem.CellBasis(m, elem)
    nf = len(basis.basis[0])          # number of fields of the element

    @BilinearForm
    def mass(*args):
        return sum(args[i] * args[nf + i] for i in range(nf))

    M = mass.assemble(basis).toarray()
    return nf, int(np.linalg.matrix_rank(M)), M.shape[0]


dg = fem.ElementDG(fem.ElementComposite(P2, P1))     # fine on its own
print("ElementDG(P2 * P1):            fields, rank, N =", mass_rank(dg),
      "(2 fields, full rank)")

fail = False
for name, elem in [
        ("ElementComposite(ElementDG(P2 * P1), P0)",
         fem.ElementComposite(dg, P0)),
        ("ElementDG(P2 * P1) * P0", dg * P0)]:
    nf, rank, N = mass_rank(elem)
    print("{}: fields = {} (expected 3), rank of the mass matrix = {} of {}"
          .format(name, nf, rank, N))
    fail |= (nf != 3) or (rank != N)

try:
    fem.CellBasis(m, fem.ElementVector(dg))
    print("ElementVector(ElementDG(P2 * P1)) built (expected: refused like "
          "ElementVector(P2 * P1))")
except NotImplementedError as e:
    print("ElementVector(ElementDG(composite)) refused:", e)
except Exception as e:
    print("ElementVector(ElementDG(P2 * P1)): CellBasis raises",
          type(e).__name__, e, "(no clean refusal)")
    fail = True

sys.exit(1 if fail else 0)
