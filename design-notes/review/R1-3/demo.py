"""Extrusion MeshTri1 * MeshLine1 with an unused point in the line mesh.

The line mesh consists of the single cell [0, 1]; its point array has one more
(unused, trailing) column - the state that commit 839b29c calls supported and
repaired for the triangle operand.  The extruded prism mesh must be the unit
cube: volume 1, all points with 0 <= z <= 1 that are used by a prism.
"""
import sys
import numpy as np
from skfem import MeshTri, Basis, Functional
from skfem.mesh import MeshLine1
from skfem.element import ElementWedge1

line = MeshLine1(np.array([[0., 1., 5.]]),        # third point is unused
                 np.array([[0], [1]]))
clean = line.remove_unused_nodes()                  # the same mesh, cleaned

tri = MeshTri().refined(1)


def volume(m):
    return Functional(lambda w: 1. + 0. * w.x[0]).assemble(
        Basis(m, ElementWedge1()))


w_clean = tri * clean
w = tri * line
print("cells of the line mesh:", line.t.T.tolist(), "points:", line.p.tolist())
print("extrusion along the cleaned line mesh: %d prisms, volume %.6f, z-range"
      % (w_clean.nelements, volume(w_clean)),
      [float(w_clean.p[2, w_clean.t].min()), float(w_clean.p[2, w_clean.t].max())])
print("extrusion along the line mesh itself : %d prisms, volume %.6f, z-range"
      % (w.nelements, volume(w)), [float(w.p[2, w.t].min()), float(w.p[2, w.t].max())])
print("expected: %d prisms, volume 1, z-range [0, 1]" % tri.nelements)

ok = (w.nelements == tri.nelements and abs(volume(w) - 1.) < 1e-12
      and w.p[2, w.t].max() == 1.)
print("OK" if ok else
      "FAIL: the unused point of the line mesh became a layer of prisms")
sys.exit(0 if ok else 1)
