"""Mesh.__add__ merges distinct vertices of a graded mesh.

A quadrant mesh graded geometrically towards the origin (smallest cell 1e-7,
extent 100 - the usual mesh for a corner/crack-tip singularity) is joined with
its mirror image, exactly as in the docstring example of Mesh.mirrored.

All coordinates differ by more than 7e-8, so the 8-decimal rounding used by the
original implementation keeps them apart.  The current implementation measures
the merge tolerance against the extent of the joined point set (1e-8 * 200),
which is larger than the cells near the origin: distinct vertices are merged
and the joined mesh contains degenerate (zero area) cells.
"""
import sys
import numpy as np
from skfem import MeshQuad

x = np.concatenate(([0.], np.geomspace(1e-7, 100., 37)))
m1 = MeshQuad.init_tensor(x, x)
m2 = m1.mirrored((1., 0.))
m = m1 + m2

n = len(x)
expected_vertices = (2 * n - 1) * n
print("smallest cell size           :", np.diff(x).min())
print("extent of the joined mesh    :", np.ptp(m.p, axis=1))
print("vertices: got", m.p.shape[1], "expected", expected_vertices)

# areas of the cells of the joined mesh (shoelace formula)
X, Y = m.p[0, m.t], m.p[1, m.t]
area = .5 * np.abs(np.sum(X * np.roll(Y, -1, axis=0)
                          - np.roll(X, -1, axis=0) * Y, axis=0))
ndegenerate = int(np.sum(area < 1e-20))
print("cells with zero area: got", ndegenerate, "expected 0")
print("total area: got", area.sum(), "expected", 2 * 100. ** 2)

ok = (m.p.shape[1] == expected_vertices) and ndegenerate == 0
print("OK" if ok else "FAIL: distinct vertices were merged by Mesh.__add__")
sys.exit(0 if ok else 1)
