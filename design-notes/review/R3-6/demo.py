"""from_meshio drops a cell set whose name is exactly 'gmsh'.

Commit afc3283 filters the subdomain sets with k.split(":")[0] != "gmsh" to
skip meshio's bookkeeping set 'gmsh:bounding_entities'.  The test also matches
the plain name 'gmsh' (no namespace separator at all), so a physical group /
element set of that name, which was loaded before, now disappears silently.
"""
import sys

import meshio
import numpy as np

from skfem import MeshTri
from skfem.io.meshio import from_meshio

m = MeshTri().refined(1)
mio = meshio.Mesh(
    m.p.T,
    [('triangle', m.t.T)],
    cell_sets={
        'gmsh': [np.arange(0, 4)],                   # a user's set
        'solid': [np.arange(4, 8)],                  # another user's set
        'gmsh:bounding_entities': [np.arange(2)],    # meshio bookkeeping
    },
)
loaded = from_meshio(mio)
names = set() if loaded.subdomains is None else set(loaded.subdomains)
print("subdomains read:", sorted(names))
print("expected       : the user's sets 'gmsh' and 'solid' "
      "(and not 'gmsh:bounding_entities')")
# the exit status looks at the user's set only, so that the parent of the
# commit - which still lists the bookkeeping set - exits 0
ok = {'gmsh', 'solid'} <= names
print("->", "ok" if ok else "the set named 'gmsh' was dropped")
sys.exit(0 if ok else 1)
