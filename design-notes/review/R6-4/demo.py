"""A tag that holds an empty list (no facets / cells selected) gave an empty
set of DOFs before 9789638; now the lookup returns a float64 array and every
consumer raises IndexError.
"""
import sys
import numpy as np
import skfem as fem

m = fem.MeshTri().refined(2)
# e.g. tags built by a loop / list comprehension that happens to select nothing
inlet = [f for f in m.boundary_facets()
         if m.p[0, m.facets[:, f]].mean() < -1.]          # -> []
mesh = m.with_boundaries({'inlet': inlet}).with_subdomains({'hole': []})
basis = fem.CellBasis(mesh, fem.ElementTriP1())

fail = False
for what, f in [
        ("get_dofs('inlet')", lambda: basis.get_dofs('inlet').all()),
        ("get_dofs(elements='hole')",
         lambda: basis.get_dofs(elements='hole').all()),
        ("remove_elements('hole').nelements",
         lambda: mesh.remove_elements('hole').nelements)]:
    try:
        out = f()
        print(what, "->", out)
    except Exception as e:
        print(what, "raises", type(e).__name__, e,
              " (expected: the result for an empty set)")
        fail = True

sys.exit(1 if fail else 0)
