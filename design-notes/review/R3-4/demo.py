"""penalize still stores x / epsilon in an integer vector when b is omitted
and overwrite=True.

Commit ca13b89 allocates the penalised right-hand side in a floating type
"for integer prescribed values and an integer or omitted b" - but only on the
overwrite=False branch.  With overwrite=True (asked for to avoid the copy of
the matrix) and *no b given*, the vector is the np.zeros_like(x) that
_init_bc allocates itself: an integer array for integer x.  For a stiffness
matrix of realistic magnitude 3 / epsilon exceeds the int64 range and the
stored value wraps around: the "solution" is silently garbage.
"""
import sys
import warnings

import numpy as np

from skfem import MeshLine, Basis, ElementLineP1, condense, solve
from skfem.models.poisson import laplace
from skfem.utils import penalize

warnings.simplefilter('ignore')

basis = Basis(MeshLine().refined(2), ElementLineP1())
A = (210e9 * laplace.assemble(basis)).tocsr()   # e.g. a steel bar, E = 210 GPa
D = basis.get_dofs().flatten()

x = np.zeros(basis.N, dtype=np.int64)            # prescribed values: integers
x[D[-1]] = 3                                     # u(1) = 3, u(0) = 0

expected = solve(*condense(A, x=x, D=D))
print("expected (condense)        :", expected)

failures = 0
for overwrite in (False, True):
    Aout, bout = penalize(A.copy(), x=x, D=D, overwrite=overwrite)
    u = solve(Aout, bout)
    ok = np.allclose(u, expected, atol=1e-6)
    print(f"penalize, overwrite={overwrite!s:5}: rhs dtype {bout.dtype}, "
          f"rhs[D] = {bout[D]}, u = {u} ->", "ok" if ok else "WRONG")
    failures += not ok

print("failures:", failures)
sys.exit(1 if failures else 0)
