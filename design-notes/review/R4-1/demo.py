"""Outer part of a condensed COMPOSITE element still wraps the whole scalar
element inside its vector component (commit 65d2617 repaired only the case
where the ElementVector is the outermost element)."""
import sys
import numpy as np
from skfem import MeshTri, Basis
from skfem.element import ElementVector, ElementTriMini, ElementTriP1

m = MeshTri().refined(2)
rng = np.random.default_rng(0)
fail = False

# (1) the case repaired by the commit: a bare vector element
e = ElementVector(ElementTriMini())
ei, eo = e.condensed()
bo = Basis(m, eo)
x = rng.standard_normal(bo.N)
for k, (xk, bk) in enumerate(bo.split(x)):
    print("bare vector element, component", k, ": coefficients", xk.shape[0],
          "component basis N =", bk.N)
    if xk.shape[0] != bk.N:
        fail = True

# (2) the MINI element for Stokes: the vector element is a component of a
# composite element
e = ElementVector(ElementTriMini()) * ElementTriP1()
ei, eo = e.condensed()
bo = Basis(m, eo)
x = rng.standard_normal(bo.N)
(u, ub), (p, pb) = bo.split(x)
print("MINI outer part: N =", bo.N, " velocity part N =", ub.N,
      " pressure part N =", pb.N)
print("  velocity element", type(ub.elem).__name__, "interior_dofs =",
      ub.elem.interior_dofs, "; wrapped", type(ub.elem.elem).__name__,
      "interior_dofs =", ub.elem.elem.interior_dofs, "(expected 0)")
full = bo.interpolate(x)[0].value
for k, (uk, ukb) in enumerate(ub.split(u)):
    print("  velocity component", k, ": coefficients", uk.shape[0],
          "component basis N =", ukb.N, "(expected", uk.shape[0], ")")
    if uk.shape[0] != ukb.N:
        fail = True
        continue
    err = np.abs(ukb.interpolate(uk).value - full[k]).max()
    print("    interpolation difference", err)
    if err > 1e-12:
        fail = True

if fail:
    print("FAIL: the components of the outer part carry the whole scalar "
          "element")
    sys.exit(1)
print("OK")
