"""Uniform refinement of a MeshLine1 whose named subdomain is a list.

with_subdomains() stores an index set as it is given; a plain list of cell
numbers works everywhere else (Basis(elements='left'), restrict('left'),
adaptive refinement of MeshLine1, uniform/adaptive refinement of MeshTri1,
MeshQuad1, MeshTet1, MeshHex1 - all of which only *index* with the set).
After uniform refinement 'left' = [0, 1/2] must still be [0, 1/2].
"""
import sys
import numpy as np
from skfem import MeshLine, MeshTri, MeshQuad, MeshTet, MeshHex


def covered(m, name):
    """Union of the cells of a named subdomain as (min x, max x, length)."""
    ix = np.asarray(m.subdomains[name])
    x = m.p[0, m.t[:, ix]]
    return float(x.min()), float(x.max()), float(np.abs(np.diff(x, axis=0)).sum())


# the other classes accept the list
for cls in (MeshTri, MeshQuad, MeshTet, MeshHex):
    m = cls().refined(1).with_subdomains({'some': [0, 1]})
    r = m.refined()
    print("%-9s refined() with a list-valued subdomain: %d cells named 'some'"
          % (type(m).__name__, len(r.subdomains['some'])))

m = MeshLine(np.linspace(0., 1., 5)).with_subdomains({'left': [0, 1]})
print("MeshLine1 before refinement: 'left' covers", covered(m, 'left'))
print("MeshLine1 adaptive refinement:",
      covered(m.refined(np.array([1])), 'left'))
try:
    r = m.refined()
except Exception as e:
    print("MeshLine1 uniform refinement: raised %s: %s" % (type(e).__name__, e))
    print("FAIL: expected 'left' to cover (0.0, 0.5, 0.5)")
    sys.exit(1)
got = covered(r, 'left')
print("MeshLine1 uniform refinement: 'left' covers", got,
      "expected (0.0, 0.5, 0.5)")
ok = np.allclose(got, (0., .5, .5))
print("OK" if ok else "FAIL")
sys.exit(0 if ok else 1)
