"""solve(*condense(K, M, D=...)) now hands out complex eigenvectors.

The default eigensolver of solve() is scipy's eigs, which returns complex
arrays also when the pencil is symmetric and every imaginary part is zero.
solve_eigen used to expand the modes into a copy of the real vector x of
condense(); it now widens that buffer to complex128, and the natural next
steps of user code - plotting a mode, saving it with the mesh - raise.
"""
import os
import sys
import tempfile
import warnings

import matplotlib
matplotlib.use('Agg')
import numpy as np

from skfem import MeshTri, Basis, ElementTriP1, condense, solve
from skfem.models.poisson import laplace, mass
from skfem.visuals.matplotlib import plot

warnings.simplefilter('ignore')
failures = 0

mesh = MeshTri().refined(3)
basis = Basis(mesh, ElementTriP1())
K = laplace.assemble(basis)
M = mass.assemble(basis)

L, x = solve(*condense(K, M, D=basis.get_dofs()))  # the default solver
print("eigenvalues:", np.round(np.sort(L.real), 4),
      " (2 pi^2 = %.4f)" % (2 * np.pi ** 2))
print("largest imaginary part of the modes:", np.abs(np.imag(x)).max())
print("dtype of the expanded modes:", x.dtype, " expected: float64")
if np.iscomplexobj(x):
    failures += 1

for label, action in [
        ("plot(basis, x[:, 0])", lambda: plot(basis, x[:, 0])),
        ("basis.plot(x[:, 0])", lambda: basis.plot(x[:, 0])),
        ("mesh.save(..., point_data={'mode': x[:, 0]})",
         lambda: mesh.save(os.path.join(tempfile.mkdtemp(), 'mode.vtk'),
                           point_data={'mode': x[:, 0]})),
]:
    try:
        action()
        print(label, "-> ok")
    except Exception as e:
        failures += 1
        print(label, "-> raised", repr(e))

print("failures:", failures)
sys.exit(1 if failures else 0)
