"""MeshLine1.refined(boolean mask) silently refines cells 0 and 1.

A boolean mask over the cells (e.g. ``eta > tol``) is a natural way to mark
cells; MeshTri1.refined accepts it and refines the marked cells.  For MeshLine1
a mask used to raise (IndexError / ValueError).  Since commit e9c92c8 the
marked set is cast with ``np.asarray(marked, dtype=np.int64)``: the mask
becomes the *indices* 0 and 1 and other cells than the marked one are split -
without any error.

Accepted outcomes: the marked cell [0.5, 0.75] is split, or an exception.
"""
import sys
import numpy as np
from skfem import MeshLine, MeshTri

mt = MeshTri().refined(1)
mask_t = np.zeros(mt.nelements, dtype=bool)
mask_t[5] = True
same = np.array_equal(mt.refined(mask_t).t, mt.refined(np.array([5])).t)
print("MeshTri1: refined(mask) equals refined(indices):", same)

m = MeshLine(np.linspace(0., 1., 5))
eta = np.array([0., 0., 1., 0.])       # error indicator: only cell 2 is bad
mask = eta > .5
print("MeshLine1: cells", m.p[0, m.t].T.tolist(), "mask", mask.tolist())
try:
    r = m.refined(mask)
except Exception as e:
    print("MeshLine1: refined(mask) raised %s (acceptable)" % type(e).__name__)
    sys.exit(0)

got = np.sort(r.p[0])
expected = np.sort(m.refined(np.nonzero(mask)[0]).p[0])
print("MeshLine1: points after refined(mask):", got.tolist())
print("MeshLine1: expected                  :", expected.tolist())
ok = len(got) == len(expected) and np.allclose(got, expected)
print("OK" if ok else
      "FAIL: the mask was read as the cell indices 0 and 1 (silently)")
sys.exit(0 if ok else 1)
