import numpy as np
from skfem import *
m = MeshLine(np.concatenate([[0.], np.geomspace(1e-16, 1., 33)]))
print('A', m.normalize_nodes((0.,)), Basis(m, ElementLineP1()).get_dofs(nodes=(0.,)).flatten(), m.normalize_nodes((1.,)))
m = MeshLine(np.concatenate([[0.], np.geomspace(1e-9, 1e8, 35)]))
print('B', m.normalize_nodes((0.,)))
y = np.concatenate([[0.], np.geomspace(1e-10, 1., 21)]); x = np.linspace(0., 1e7, 11)
m = MeshQuad.init_tensor(x, y)
print('C', m.normalize_nodes((0., 0.)), m.normalize_nodes((1e7, 0.)), m.p[:, m.normalize_nodes((1e7, 0.))].T)
m = MeshLine(1e6 + 1e-9 * np.arange(11))
print('D', m.normalize_nodes((float(m.p[0, 5]),)))
# the example of the previous repair
m = MeshLine(np.concatenate([np.geomspace(1e-12, .1, 45), .1 + .1 * np.arange(1, 10)]))
print('E', m.normalize_nodes((0.3,)), m.p[0, m.normalize_nodes((0.3,))], m.normalize_nodes((.1 + .1 * 2,)))
m = MeshTri().refined(3).translated((1e6, 1e6))
print('F', m.normalize_nodes((1e6 + .125 * 3, 1e6 + .5)))
m = MeshTet().refined(2)
print('G', m.normalize_nodes((.25, .5, .75)), m.normalize_nodes([3, 4]), m.normalize_nodes((.26, .5, .75)))
