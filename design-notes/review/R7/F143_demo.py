import numpy as np
from skfem import *
from skfem.element import ElementComposite
m = MeshTri().refined(1)
for mk in [lambda: ElementDG(ElementDG(ElementTriP2() * ElementTriP1())) * ElementTriP1(),
           lambda: ElementVector(ElementDG(ElementDG(ElementTriP2() * ElementTriP1()))),
           lambda: ElementDG(ElementTriP2() * ElementTriP1()) * ElementTriP1(),
           lambda: ElementVector(ElementDG(ElementTriP2() * ElementTriP1()))]:
    try: mk(); print('accepted')
    except NotImplementedError as e: print('refused:', e)
@BilinearForm
def mass2(u, p, v, q, w): return u*v + p*q
b = Basis(m, ElementDG(ElementComposite(ElementTriP1())) * ElementTriP1())
print(np.linalg.matrix_rank(mass2.assemble(b).toarray()), b.N)
print(Basis(m, ElementVector(ElementDG(ElementComposite(ElementTriP1())))).N)
print(Basis(m, ElementVector(ElementDG(ElementTriP1())) * ElementDG(ElementTriP1())).N, Basis(m, ElementDG(ElementVector(ElementTriP1())) * ElementTriP1()).N)
