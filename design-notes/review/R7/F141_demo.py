import numpy as np
from skfem import *
m = MeshTri().refined(2)
mt = m.with_boundaries({'a': (0, 1, 5)}).with_subdomains({'s': (0, 1, 2)})
print(FacetBasis(mt, ElementTriP1(), facets='a').nelems, Basis(mt, ElementTriP1(), elements='s').nelems)
mask = (m.p[:, m.t].mean(axis=1)[0] < .25)
mb = m.with_subdomains({'s': mask.tolist()})
print(np.nonzero(mask)[0], mb.normalize_elements('s'), Basis(mb, ElementTriP1(), elements='s').nelems)
me = m.with_boundaries({'e': []}); print(me.boundaries['e'].dtype, Basis(me, ElementTriP1()).get_dofs('e').flatten())
ob = m.with_boundaries({'o': m.facets_satisfying(lambda x: x[0]==0, normal=np.array([1.,0]))}); print(type(ob.boundaries['o']).__name__)
