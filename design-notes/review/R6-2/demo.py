"""A tag that holds a Boolean mask is honoured by normalize_elements /
normalize_facets only (9789638); every other consumer of the tag still reads
the mask as the indices 0 and 1.
"""
import os
import sys
import tempfile
import numpy as np
import skfem as fem

m = fem.MeshTri().refined(2)
mid = m.p[:, m.t].mean(axis=1)
mask = mid[0] < .5                       # 16 of 32 cells
idx = np.nonzero(mask)[0]

mm = m.with_subdomains({'left': mask})   # tag holds the mask
mi = m.with_subdomains({'left': idx})    # tag holds the indices

fail = False


def check(what, got, expected):
    global fail
    ok = (len(got) == len(expected)) and np.array_equal(got, expected)
    print("{}: got {} entries {}, expected {} entries -> {}".format(
        what, len(got), np.asarray(got)[:6], len(expected),
        "ok" if ok else "WRONG"))
    fail |= not ok


# what the commit repaired
check("CellBasis(elements='left').tind",
      fem.CellBasis(mm, fem.ElementTriP1(), elements='left').tind, idx)

# what it left behind (all silent)
lower = lambda x: x[1] < .5
check("restrict(lower half).subdomains['left']",
      mm.restrict(lower).subdomains['left'],
      mi.restrict(lower).subdomains['left'])

check("remove_elements([0]).subdomains['left']",
      mm.remove_elements(np.array([0])).subdomains['left'],
      mi.remove_elements(np.array([0])).subdomains['left'])

with tempfile.TemporaryDirectory() as d:
    mm.save(os.path.join(d, 'm.vtk'))
    mi.save(os.path.join(d, 'i.vtk'))
    check("save/load subdomains['left']",
          fem.Mesh.load(os.path.join(d, 'm.vtk')).subdomains['left'],
          fem.Mesh.load(os.path.join(d, 'i.vtk')).subdomains['left'])

check("from_dict(to_dict()) -> normalize_elements('left')",
      fem.MeshTri.from_dict(mm.to_dict()).normalize_elements('left'),
      idx)

# the same for a boundary tag: saving raises
fmask = m.p[0, m.facets].mean(axis=0) == 0.
mb = m.with_boundaries({'l': fmask})
print("FacetBasis(facets='l').nelems =",
      fem.FacetBasis(mb, fem.ElementTriP1(), facets='l').nelems,
      "(expected", fmask.sum(), ")")
with tempfile.TemporaryDirectory() as d:
    try:
        mb.save(os.path.join(d, 'b.vtk'))
        print("save with a mask boundary tag: ok")
    except Exception as e:
        print("save with a mask boundary tag raises", type(e).__name__, e)
        fail = True

sys.exit(1 if fail else 0)
