"""with_defaults() still tags facets of the neighbouring sides.

Boundary-layer mesh of the unit square: 10 uniform cells along x, cells graded
towards the wall y = 0 (first cell 1e-4 high).  'bottom' must consist of the 10
facets lying on y = 0 - nothing else.
"""
import sys
import numpy as np
from skfem import MeshQuad, MeshTri, Basis, ElementQuad1, ElementTriP1

y = np.array([0., 1e-4, 1e-3, 1e-2, .1, .5, 1.])
x = np.linspace(0., 1., 11)

fail = False
for cls, elem in ((MeshQuad, ElementQuad1()), (MeshTri, ElementTriP1())):
    m = cls.init_tensor(x, y).with_defaults()
    bottom = m.boundaries['bottom']
    # a facet belongs to the bottom iff both of its end points have y == 0
    on_bottom = (m.p[1, m.facets[:, bottom]] == 0.).all(axis=0)
    wrong = bottom[~on_bottom]
    print(type(m).__name__)
    print("  facets tagged 'bottom': got", len(bottom), "expected", len(x) - 1)
    print("  end points of the wrongly tagged facets (x, y):")
    for f in wrong:
        print("     ", m.p[:, m.facets[:, f]].T.tolist())
    dofs = Basis(m, elem).get_dofs('bottom').flatten()
    ywrong = np.unique(m.p[1, dofs][m.p[1, dofs] > 0.])
    print("  Dirichlet nodes of 'bottom' above the wall, y =", ywrong.tolist(),
          "(expected none)")
    # the sides must not share facets
    for a, b in (('bottom', 'left'), ('bottom', 'right')):
        common = np.intersect1d(m.boundaries[a], m.boundaries[b])
        print("  facets tagged both '%s' and '%s': got %d expected 0"
              % (a, b, len(common)))
        fail = fail or len(common) > 0
    fail = fail or len(wrong) > 0

print("FAIL: with_defaults() tags facets that do not lie on the side"
      if fail else "OK")
sys.exit(1 if fail else 0)
