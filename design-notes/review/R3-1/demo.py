"""The eigensolver factories miss eigenvalues on symmetric meshes.

solver_eigen_scipy / solver_eigen_scipy_sym now start ARPACK from the constant
vector v0 = (1, ..., 1).  On a mesh with a mirror symmetry that vector is
orthogonal to every eigenvector that is odd under the symmetry, so those
eigenpairs are reached through round-off only - and ARPACK may declare
convergence before that happens.  The eigenvalues are compared with the dense
solution of the same condensed pencil (scipy.linalg.eigh).
"""
import sys
import warnings

import numpy as np
import scipy.linalg as sl

from skfem import (MeshQuad, MeshLine, MeshTri, Basis, ElementQuad1,
                   ElementLineP1, ElementTriP1, condense, solve)
from skfem.models.poisson import laplace, mass
from skfem.utils import solver_eigen_scipy_sym, solver_eigen_scipy

warnings.simplefilter('ignore')
failures = 0


def check(label, mesh, elem, solver, pick):
    global failures
    basis = Basis(mesh, elem)
    K = laplace.assemble(basis)
    M = mass.assemble(basis)
    Kc, Mc, x, I = condense(K, M, D=basis.get_dofs())
    dense = sl.eigh(Kc.toarray(), Mc.toarray(), eigvals_only=True)
    L, X = solve(Kc, Mc, x, I, solver=solver)
    got = np.sort(np.real(L))
    expected = np.sort(pick(dense, len(got)))
    ok = np.allclose(got, expected, rtol=1e-6)
    print(label)
    print("   computed:", np.round(got, 4))
    print("   expected:", np.round(expected, 4))
    print("   ->", "ok" if ok else "WRONG (an eigenvalue is missing)")
    failures += not ok


def smallest(d, k):
    return d[:k]


def largest(d, k):
    return d[-k:]


# (a) the call of docs/examples/ex31.py, default shift-invert (sigma=10), on
#     the unit square: the double eigenvalue 141.035 is returned once and
#     198.977 takes its place
for factory in (solver_eigen_scipy_sym, solver_eigen_scipy):
    check(f"(a) unit square, Q1, 49 DOFs, {factory.__name__}(k=8)",
          MeshQuad().refined(3), ElementQuad1(), factory(k=8), smallest)

# (b) regular mode, smallest eigenvalues of the 1-D Dirichlet Laplacian:
#     the second mode sin(2 pi x) is odd about x = 1/2 and is skipped
check("(b) unit interval, P1, 31 DOFs, "
      "solver_eigen_scipy_sym(k=2, sigma=None, which='SM')",
      MeshLine().refined(5), ElementLineP1(),
      solver_eigen_scipy_sym(k=2, sigma=None, which='SM'), smallest)

# (c) regular mode, largest eigenvalues (e.g. for a stability limit)
check("(c) unit square, MeshTri.init_symmetric().refined(3), P1, 113 DOFs, "
      "solver_eigen_scipy_sym(k=2, sigma=None, which='LM')",
      MeshTri.init_symmetric().refined(3), ElementTriP1(),
      solver_eigen_scipy_sym(k=2, sigma=None, which='LM'), largest)

print("failures:", failures)
sys.exit(1 if failures else 0)
