"""MeshLine1 uniform refinement: a named subdomain given as a Boolean mask of
the cells (or as an empty list) is still propagated wrongly after commit
6d3d64e, which converted the stored object with np.asarray only."""
import sys
import numpy as np
from skfem import MeshLine, MeshTri, MeshQuad

fail = False


def covered(m, name):
    """midpoints of the cells of a named subdomain"""
    el = m.subdomains[name]
    return np.sort(m.p[0, m.t[:, el]].mean(axis=0))


m = MeshLine(np.linspace(0, 1, 5))             # cells 0..3
index = np.array([2, 3])                       # the right half [0.5, 1]
mask = np.array([False, False, True, True])    # the same cells as a mask
print("coarse mesh, mask and index array select the same cells:",
      np.array_equal(m.t[:, mask], m.t[:, index]))

ref = covered(m.with_subdomains({'s': index}).refined(), 's')
print("index array -> midpoints of 's' after refined():", ref)

for label, sub in [("list", [2, 3]), ("tuple", (2, 3)), ("mask", mask)]:
    M = m.with_subdomains({'s': sub}).refined()
    got = covered(M, 's')
    ok = got.shape == ref.shape and np.allclose(got, ref)
    print(f"{label:6s}-> midpoints of 's' after refined(): {got}",
          "ok" if ok else "WRONG (expected the children of cells 2 and 3)")
    fail |= not ok

# the adaptive path of the same class and the other mesh classes take the mask
# as a mask
M = m.with_subdomains({'s': mask}).refined(np.array([0]))
print("MeshLine1 adaptive, mask:", covered(M, 's'), "(cells in [0.5, 1])")
for cls in (MeshTri, MeshQuad):
    c = cls().refined()
    k = np.zeros(c.t.shape[1], dtype=bool)
    k[0] = True
    a = c.with_subdomains({'s': k}).refined().subdomains['s']
    b = c.with_subdomains({'s': np.array([0])}).refined().subdomains['s']
    print(cls.__name__, "uniform, mask:", a, " index array:", b)

# an empty subdomain given as a list: the stored result cannot index cells
M = m.with_subdomains({'s': []}).refined()
s = M.subdomains['s']
print("empty list -> subdomain after refined():", repr(s))
try:
    M.t[:, s]
except IndexError as e:
    print("  indexing the cells with it raises IndexError:", e)
    fail = True

if fail:
    print("FAIL")
    sys.exit(1)
print("OK")
