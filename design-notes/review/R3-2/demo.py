"""ARPACK refuses the fixed start vector when the stiffness matrix annihilates it.

The stiffness matrix of an unconstrained (pure Neumann / free-free) problem
maps the constant vector to zero.  In regular mode (sigma=None) ARPACK first
applies OP = M^{-1} K to the start vector to force it into the range of OP;
with v0 = ones that gives the zero vector and the solve aborts with
'ARPACK error -9: Starting vector is zero'.  The call below asks for the
largest eigenvalue of the pencil (K, M), the usual estimate for the stability
limit of an explicit time integrator.
"""
import sys
import warnings

import numpy as np
import scipy.linalg as sl

from skfem import (MeshTri, MeshLine, Basis, ElementTriP1, ElementLineP1,
                   ElementVector, BilinearForm, solve)
from skfem.helpers import dot
from skfem.models.poisson import laplace, mass
from skfem.models.elasticity import linear_elasticity
from skfem.utils import solver_eigen_scipy_sym, solver_eigen_scipy

warnings.simplefilter('ignore')
failures = 0


def check(label, K, M, solver):
    global failures
    expected = sl.eigh(K.toarray(), M.toarray(), eigvals_only=True)[-1]
    try:
        L, X = solve(K, M, solver=solver)
        got = np.real(L).max()
        ok = np.isclose(got, expected, rtol=1e-6)
        print(f"{label}: largest eigenvalue {got:.6f}, expected "
              f"{expected:.6f} ->", "ok" if ok else "WRONG")
    except Exception as e:
        ok = False
        print(f"{label}: expected {expected:.6f}, but solve raised {e!r}")
    failures += not ok


basis = Basis(MeshTri().refined(3), ElementTriP1())
K = laplace.assemble(basis)
M = mass.assemble(basis)
print("|K @ ones| =", np.abs(K @ np.ones(K.shape[0])).max())
check("Laplace, MeshTri, eigsh", K, M,
      solver_eigen_scipy_sym(k=1, sigma=None, which='LM'))
check("Laplace, MeshTri, eigs ", K, M,
      solver_eigen_scipy(k=1, sigma=None, which='LM'))

basis = Basis(MeshLine().refined(4), ElementLineP1())
check("Laplace, MeshLine, eigsh", laplace.assemble(basis),
      mass.assemble(basis),
      solver_eigen_scipy_sym(k=1, sigma=None, which='LM'))

# free-free elasticity: K @ ones = 0 as well (a rigid translation)
basis = Basis(MeshTri().refined(2), ElementVector(ElementTriP1()))
vector_mass = BilinearForm(lambda u, v, w: dot(u, v))
check("elasticity, free-free, eigsh", linear_elasticity().assemble(basis),
      vector_mass.assemble(basis),
      solver_eigen_scipy_sym(k=1, sigma=None, which='LM'))

print("failures:", failures)
sys.exit(1 if failures else 0)
