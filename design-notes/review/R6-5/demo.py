"""normalize_nodes((x, ...)): the tolerance 1e-6 * (shortest edge of the whole
mesh) falls below the round-off of the coordinates on a strongly graded mesh;
a vertex that the former absolute tolerance found is no longer found.
"""
import sys
import numpy as np
import skfem as fem

# 1-D mesh graded geometrically towards a singularity at x = 0
p = np.concatenate(([0.], np.geomspace(1e-12, 1e-1, 45), 0.1 * np.arange(2, 11)))
m = fem.MeshLine(np.sort(p))
basis = fem.CellBasis(m, fem.ElementLineP1())
print("shortest edge", np.diff(m.p[0]).min(), " longest edge",
      np.diff(m.p[0]).max())

x = 0.3                      # the stored vertex is 0.1 * 3 = 0.30000000000000004
stored = m.p[0, np.argmin(abs(m.p[0] - x))]
print("stored vertex - requested point =", stored - x,
      "(round-off, 1e-15 of the local cell size 0.1)")
dofs = basis.get_dofs(nodes=(x,)).all()
print("get_dofs(nodes=(0.3,)) ->", dofs, " expected one DOF")
sys.exit(0 if len(dofs) == 1 else 1)
