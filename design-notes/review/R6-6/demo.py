"""COOData.toarray() for the data of a functional returns a NumPy scalar, not an
array: np.asarray(coo) (COOData.__array__, documented as the reason toarray is
wired to the array protocol) still raises.
"""
import sys
import numpy as np
import skfem as fem
from skfem import Functional

m = fem.MeshTri().refined(1)
basis = fem.CellBasis(m, fem.ElementTriP1())


@Functional
def area(w):
    return 1. + 0. * w.x[0]


coo = area.coo_data(basis)
out = coo.toarray()
print("toarray() ->", repr(out), " expected a numpy.ndarray (0-d) equal to 1.0")
fail = not isinstance(out, np.ndarray)
for what, f in [("np.asarray(coo)", lambda: np.asarray(coo)),
                ("np.stack([coo, coo])", lambda: np.stack([coo, coo]))]:
    try:
        print(what, "->", repr(f()))
    except Exception as e:
        print(what, "raises", type(e).__name__, e)
        fail = True
sys.exit(1 if fail else 0)
