"""Scratch artefact (not a registered check): failing input of F28."""
import numpy as np
from skfem import MeshTri, FacetBasis, ElementTriP1, ElementTriP0

m = MeshTri().refined(1)
fac = np.nonzero(m.f2t[1] != -1)[0]
fb1 = FacetBasis(m, ElementTriP1(), facets=fac, side=1)
d = fb1.with_element(ElementTriP0())
print("F28", "ok" if np.array_equal(d.tind, fb1.tind) else "DEFECT PRESENT")
