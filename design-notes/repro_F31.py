"""Scratch artefact (not a registered check): failing input of F31.
NonlinearForm(form, hessian=False) selected the energy branch ('hessian' in
self.params) and called the (u, v, w) integrand as form(u, w): TypeError."""
from skfem import MeshTri, Basis, ElementTriP1
from skfem.autodiff import NonlinearForm

b = Basis(MeshTri().refined(1), ElementTriP1())


def F(u, v, w):
    return u.grad[0] * v + u * u * v


x = b.zeros() + 1.
J0, _ = NonlinearForm(F).assemble(b, x=x)
try:
    J1, _ = NonlinearForm(F, hessian=False).assemble(b, x=x)
    print("F31", "ok" if abs(J0 - J1).max() == 0 else "DEFECT PRESENT")
except TypeError as e:
    print("F31 DEFECT PRESENT:", e)
