"""Scratch artefact (not a registered check): failing input of F32.
Adaptive refinement of MeshTri2 / MeshTet2 dropped the named subdomains
(the first-order classes propagate them)."""
import numpy as np
from skfem import MeshTri, MeshTri2, MeshTet, MeshTet2

bad = []
for cls, base in ((MeshTri2, MeshTri().refined(2)),
                  (MeshTet2, MeshTet().refined(1))):
    m = cls.from_mesh(base).with_subdomains({'left': lambda x: x[0] < .5})
    r = m.refined([0, 3]).refined([1, 2, 5])
    if r.subdomains is None:
        bad.append(f"{cls.__name__}: subdomains lost")
        continue
    ix = r.subdomains['left']
    rest = np.setdiff1d(np.arange(r.t.shape[1]), ix)
    inside = r.p[0, r.t[:, ix]].mean(axis=0) < .5
    outside = r.p[0, r.t[:, rest]].mean(axis=0) > .5
    if not (inside.all() and outside.all()):
        bad.append(f"{cls.__name__}: subdomain covers another region")
print("F32", "ok" if not bad else "DEFECT PRESENT: " + "; ".join(bad))
