"""Scratch artefact (not a registered check): failing input of F26 against
whatever skfem is on PYTHONPATH.  Prints 'F26 ok' / 'F26 DEFECT PRESENT'."""
import numpy as np
from skfem import MeshTri
from skfem.mapping import MappingIsoparametric, MappingAffine
from skfem.element import ElementLineP1, ElementTriP1

m = MeshTri().refined(1)
ma = MappingAffine(m)
mi = MappingIsoparametric(m, ElementTriP1(), ElementLineP1())
X = np.random.RandomState(0).rand(2, m.nelements, 3)    # per-cell points
try:
    ok = np.allclose(ma.F(X), mi.F(X)) and np.allclose(ma.detDF(X), mi.detDF(X))
except ValueError as e:                                   # broadcast error
    ok = False
print("F26", "ok" if ok else "DEFECT PRESENT")
