"""Scratch artefact (not a registered check): failing input of F68.
utils.bmat(...).blocks accumulated its running offset twice: wrong cut
positions from the third block column on."""
import scipy.sparse as sp
from skfem.utils import bmat

B = [[sp.eye(k) if i == j else None for j, k in enumerate((2, 3, 4, 5))]
     for i in range(4)]
got = list(bmat(B).blocks)
print("F68", "ok" if got == [2, 5, 9] else f"DEFECT PRESENT (blocks = {got}, "
      f"expected [2, 5, 9])")
