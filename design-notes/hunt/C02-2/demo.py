"""C02-2: P3/P4 (and Q3/Q4) matrices depend on the local vertex numbering.

Elements with more than one DOF per edge (ElementTriP3, ElementTriP4,
ElementQuadP(p >= 3)) order / orient their edge DOFs from the lower to the
higher *local* vertex.  Nothing reconciles this with the neighbouring cell, so
the assembled space is only C0 (and only contains the polynomials) when every
shared edge is traversed in the same direction by both neighbours, i.e. when
``t`` happens to be sorted.  For other, perfectly valid, numberings the mass,
stiffness and load entries are silently those of a different, discontinuous
space.

Every number checked below has a closed form and must not depend on the
numbering:
  * x^3 (resp. (x+y)^3) lies in P3/Q3, so its L2 projection is the function
    itself:  ||u_h - p|| = 0,  u_h^T M u_h = int p^2,  u_h^T K u_h = int |grad p|^2
  * the spectrum of the mass matrix is invariant under renumbering.
"""
import sys
import numpy as np
from skfem import (MeshTri, MeshQuad, Basis, BilinearForm, Functional,
                   ElementTriP2, ElementTriP3, ElementTriP4, ElementQuad2,
                   ElementQuadP)
from skfem.helpers import dot, grad

mass = BilinearForm(lambda u, v, w: u * v)
lap = BilinearForm(lambda u, v, w: dot(grad(u), grad(v)))
failures = 0


def report(label, got, exact, tol=1e-10):
    global failures
    ok = abs(got - exact) <= tol
    failures += (not ok)
    print("    {:46s} got {:.12f}  exact {:.12f}  {}".format(
        label, got, exact, "ok" if ok else "WRONG"))


def study(name, mesh, elem, p, int_p2, int_gp2):
    basis = Basis(mesh, elem)
    M = mass.assemble(basis)
    K = lap.assemble(basis)
    u = basis.project(p)
    err = Functional(lambda w: (w['u'] - p(w.x)) ** 2).assemble(basis, u=u)
    print("  {} / {}: t =\n{}".format(name, type(elem).__name__, mesh.t))
    report("||P_h p - p||_L2", np.sqrt(abs(err)), 0.)
    report("u^T M u   (= int p^2)", u @ (M @ u), int_p2)
    report("u^T K u   (= int |grad p|^2)", u @ (K @ u), int_gp2)
    return np.sort(np.linalg.eigvalsh(M.toarray()))


# ---------------------------------------------------------------- triangles
print("unit square, two triangles, p = x^3")
p3 = lambda x: x[0] ** 3                       # noqa
m_sorted = MeshTri()                           # t = [[0,1],[1,2],[2,3]]
m_ccw = m_sorted.oriented()                    # same cells, all CCW
assert (m_ccw.p == m_sorted.p).all()
for elem in (ElementTriP2(), ElementTriP3(), ElementTriP4()):
    if isinstance(elem, ElementTriP2):         # control: one DOF per edge
        ev0, ev1 = (np.sort(np.linalg.eigvalsh(
            mass.assemble(Basis(mm, elem)).toarray()))
            for mm in (m_sorted, m_ccw))
    else:
        ev0 = study("MeshTri()", m_sorted, elem, p3, 1. / 7, 9. / 5)
        ev1 = study("MeshTri().oriented()", m_ccw, elem, p3, 1. / 7, 9. / 5)
    report("{}: max |eig(M) - eig(M_oriented)|".format(type(elem).__name__),
           abs(ev0 - ev1).max(), 0.)

# ------------------------------------------------------------ quadrilaterals
print("[0,2]x[0,1], two unit squares, p = (x+y)^3")
pq = lambda x: (x[0] + x[1]) ** 3              # noqa
pts = np.array([[0., 1., 2., 0., 1., 2.],
                [0., 0., 0., 1., 1., 1.]])
tA = np.array([[0, 1, 4, 3], [1, 2, 5, 4]]).T
tB = np.array([[0, 1, 4, 3], [5, 4, 1, 2]]).T  # 2nd cell starts at node 5
# int_0^2 int_0^1 (x+y)^6 = (3^8 - 2^8 - 1) / 56 ; |grad|^2 = 18 (x+y)^4
i_p2 = (3. ** 8 - 2. ** 8 - 1.) / 56.
i_gp2 = 18. * (3. ** 6 - 2. ** 6 - 1.) / 30.
for elem in (ElementQuad2(), ElementQuadP(3), ElementQuadP(4)):
    cubic = not isinstance(elem, ElementQuad2)
    evs = []
    for name, t in (("cell 2 = [1,2,5,4]", tA), ("cell 2 = [5,4,1,2]", tB)):
        mesh = MeshQuad(pts, t)
        if cubic:
            evs.append(study(name, mesh, elem, pq, i_p2, i_gp2))
        else:
            evs.append(np.sort(np.linalg.eigvalsh(
                mass.assemble(Basis(mesh, elem)).toarray())))
    report("{}: max |eig(M_A) - eig(M_B)|".format(type(elem).__name__),
           abs(evs[0] - evs[1]).max(), 0.)

if failures:
    print("FAIL: {} numbers depend on the local vertex numbering"
          .format(failures))
    sys.exit(1)
print("PASS")
