"""C03-3: the facet DOF "normal derivative at the edge midpoint" of
ElementTriMorley / ElementTriArgyris / ElementTri15ParamPlate is oriented by
the LOCAL vertex order of each cell.  On a triangle mesh whose cells are not
index-sorted - here simply ``MeshTri.init_sqsymmetric().oriented()``, the
library's own method for making all cells counter-clockwise - the two
neighbours of an edge use opposite normals for the one shared DOF:

* Morley / 15-parameter plate (non-conforming): the defining functional
  du/dn(edge midpoint) is not single valued,
* Argyris (C1): the gradient jumps.

These elements have ONE DOF per facet, so they are not covered by the
property's exclusion for "several DOFs per facet".
"""
import sys
import numpy as np
from skfem import (MeshTri, InteriorFacetBasis, ElementTriMorley,
                   ElementTriArgyris, ElementTri15ParamPlate, ElementTriCR,
                   ElementTriRT1, ElementTriN1)

m_sorted = MeshTri.init_sqsymmetric()          # 8 cells, 8 interior edges
m = m_sorted.oriented()                        # all cells counter-clockwise
print("cells of the oriented mesh (columns):\n", m.t)
print("signed areas > 0:", bool((m.orientation() == 1).all()))

mid = (np.array([[.5]]), np.array([1.]))                   # edge midpoint
pts = (np.array([[.1, .35, .5, .8]]), np.ones(4) / 4.)     # points on the edge
rng = np.random.default_rng(0)


def traces(mesh, elem, quad):
    s0 = InteriorFacetBasis(mesh, elem, side=0, quadrature=quad)
    s1 = InteriorFacetBasis(mesh, elem, side=1, quadrature=quad)
    x = rng.standard_normal(s0.N)                          # ANY coefficients
    return s0.interpolate(x), s1.interpolate(x), s0.normals.value


def jump_dn_mid(mesh, elem):
    u0, u1, n = traces(mesh, elem, mid)
    return np.abs(((u0.grad - u1.grad) * n).sum(axis=0)).max()


def jump_grad(mesh, elem):
    u0, u1, n = traces(mesh, elem, pts)
    return np.abs(u0.value - u1.value).max() + np.abs(u0.grad - u1.grad).max()


def jump_value_mid(mesh, elem):
    u0, u1, n = traces(mesh, elem, mid)
    return np.abs(u0.value - u1.value).max()


def jump_normal(mesh, elem):
    u0, u1, n = traces(mesh, elem, pts)
    return np.abs(((u0.value - u1.value) * n).sum(axis=0)).max()


def jump_tangent(mesh, elem):
    u0, u1, n = traces(mesh, elem, pts)
    d = u0.value - u1.value
    return np.abs(-d[0] * n[1] + d[1] * n[0]).max()


cases = [
    ("ElementTriCR      [u](midpoint)", ElementTriCR(), jump_value_mid),
    ("ElementTriRT1     [u.n]", ElementTriRT1(), jump_normal),
    ("ElementTriN1      [u.t]", ElementTriN1(), jump_tangent),
    ("ElementTriMorley  [du/dn](midpoint)", ElementTriMorley(), jump_dn_mid),
    ("ElementTri15Param [du/dn](midpoint)", ElementTri15ParamPlate(),
     jump_dn_mid),
    ("ElementTriArgyris [u]+[grad u]", ElementTriArgyris(), jump_grad),
]
bad = []
print("\n%-38s %14s %14s" % ("", "sorted cells", ".oriented()"))
for name, elem, fun in cases:
    a = fun(m_sorted, elem)
    b = fun(m, elem)
    print("%-38s %14.2e %14.2e" % (name, a, b))
    if b > 1e-6:
        bad.append(name.split()[0])

print("\nproperty C03 demands: non-conforming elements are continuous in their "
      "defining functionals,\nC1 elements have continuous gradients "
      "(all numbers ~ 1e-10 or smaller).")
if bad:
    print("VIOLATED on the oriented mesh for:", ", ".join(bad))
    sys.exit(1)
print("all defining functionals / gradients single valued")
sys.exit(0)
