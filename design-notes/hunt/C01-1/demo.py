"""C01-1: Basis.split() hands out component bases that forgot the restriction
(cell subset / facet subset / side) of the basis they were split from.

For a basis B with a composite (or vector) element, ``B.split(x)`` returns
pairs ``(x_c, B_c)``: the coefficient vector of component c and "its" basis.
Property C01 says that interpolation and the three form types are mutually
consistent for EVERY basis (cell subset, boundary-facet subset, interior
facets with side=0/1).  Hence, for each component c,

    Functional(g).assemble(B_c, u=x_c)  ==  Functional(g_c).assemble(B, u=x)

where g_c applies g to component c, and the (c, c) block of a matrix
assembled with B must equal the matrix assembled with B_c.
"""
import sys
import numpy as np
from skfem import (MeshTri, ElementTriP1, ElementTriP2, ElementDG,
                   ElementVector, CellBasis, FacetBasis, InteriorFacetBasis,
                   BilinearForm, Functional)

rng = np.random.default_rng(0)
m = MeshTri().refined(2)
e = ElementDG(ElementTriP1()) * ElementTriP2()       # 2-component composite

cases = {
    'CellBasis(elements=[0, 5, 9])':
        CellBasis(m, e, elements=np.array([0, 5, 9], dtype=np.int32)),
    'FacetBasis(facets: x=0)':
        FacetBasis(m, e, facets=m.facets_satisfying(lambda x: x[0] == 0.)),
    'InteriorFacetBasis(side=1)':
        InteriorFacetBasis(m, e, side=1),
    'InteriorFacetBasis(side=1), ElementVector(DG P1)':
        InteriorFacetBasis(m, ElementVector(ElementDG(ElementTriP1())),
                           side=1),
}

failures = 0
for name, B in cases.items():
    x = rng.standard_normal(B.N)
    parts = B.split(x)
    print('== {}: {} cells/facets, side={}'.format(
        name, B.nelems, getattr(B, 'side', None)))
    for c, (xc, Bc) in enumerate(parts):
        # --- functional: int u_c^2 over the domain of B
        # (w.u is a tuple for ElementComposite, a vector field for
        # ElementVector; w.u[c] is component c in both cases)
        expected = Functional(lambda w: w.u[c] ** 2).assemble(B, u=x)
        got = Functional(lambda w: w.u ** 2).assemble(Bc, u=xc)
        ok = np.isclose(got, expected, rtol=1e-10, atol=1e-12)
        print('   component {}: split basis has {} cells/facets, side={}'
              .format(c, Bc.nelems, getattr(Bc, 'side', None)))
        print('      int u_c^2 : with B = {:.12f}   with split basis = {:.12f}'
              '   {}'.format(expected, got, 'ok' if ok else 'MISMATCH'))
        failures += not ok

# --- matrix clause on the cell subset: (0, 0) block of the composite matrix
B = cases['CellBasis(elements=[0, 5, 9])']
A = BilinearForm(lambda u0, u1, v0, v1, w: u0 * v0).assemble(B)
I0 = B.split_indices()[0]
A00 = A[I0].T[I0].T
B0 = B.split_bases()[0]
M0 = BilinearForm(lambda u, v, w: u * v).assemble(B0)
err = abs(A00 - M0).max()
print('== mass matrix of component 0 on the cell subset: '
      '|block of composite - matrix on split basis|_max = {:.3e}'.format(err))
failures += err > 1e-12

if failures:
    print('FAIL: {} inconsistencies - split bases are not restricted like '
          'their parent.'.format(failures))
    sys.exit(1)
print('PASS')
