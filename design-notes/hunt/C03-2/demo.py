"""C03-2: on a periodic triangle mesh (MeshTri1DG.periodic) elements with
several DOFs per facet are discontinuous across the identified ("glued")
facets as soon as the periodic pairing of the boundary nodes is not monotone in
the vertex numbers - i.e. for practically every mesh that was not numbered by
init_tensor.

Everything is done through the public API.  The one-sided traces are obtained
from a CellBasis whose quadrature points are placed on the three reference
edges; the two cells of an interior facet are matched through the vertex
numbers of the periodic topology (mesh.t, mesh.t2f, mesh.f2t).
"""
import sys
import numpy as np
from skfem import (MeshTri, MeshTri1DG, CellBasis, ElementTriP2, ElementTriP3,
                   ElementTriP4, ElementTriRT1, ElementTriRT2, ElementTriBDM1,
                   ElementTriN1, ElementTriN2)

# 3 x 1 squares on [0,1]^2, each split into two triangles; the only "unusual"
# thing is the (perfectly admissible) vertex numbering: on the left side the
# lower vertex has the smaller number (0 < 1), on the right side the larger
# one (7 > 6).
p = np.array([[0., 0.], [0., 1.],
              [1 / 3, 0.], [1 / 3, 1.], [2 / 3, 0.], [2 / 3, 1.],
              [1., 1.], [1., 0.]]).T
t = np.array([[0, 2, 3], [0, 3, 1],
              [2, 4, 5], [2, 5, 3],
              [4, 7, 6], [4, 6, 5]]).T
m = MeshTri(p, t)                      # cells get sorted here, as usual
# glue x = 1 onto x = 0:  6 = (1,1) -> 1 = (0,1),   7 = (1,0) -> 0 = (0,0)
mp = MeshTri1DG.periodic(m, np.array([6, 7]), np.array([1, 0]))
print("periodic topology, cells as columns:\n", mp.t)

s = np.array([0.15, 0.4, 0.8])         # parameter along a facet
ref = np.array([[0., 1., 0.], [0., 0., 1.]])
lfacets = [[0, 1], [1, 2], [0, 2]]
rng = np.random.default_rng(0)


def max_jump(mesh, elem, kind):
    # quadrature points: for local facet l, block l holds ref_a + s (ref_b-ref_a)
    # and block 3 + l the reversed parametrisation
    blocks = []
    for a, b in lfacets:
        blocks.append(np.outer(ref[:, a], 1 - s) + np.outer(ref[:, b], s))
    for a, b in lfacets:
        blocks.append(np.outer(ref[:, a], s) + np.outer(ref[:, b], 1 - s))
    X = np.hstack(blocks)
    basis = CellBasis(mesh, elem, quadrature=(X, np.ones(X.shape[1])))
    x = rng.standard_normal(basis.N)   # ANY coefficient vector
    u = basis.interpolate(x).value     # (ncells, npts) or (2, ncells, npts)
    xg = basis.global_coordinates().value
    worst, where = 0., None
    for f in np.nonzero(mesh.f2t[1] != -1)[0]:
        c0, c1 = mesh.f2t[:, f]
        l0 = int(np.nonzero(mesh.t2f[:, c0] == f)[0][0])
        l1 = int(np.nonzero(mesh.t2f[:, c1] == f)[0][0])
        # does cell 1 run along the facet in the same direction as cell 0 ?
        same = mesh.t[lfacets[l0][0], c0] == mesh.t[lfacets[l1][0], c1]
        k0 = slice(3 * l0, 3 * l0 + 3)
        k1 = slice(3 * l1, 3 * l1 + 3) if same else \
            slice(3 * (3 + l1), 3 * (3 + l1) + 3)
        # tangent / normal of the facet from the physical points of cell 0
        tau = xg[:, c0, k0][:, -1] - xg[:, c0, k0][:, 0]
        tau /= np.linalg.norm(tau)
        nrm = np.array([tau[1], -tau[0]])
        if kind == 'value':
            j = np.abs(u[c0, k0] - u[c1, k1]).max()
        else:
            d = u[:, c0, k0] - u[:, c1, k1]
            w = nrm if kind == 'normal' else tau
            j = np.abs(w @ d).max()
        if j > worst:
            worst, where = j, (int(f), mesh.facets[:, f].tolist())
    return worst, where


cases = [(ElementTriP2(), 'value'), (ElementTriRT1(), 'normal'),
         (ElementTriN1(), 'tangent'),           # controls: must be fine
         (ElementTriP3(), 'value'), (ElementTriP4(), 'value'),
         (ElementTriRT2(), 'normal'), (ElementTriBDM1(), 'normal'),
         (ElementTriN2(), 'tangent')]

bad = []
print("\n%-16s %-8s %12s %12s   worst facet (vertices)" %
      ("element", "trace", "plain mesh", "periodic"))
for elem, kind in cases:
    j0, _ = max_jump(m, elem, kind)
    j1, where = max_jump(mp, elem, kind)
    print("%-16s %-8s %12.2e %12.2e   %s" %
          (type(elem).__name__, kind, j0, j1, where if j1 > 1e-8 else ''))
    if j1 > 1e-8:
        bad.append(type(elem).__name__)

print("\nproperty C03 demands single-valued traces (jump ~ 1e-13) on every "
      "interior facet, including the glued one with vertices [0, 1].")
if bad:
    print("VIOLATED on the periodic mesh for:", ", ".join(bad))
    sys.exit(1)
print("all traces single valued")
sys.exit(0)
