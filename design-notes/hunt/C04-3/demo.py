"""C04-3: COOData.tolocal(basis) - "sum local facet matrices to form elemental
matrices" - hands the local matrix of an interior facet to BOTH neighbouring
cells, although it is written in the local DOF numbering of one of them only.
"""
import sys
import numpy as np
from skfem import (MeshTri, MeshQuad, MeshTet, BilinearForm, FacetBasis,
                   InteriorFacetBasis, ElementTriP1, ElementTriP2,
                   ElementQuad1, ElementTetP1)

bad = 0
form = BilinearForm(lambda u, v, w: u * v)


def check(label, fb):
    """Scatter the per-cell matrices with the per-cell numbering; the result
    must be the assembled matrix (that is what "elemental matrix" means)."""
    global bad
    coo = form.elemental(fb)
    G = coo.toarray()                       # assembled, N x N
    L = coo.tolocal(fb)                     # one matrix per cell
    edofs = fb.dofs.element_dofs            # per-cell numbering
    R = np.zeros_like(G)
    for K in range(L.shape[0]):
        R[np.ix_(edofs[:, K], edofs[:, K])] += L[K]
    # entries may only couple DOFs of a cell that was integrated over
    allowed = np.zeros(G.shape, dtype=bool)
    for K in np.unique(fb.tind):
        allowed[np.ix_(edofs[:, K], edofs[:, K])] = True
    outside = int(((R != 0) & ~allowed).sum())
    ok = np.allclose(R, G) and outside == 0
    print("{:58s} sum(assembled) {:7.4f}  sum(scattered local) {:7.4f}  "
          "max diff {:8.2e}  entries outside integrated cells {:3d}  {}"
          .format(label, G.sum(), R.sum(), np.abs(R - G).max(), outside,
                  "ok" if ok else "WRONG"))
    bad += not ok


m = MeshTri().refined(1)
check("FacetBasis, boundary facets (default), TriP1", FacetBasis(m, ElementTriP1()))
check("InteriorFacetBasis side 0, TriP1", InteriorFacetBasis(m, ElementTriP1()))
check("InteriorFacetBasis side 1, TriP2",
      InteriorFacetBasis(m, ElementTriP2(), side=1))
f = np.nonzero(m.f2t[1] != -1)[0][:1]
check("FacetBasis on ONE interior facet, TriP1",
      FacetBasis(m, ElementTriP1(), facets=f))
mi = m.with_boundaries({'mid': lambda x: np.isclose(x[0], .5)},
                        boundaries_only=False)
check("FacetBasis on named interior interface x=0.5, TriP1",
      FacetBasis(mi, ElementTriP1(), facets='mid'))
check("InteriorFacetBasis, Quad1",
      InteriorFacetBasis(MeshQuad().refined(1), ElementQuad1()))
check("InteriorFacetBasis, TetP1",
      InteriorFacetBasis(MeshTet().refined(1), ElementTetP1()))

print()
if bad:
    print("DEFECT: {} case(s) where the per-cell matrices do not belong to "
          "the per-cell numbering".format(bad))
    sys.exit(1)
print("all local matrices consistent with the per-cell numbering")
