"""C11-3: Mesh.interior_nodes() returns nodes that lie on boundary facets.

On the second-order meshes (MeshTri2, MeshQuad2, MeshTet2, MeshHex2) the
"interior" set is computed as  all columns of p  minus  boundary *vertices*,
so every mid-edge / mid-face node of a boundary facet is reported as interior.

Property clause: "boundary facets, edges and vertices are exactly those
belonging to a facet with a single neighbour; interior and boundary sets
partition the whole".
"""
import sys
import numpy as np
from skfem import (MeshTri, MeshTri2, MeshQuad2, MeshTet2, MeshHex2, Basis,
                   ElementTriP2, solve, condense)
from skfem.models.poisson import laplace, unit_load

failed = False

for cls in (MeshTri2, MeshQuad2, MeshTet2, MeshHex2):
    m = cls().refined(1)          # unit square / unit cube
    inner = m.interior_nodes()
    bnd = m.boundary_nodes()
    x = m.p[:, inner]
    on_boundary = (np.isclose(x, 0) | np.isclose(x, 1)).any(axis=0)
    # nodes sitting on a facet with a single neighbour, from the dof tables
    # (m.dofs numbers the nodes of the mesh's own element = columns of m.p)
    facet_nodes = np.unique(
        m.dofs.get_facet_dofs(m.boundary_facets()).all().flatten())
    print(f"--- {cls.__name__}().refined(): {m.p.shape[1]} nodes, "
          f"{m.nvertices} vertices")
    print(f"    boundary_nodes(): {len(bnd)}   interior_nodes(): "
          f"{len(inner)}")
    print(f"    interior_nodes() lying ON the boundary of the unit "
          f"{'square' if m.dim() == 2 else 'cube'}: {on_boundary.sum()} "
          f"(property: 0), e.g. node {inner[on_boundary][0]} at "
          f"{m.p[:, inner[on_boundary][0]].tolist()}"
          if on_boundary.any() else
          "    interior_nodes() lying on the boundary: 0")
    if len(facet_nodes):
        both = np.intersect1d(facet_nodes, inner)
        print(f"    nodes of boundary facets (Dofs.get_facet_dofs) that are "
              f"also in interior_nodes(): {len(both)} (property: 0)")
    if on_boundary.any():
        failed = True

# what this does to the documented idiom  condense(A, b, I=m.interior_nodes())
m = MeshTri2().refined(2)
basis = Basis(m, ElementTriP2())
A, b = laplace.assemble(basis), unit_load.assemble(basis)
u_idiom = solve(*condense(A, b, I=m.interior_nodes()))
u_right = solve(*condense(A, b, D=basis.get_dofs()))
print("--- Poisson, u = 0 on the boundary, quadratic mesh + P2:")
print(f"    max |u| on boundary dofs with I=m.interior_nodes(): "
      f"{abs(u_idiom[basis.get_dofs().all()]).max():.4f} (should be 0)")
print(f"    max u: {u_idiom.max():.4f}   (with D=basis.get_dofs(): "
      f"{u_right.max():.4f})")

# same root cause, first-order mesh with a vertex no cell refers to
p = np.array([[0., 1., 0., 1., 5.],
              [0., 0., 1., 1., 5.]])
m = MeshTri(p, MeshTri().t)
print(f"--- MeshTri with one unused trailing point: interior_nodes() = "
      f"{m.interior_nodes().tolist()} (vertex 4 belongs to no cell; "
      f"nvertices = {m.nvertices})")

print()
if failed:
    print("FAIL: interior_nodes() contains nodes of boundary facets")
    sys.exit(1)
print("OK")
