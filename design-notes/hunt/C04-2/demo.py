"""C04-2: facet DOFs are laid out along a shared facet in the *cell-local*
direction.  Elements with two or more DOFs per facet (ElementTriP3, P4, RT2,
BDM1, N2, ...) therefore attach *different* DOFs (different locations /
functionals) to the same global number in the two cells that share the facet,
unless the vertex indices of every triangle happen to be ascending.
``MeshTri.oriented()`` (public, no warning) returns a mesh where they are not.
"""
import sys
import numpy as np
from skfem import (MeshTri, Basis, InteriorFacetBasis, ElementTriP2,
                   ElementTriP3, ElementTriP4, ElementTriRT2, ElementTriN2,
                   ElementTriBDM1)

rng = np.random.default_rng(0)
bad = 0


def report(mesh, label):
    global bad
    print(label)
    for elem in (ElementTriP2(), ElementTriP3(), ElementTriP4(),
                 ElementTriRT2(), ElementTriBDM1(), ElementTriN2()):
        basis = Basis(mesh, elem)

        # (1) DOF location table vs per-cell numbering:
        #     doflocs[:, element_dofs[j, K]] must be F_K(reference location j)
        ref = basis.mapping.F(elem.doflocs.T)            # dim x cells x Nbfun
        mismatch = 0
        for j in range(basis.Nbfun):
            d = basis.doflocs[:, basis.element_dofs[j]] - ref[:, :, j]
            mismatch += int((np.abs(d).max(axis=0) > 1e-12).sum())

        # (2) the DOF is shared along the shared facet: trace (H1), normal
        #     trace (Hdiv) or tangential trace (Hcurl) is single valued
        f0 = InteriorFacetBasis(mesh, elem, side=0, intorder=6)
        f1 = InteriorFacetBasis(mesh, elem, side=1, intorder=6)
        x = rng.standard_normal(basis.N)
        d = f0.interpolate(x).value - f1.interpolate(x).value
        n = f0.normals.value
        name = type(elem).__name__
        if d.ndim == 2:
            jump, kind = np.abs(d).max(), 'trace'
        elif 'RT' in name or 'BDM' in name:
            jump, kind = np.abs(d[0] * n[0] + d[1] * n[1]).max(), 'normal'
        else:
            jump, kind = np.abs(d[0] * n[1] - d[1] * n[0]).max(), 'tangential'

        ok = mismatch == 0 and jump < 1e-9
        print("  {:15s} (cell, local dof) pairs whose location disagrees "
              "with the table: {:3d}   {} jump across interior facets: "
              "{:9.2e}   {}".format(name, mismatch, kind, jump,
                                    'ok' if ok else 'WRONG'))
        bad += not ok

    # (3) consequence: nodal interpolation through basis.doflocs
    basis = Basis(mesh, ElementTriP3())

    def f(x):
        return x[0] ** 3 - 2 * x[0] * x[1] ** 2 + x[1]

    uh = basis.interpolate(f(basis.doflocs)).value
    err = np.abs(uh - f(basis.global_coordinates().value)).max()
    print("  P3 nodal interpolant of a cubic, max error: {:.2e} "
          "(must be round-off)".format(err))
    bad += err > 1e-10


m = MeshTri().refined(2)
report(m, "MeshTri().refined(2)   [vertex indices of each cell ascending]")
print()
mo = m.oriented()
print("oriented(): same vertices {}, same cells {}, all Jacobians positive {}"
      .format(np.array_equal(m.p, mo.p),
              np.array_equal(np.sort(m.t, axis=0), np.sort(mo.t, axis=0)),
              bool((mo.orientation() == 1).all())))
report(mo, "MeshTri().refined(2).oriented()")

print()
if bad:
    print("DEFECT: {} check(s) failed".format(bad))
    sys.exit(1)
print("all checks passed")
