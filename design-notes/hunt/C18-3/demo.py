"""C18-3: Mesh.restrict() (and remove_elements()) silently strip the
orientation from oriented named boundaries.

An oriented boundary (OrientedBoundary, created by
`facets_satisfying(..., normal=...)` or `facets_around(...)`) designates, for
every facet, the cell on whose side the trace is taken and out of which the
normal points.  Property C18: named boundaries that are carried over by
restrict() designate the same geometric entities as before.
"""
import sys
import numpy as np
from skfem import MeshTri, FacetBasis, ElementTriP1, Functional


@Functional
def flux_x(w):
    # integral of n . e_x over the named boundary
    return w.n[0]


m = MeshTri().refined(3)
# the interface x = 1/2, oriented such that the normal is +e_x, i.e. every
# facet designates the cell on its left
iface = m.facets_satisfying(lambda x: np.isclose(x[0], .5),
                            normal=np.array([1., 0.]))
m = m.with_boundaries({'iface': iface})
print("before:", type(m.boundaries['iface']).__name__,
      "ori =", m.boundaries['iface'].ori.tolist())

# cut off the strip y > 3/4; both neighbours of every remaining interface
# facet are kept
r = m.restrict(lambda x: x[1] < .75)
b = r.boundaries['iface']
print("after :", type(b).__name__, "ori =",
      None if getattr(b, 'ori', None) is None else b.ori.tolist())


def designated_cells(mesh):
    """midpoints of the cells designated by the named boundary 'iface'"""
    fb = FacetBasis(mesh, ElementTriP1(), facets='iface')
    return mesh.p[:, mesh.t[:, fb.tind]].mean(axis=1)


before = designated_cells(m)
before = before[:, before[1] < .75]
after = designated_cells(r)
print("designated cells lie left of the interface, before:",
      bool((before[0] < .5).all()), " after:", bool((after[0] < .5).all()),
      "(property demands True)")

fb0 = FacetBasis(m, ElementTriP1(), facets='iface')
fb1 = FacetBasis(r, ElementTriP1(), facets='iface')
f0 = flux_x.assemble(fb0)
f1 = flux_x.assemble(fb1)
print(f"integral of n_x over 'iface' before: {f0:.4f} (length 1, normal +e_x)")
print(f"integral of n_x over 'iface' after : {f1:.4f} "
      "(property demands 0.7500: length 3/4, same normal)")

same_cells = (sorted(map(tuple, np.round(before.T, 12)))
              == sorted(map(tuple, np.round(after.T, 12))))
if not same_cells or abs(f1 - .75) > 1e-12:
    print("FAIL: the restricted mesh's boundary 'iface' no longer designates "
          "the same cells / normal direction")
    sys.exit(1)
print("OK")
