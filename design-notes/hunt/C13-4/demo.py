"""C13-4: refined() on the periodic ("DG") line / triangle meshes silently
returns a corrupt mesh object.

MeshLine1DG / MeshTri1DG inherit _uniform and _adaptive from MeshLine1 /
MeshTri1.  Those treat `doflocs[:, t]` as the corner coordinates of the cells,
but in a DG mesh `doflocs` holds one point per (cell, corner) and `t` holds the
periodic vertex numbers, so the inherited code computes "midpoints" of
unrelated points and returns connectivity that does not fit the point array.
No exception is raised by refined().

Accepted as repaired: a usable refined periodic mesh of the same measure, or an
explicit NotImplementedError (as MeshDG already does for save / load /
element_finder).
"""
import sys
import numpy as np
from skfem import (MeshLine1DG, MeshTri1DG, Basis, ElementLineP0,
                   ElementTriP0, Functional)

one = Functional(lambda w: 1. + 0. * w.x[0])
failures = 0


def try_refine(label, m, elem, arg):
    global failures
    measure0 = one.assemble(Basis(m, elem))
    try:
        M = m.refined(arg)
    except NotImplementedError:
        print("  %-22s NotImplementedError (acceptable)" % label)
        return
    msg = "returned %s with %d cells, doflocs %s" % (
        type(M).__name__, M.t.shape[1], M.doflocs.shape)
    try:
        measure = one.assemble(Basis(M, elem))
        ok = abs(measure - measure0) < 1e-12
        msg += "; measure %.6f (property: %.6f)" % (measure, measure0)
    except Exception as e:
        ok = False
        msg += "; unusable: %s: %s" % (type(e).__name__, e)
    print("  %-22s %s" % (label, msg))
    failures += not ok


m = MeshLine1DG.init_tensor(np.linspace(0, 1, 4), periodic=[0])
print("periodic line mesh, 3 cells, length",
      one.assemble(Basis(m, ElementLineP0())))
print("  cell corner points via the mesh's own map:",
      m.mapping().F(np.array([[0., 1.]]))[0].round(4).tolist())
try_refine("refined()", m, ElementLineP0(), 1)
try_refine("refined([0])", m, ElementLineP0(), np.array([0]))
print("  but the inherited refinement reads the corners as doflocs[0, t]:",
      m.doflocs[0, m.t].T.round(4).tolist())

m = MeshTri1DG.init_tensor(np.linspace(0, 1, 4), np.linspace(0, 1, 4),
                           periodic=[0])
print("periodic triangle mesh, %d cells, area" % m.t.shape[1],
      one.assemble(Basis(m, ElementTriP0())))
try_refine("refined()", m, ElementTriP0(), 1)
try_refine("refined([0])", m, ElementTriP0(), np.array([0]))

print()
if failures:
    print("FAIL: %d refinements returned a corrupt mesh without any error"
          % failures)
    sys.exit(1)
print("OK")
