"""C12-3: uniform refinement silently strips the orientation from named
*oriented* boundaries (OrientedBoundary), so the name designates other
entities (the traces / normals of the opposite side) afterwards.

An oriented boundary is what Mesh.facets_around(), Mesh.facets_satisfying(...,
normal=...) and the mesh file reader return for interior interfaces; it is a
set of (facet, side) pairs.  MeshTri1._uniform / MeshQuad1._uniform map the
facet indices to the children correctly but return a plain index array, and a
plain array means "side 0" for every facet.

C12: named boundaries cover the same set afterwards; where propagation is
unsupported the names are dropped with a warning rather than left designating
other entities.
"""
import sys
import io
import logging
import numpy as np
from skfem import (MeshTri, MeshQuad, FacetBasis, Functional, ElementTriP1,
                   ElementQuad1)
from skfem.helpers import dot

stream = io.StringIO()
logging.getLogger('skfem').addHandler(logging.StreamHandler(stream))


@Functional
def flux(w):
    # flux of the field F(x) = x through the boundary, with the normal of the
    # named (oriented) boundary
    return dot(w.x, w.n)


def core(x):
    return (x[0] > .25) * (x[0] < .75) * (x[1] > .25) * (x[1] < .75)


failures = 0
for cls, elem in ((MeshTri, ElementTriP1()), (MeshQuad, ElementQuad1())):
    m = cls().refined(2).with_subdomains({'core': core})
    m = m.with_boundaries({
        # closed interface around the subdomain, outward normal
        'around': m.facets_around('core'),
        # the interior line x = 1/2, normal pointing in the +x direction
        'cut': m.facets_satisfying(lambda x: np.isclose(x[0], .5),
                                   normal=np.array([1., 0.])),
    })
    # exact values: div F = 2, so the flux out of the core is 2 * area = 1/2;
    # through the line x = 1/2 with normal +x it is 1/2 * length = 1/2
    exact = {'around': .5, 'cut': .5}
    print(cls.__name__)
    for k in (1, 2):
        stream.truncate(0)
        stream.seek(0)
        M = m.refined(k)
        warned = 'boundaries invalidated' in stream.getvalue()
        for name in ('around', 'cut'):
            before = flux.assemble(FacetBasis(m, elem, facets=name))
            tag0 = m.boundaries[name]
            if M.boundaries is None or name not in M.boundaries:
                print(f"   k={k} '{name}': name dropped, warning issued: "
                      f"{warned}")
                if not warned:
                    failures += 1
                continue
            tag = M.boundaries[name]
            after = flux.assemble(FacetBasis(M, elem, facets=name))
            print(f"   k={k} '{name}': {type(tag0).__name__} with ori="
                  f"{tag0.ori.tolist()}")
            print(f"        -> {type(tag).__name__} with ori="
                  f"{getattr(tag, 'ori', None)}")
            print(f"        flux through it  before: {before:+.4f}   after: "
                  f"{after:+.4f}   demanded: {exact[name]:+.4f}")
            if not np.isclose(after, exact[name]):
                print("        -> VIOLATION")
                failures += 1

if failures:
    print(f"\n{failures} oriented named boundaries designate the wrong side "
          "after Mesh.refined(); no warning was given.")
    sys.exit(1)
print("\nall good")
