"""C20-3: the JAX variant of the divergence helper fails for H(div) elements
(and returns None for a scalar field on a 1-D mesh), whereas the NumPy variant
returns the divergence.

The property demands that the helpers "in both the NumPy and the JAX variants
equal their mathematical definitions pointwise and agree with each other".
"""
import sys
import numpy as np
import jax.numpy as jnp
from skfem import (MeshTri, MeshLine, Basis, ElementTriRT0, ElementTriP0,
                   ElementLineP2)
from skfem.autodiff import NonlinearForm, JaxDiscreteField
import skfem.autodiff.helpers as JH
import skfem.helpers as H

rng = np.random.default_rng(0)
bad = 0

# --- 1. pointwise comparison of the two variants on a Raviart-Thomas field
m = MeshTri().refined(1)
rt = Basis(m, ElementTriRT0())
s = rt.interpolate(rng.standard_normal(rt.N))           # NumPy DiscreteField
js = JaxDiscreteField(*(None if a is None else jnp.asarray(a)
                        for a in s.astuple))            # same field for JAX
d_np = H.div(s)
print("NumPy  helpers.div(RT0 field): shape", d_np.shape,
      " equals the element's own divergence:", np.allclose(d_np, s.div))
try:
    d_jax = np.asarray(JH.div(js))
    err = abs(d_jax - d_np).max()
    print("JAX    helpers.div(RT0 field): max difference to NumPy =", err)
    if err > 1e-12:
        bad += 1
except Exception as exc:
    print("JAX    helpers.div(RT0 field): raises",
          type(exc).__name__ + ":", exc)
    bad += 1

# --- 2. consequence: a nonlinear mixed (RT0 x P0) form cannot be assembled
basis = Basis(m, ElementTriRT0() * ElementTriP0())
x = rng.standard_normal(basis.N)


@NonlinearForm
def mixed_helper(s, u, t, v, w):
    return (1 + u ** 2) * JH.dot(s, t) + u * JH.div(t) + v * JH.div(s)


@NonlinearForm
def mixed_attr(s, u, t, v, w):          # same integrand, attribute access
    return (1 + u ** 2) * JH.dot(s, t) + u * t.div + v * s.div


J0, r0 = mixed_attr.assemble(basis, x=x)
try:
    J1, r1 = mixed_helper.assemble(basis, x=x)
    dJ, dr = abs(J0 - J1).max(), abs(r0 - r1).max()
    print(f"mixed form via div(): |dJ|={dJ:.2e} |dr|={dr:.2e}")
    if dJ > 1e-12 or dr > 1e-12:
        bad += 1
except Exception as exc:
    print("mixed form: spelled with s.div it assembles "
          f"(|J|max={abs(J0).max():.3f}); spelled with the helper div(s) it "
          f"raises {type(exc).__name__}: {exc}")
    bad += 1

# --- 3. informational: 1-D scalar field (NumPy: u', JAX: None)
b1 = Basis(MeshLine().refined(1), ElementLineP2())
u = b1.interpolate(rng.standard_normal(b1.N))
ju = JaxDiscreteField(*(None if a is None else jnp.asarray(a)
                        for a in u.astuple))
print("[info] 1-D scalar: NumPy div ->", type(H.div(u)).__name__,
      H.div(u).shape, "; JAX div ->", JH.div(ju))

if bad:
    print("FAIL: JAX div disagrees with NumPy div on H(div) fields")
    sys.exit(1)
print("OK")
