"""C18-4: MeshHex1.to_meshtet() returns a NON-CONFORMING tetrahedral mesh when
neighbouring hexahedra do not have the same local orientation.

Property C18: splitting hexahedra into simplices must give a valid mesh that
occupies the same point set with the same shared-vertex structure: two
hexahedra sharing a face must give tetrahedra sharing triangular faces, so the
boundary facets of the tetrahedral mesh cover exactly the boundary faces of the
hexahedral mesh (same total area, none of them in the interior).
"""
import sys
import numpy as np
from skfem import MeshHex, CellBasis, FacetBasis, ElementHex1, ElementTetP1


def volume(m, e):
    return float(CellBasis(m, e).dx.sum())


def check(label, hexmesh):
    tet = hexmesh.to_meshtet()
    area_hex = float(FacetBasis(hexmesh, ElementHex1()).dx.sum())
    area_tet = float(FacetBasis(tet, ElementTetP1()).dx.sum())
    bf = tet.boundary_facets()
    mid = tet.p[:, tet.facets[:, bf]].mean(axis=1)
    # the two cubes meet in the plane x = 0, which is interior
    interior = np.abs(mid[0]) < 1e-9
    print(f"[{label}]")
    print(f"  hex mesh valid: {hexmesh.is_valid()}, cells: "
          f"{hexmesh.nelements}, vertices: {hexmesh.nvertices}, "
          f"boundary faces: {len(hexmesh.boundary_facets())}")
    print(f"  volume hexes = {volume(hexmesh, ElementHex1()):.12f}, "
          f"volume tets = {volume(tet, ElementTetP1()):.12f}")
    print(f"  area of the boundary of the tet mesh: {area_tet:.12f} "
          f"(property demands {area_hex:.12f})")
    print(f"  boundary facets of the tet mesh: {len(bf)}, of which in the "
          f"interior plane x = 0: {int(interior.sum())} (property demands 0)")
    return abs(area_tet - area_hex) < 1e-9 and not interior.any()


cube = MeshHex()                                  # [0,1]^3

# control: the neighbour [-1,0]x[0,1]^2 as a translate
ok_control = check("control: cube + translated cube",
                   cube + cube.translated((-1., 0., 0.)))

# the same neighbour [-1,0]x[0,1]^2, obtained by rotating the cube by 90
# degrees about the z axis: (x, y, z) -> (-y, x, z)
rotated = cube.morphed(lambda p: -p[1], lambda p: p[0])
ok_rotated = check("cube + rotated cube", cube + rotated)

# the same mesh written down by hand
p = np.array([[0, 0, 0], [0, 0, 1], [0, 1, 0], [1, 0, 0],
              [0, 1, 1], [1, 0, 1], [1, 1, 0], [1, 1, 1],
              [-1, 0, 0], [-1, 0, 1], [-1, 1, 0], [-1, 1, 1]], dtype=float).T
t = np.array([[0, 1, 2, 3, 4, 5, 6, 7],
              # local axes of the 2nd cell: e1 = +y, e2 = -x, e3 = +z
              [0, 1, 8, 2, 9, 4, 10, 11]]).T
ok_byhand = check("two cells given explicitly", MeshHex(p, t))

if not ok_control:
    print("UNEXPECTED: control case fails")
    sys.exit(2)
if not (ok_rotated and ok_byhand):
    print("FAIL: to_meshtet() produced a non-conforming tetrahedral mesh: the "
          "two hexahedra split their common face along different diagonals.")
    sys.exit(1)
print("OK")
