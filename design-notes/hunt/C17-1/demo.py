"""C17-1: a MeshTri1 whose connectivity is not row-sorted (sort_t=False, e.g.
the result of MeshTri1.oriented()) does not survive save -> load.

Mesh.load() re-sorts every column of t and then decodes the named boundaries
(which are stored as one bit per LOCAL facet slot of each cell) against the
re-sorted local facet numbering, so the named boundaries come back as
DIFFERENT FACETS and with different owner cells - silently.
"""
import os
import sys
import tempfile
import logging

import numpy as np

from skfem import Mesh, MeshTri1
from skfem.generic_utils import OrientedBoundary

logging.disable(logging.WARNING)

# a perfectly ordinary mesh; oriented() flips the first two vertices of the
# clockwise triangles and therefore switches the automatic sorting of t off
m = MeshTri1().refined(2).oriented()
assert m.is_valid()
assert (m.orientation() == 1).all()

left = m.facets_satisfying(lambda x: x[0] == 0.)               # boundary facets
mid = m.facets_satisfying(lambda x: np.isclose(x[0], .5))      # interior facets
sub = m.elements_satisfying(lambda x: x[0] < .5)
iface = m.facets_around(sub)                                   # oriented
m = (m.with_boundaries({'left': left, 'mid': mid, 'iface': iface})
      .with_subdomains({'sub': sub}))


def owners(mesh, b):
    """{facet vertices: vertices of the owning cell} - numbering independent"""
    ori = getattr(b, 'ori', None)
    ori = np.zeros(len(b), dtype=int) if ori is None else np.asarray(ori)
    return {
        tuple(sorted(mesh.facets[:, f].tolist())):
        tuple(sorted(mesh.t[:, mesh.f2t[o, f]].tolist()))
        for f, o in zip(np.asarray(b).tolist(), ori.tolist())
    }


failures = []
tmp = tempfile.mkdtemp()
for suffix, kwargs in [('.vtk', {}),
                       ('.vtu', {}),
                       ('.msh', {'file_format': 'gmsh22'}),
                       ('.msh', {'file_format': 'gmsh'})]:
    fname = os.path.join(tmp, 'mesh' + suffix)
    m.save(fname, **kwargs)
    m2 = Mesh.load(fname)
    label = suffix + (' ' + kwargs['file_format'] if kwargs else '')
    print('---', label)
    same_t = np.array_equal(m.t, m2.t)
    print('connectivity t identical        :', same_t,
          '| loaded mesh positively oriented:',
          bool((m2.orientation() == 1).all()))
    for name in m.boundaries:
        exp = owners(m, m.boundaries[name])
        got = owners(m2, m2.boundaries[name])
        ok_set = set(exp) == set(got)
        ok_own = exp == got
        print('boundary %-6s saved facets %-28s loaded facets %-28s same set: %s, '
              'same owner cells: %s'
              % (name,
                 np.sort(np.asarray(m.boundaries[name]))[:6].tolist(),
                 np.sort(np.asarray(m2.boundaries[name]))[:6].tolist(),
                 ok_set, ok_own))
        if not ok_own:
            failures.append(label + ': boundary ' + name)
    ok_sub = set(m.subdomains['sub'].tolist()) == set(m2.subdomains['sub'].tolist())
    print('subdomain sub identical         :', ok_sub)
    if not ok_sub:
        failures.append(label + ': subdomain')

print()
print('The property demands identical tagged facet sets and orientations '
      '(owner cells) after the round trip.')
print('(The changed connectivity itself is the subject of C17-3; this demo '
      'only fails on the tags.)')
if failures:
    print('VIOLATED:', failures)
    sys.exit(1)
print('all round trips exact')
