"""C01-2: a coefficient vector of a DG-wrapped composite element is
interpolated to its FIRST component only.

``ElementDG(ElementTriP1() * ElementTriP0())`` is a two-component element: the
forms receive (u1, u2, v1, v2, w), the assembled matrix couples both
components.  Property C01: v^T A u = a(u_h, v_h), where u_h, v_h are the
finite element functions of the coefficient vectors - obtained either with
``basis.interpolate`` or by passing the coefficient vectors as extra keyword
arguments to ``Functional.assemble`` (both go through
``AbstractBasis.interpolate``).
"""
import sys
import numpy as np
from skfem import (MeshTri, ElementTriP1, ElementTriP0, ElementDG,
                   ElementComposite, CellBasis, BilinearForm, LinearForm,
                   Functional)

rng = np.random.default_rng(1)
m = MeshTri().refined(2)


def a(u1, u2, v1, v2, w):
    return u1 * v1 * w.x[0] + 3. * u2 * v2 + u1 * v2


def J(w):
    # w.uh, w.vh: tuples with one DiscreteField per component
    return a(w.uh[0], w.uh[1], w.vh[0], w.vh[1], w)


def run(elem, name):
    basis = CellBasis(m, elem)
    ncomp = len(basis.basis[0])
    u = rng.standard_normal(basis.N)
    v = rng.standard_normal(basis.N)
    A = BilinearForm(a).assemble(basis)
    uh = basis.interpolate(u)
    nret = len(uh) if isinstance(uh, tuple) else 1
    print('{}:'.format(name))
    print('   components seen by the forms: {},  '
          'components returned by interpolate: {}'.format(ncomp, nret))
    lhs = v @ A @ u
    try:
        rhs = Functional(J).assemble(basis, uh=u, vh=v)
    except Exception as exc:   # would be a loud failure
        rhs = np.nan
        print('   Functional raised', repr(exc))
    print('   v^T A u = {:.12f}   a(u_h, v_h) = {:.12f}'.format(lhs, rhs))
    return ncomp == nret and np.isclose(lhs, rhs, rtol=1e-10)


ok_ref = run(ElementComposite(ElementDG(ElementTriP1()),
                              ElementDG(ElementTriP0())),
             'reference  ElementDG(P1) * ElementDG(P0)')
ok_dg = run(ElementDG(ElementTriP1() * ElementTriP0()),
            'defect     ElementDG(P1 * P0)')

if not (ok_ref and ok_dg):
    print('FAIL: interpolation of the coefficient vector is inconsistent '
          'with the assembled matrix.')
    sys.exit(1)
print('PASS')
