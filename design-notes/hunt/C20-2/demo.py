"""C20-2: NonlinearForm rejects integrands that use reflected '+' or unary '-'
on the unknown / test function.

The property promises the exact Jacobian and the negative residual "for any
differentiable nonlinear integrand".  `(u + 1.0) * v` is accepted, but the
mathematically identical `(1.0 + u) * v` is not, and neither is `-u * v`
although `(0.0 - u) * v` is.  The NumPy sibling (BilinearForm / LinearForm with
DiscreteField arguments) accepts all of them.
"""
import sys
import numpy as np
from skfem import MeshTri, Basis, ElementTriP1, BilinearForm
from skfem.autodiff import NonlinearForm
from skfem.autodiff.helpers import dot, grad

m = MeshTri().refined(1)
basis = Basis(m, ElementTriP1())
x = np.random.default_rng(0).standard_normal(basis.N)

# pairs (accepted spelling, same integrand in another spelling)
pairs = {
    "reflected add  (1.0 + u)": (
        lambda u, v, w: (u + 1.0) ** 2 * dot(grad(u), grad(v)),
        lambda u, v, w: (1.0 + u) ** 2 * dot(grad(u), grad(v)),
    ),
    "reflected add  (w.x[0] + u)": (
        lambda u, v, w: (u + w.x[0]) * u * v,
        lambda u, v, w: (w.x[0] + u) * u * v,
    ),
    "unary minus  -u": (
        lambda u, v, w: (0.0 - u) * u * v,
        lambda u, v, w: -u * u * v,
    ),
    "unary minus on the test function  -v": (
        lambda u, v, w: u ** 3 * (0.0 - v),
        lambda u, v, w: u ** 3 * -v,
    ),
}

bad = 0
for name, (ok_form, other_form) in pairs.items():
    J0, r0 = NonlinearForm(ok_form).assemble(basis, x=x)
    try:
        J1, r1 = NonlinearForm(other_form).assemble(basis, x=x)
    except Exception as exc:
        print(f"{name}: reference spelling assembles (|J|max={abs(J0).max():.3f}), "
              f"this spelling raises {type(exc).__name__}: {exc}")
        bad += 1
        continue
    dJ, dr = abs(J0 - J1).max(), abs(r0 - r1).max()
    print(f"{name}: |dJ|={dJ:.2e} |dr|={dr:.2e}")
    if dJ > 1e-12 or dr > 1e-12:
        bad += 1

# the NumPy sibling has no such restriction
K = BilinearForm(lambda u, v, w: (1.0 + u) * -v).assemble(basis)
print("BilinearForm with '(1.0 + u) * -v' assembles fine, nnz =", K.nnz)

# informational only (same root cause, further missing operators)
for name, f in {"2.0 ** u": lambda u, v, w: 2.0 ** u * v,
                "+u": lambda u, v, w: +u * v,
                "v.grad[0] * u  (NumPy array on the left)":
                    lambda u, v, w: v.grad[0] * u}.items():
    try:
        NonlinearForm(f).assemble(basis, x=x)
        print(f"[info] {name}: ok")
    except Exception as exc:
        print(f"[info] {name}: {type(exc).__name__}: {exc}")

if bad:
    print(f"FAIL: {bad} admissible integrands are rejected")
    sys.exit(1)
print("OK")
