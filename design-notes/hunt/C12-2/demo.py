"""C12-2: MeshTet1._uniform picks the inner diagonal of the octahedron by its
length in the x-y plane only (the z-coordinate is ignored).

Each tetrahedron is split into 4 corner tetrahedra and an inner octahedron;
the octahedron is cut along one of its three diagonals.  The source says
"compute middle pyramid diagonal lengths and choose shortest" - that rule
(Zhang / Bey) is what keeps the family of refined meshes shape regular.  The
code measures the diagonals without the z-component, so a different diagonal
is taken in general and the cells flatten more and more at every further
refinement: the cell quality tends to zero, i.e. the cells degenerate under
repeated refinement, which C12 rules out ("no ... degenerate cells ...
including refinement applied repeatedly").
"""
import sys
import numpy as np
from skfem import MeshTet

failures = 0


def quality(m):
    """min over cells of volume / (longest edge)^3; 1 for the regular tet."""
    p, t = m.p, m.t
    B = np.stack([p[:, t[1]] - p[:, t[0]],
                  p[:, t[2]] - p[:, t[0]],
                  p[:, t[3]] - p[:, t[0]]]).transpose(2, 0, 1)
    vol = np.abs(np.linalg.det(B)) / 6.
    lengths = np.linalg.norm(p[:, m.edges[0]] - p[:, m.edges[1]], axis=0)
    h = lengths[m.t2e].max(axis=0)
    return (6. * np.sqrt(2.) * vol / h ** 3).min()


def chosen_diagonals(m):
    """For each cell of m: true 3-D lengths of the three octahedron diagonals
    and the one that m.refined() actually introduced as an edge."""
    M = m.refined()
    lookup = {tuple(np.round(x, 12)): i for i, x in enumerate(M.p.T)}
    edges = {tuple(e) for e in np.sort(M.edges, axis=0).T}
    out = []
    for cell in m.t.T:
        x = m.p[:, cell]
        mid = lambda i, j: .5 * (x[:, i] + x[:, j])
        # opposite edge pairs of the tetrahedron
        pairs = [((0, 1), (2, 3)), ((0, 2), (1, 3)), ((0, 3), (1, 2))]
        lengths, used = [], []
        for (a, b) in pairs:
            pa, pb = mid(*a), mid(*b)
            lengths.append(np.linalg.norm(pa - pb))
            ia = lookup[tuple(np.round(pa, 12))]
            ib = lookup[tuple(np.round(pb, 12))]
            used.append((min(ia, ib), max(ia, ib)) in edges)
        assert sum(used) == 1
        out.append((np.array(lengths), int(np.argmax(used))))
    return out


cases = {
    "single tetrahedron (0,0,0),(1,0,0),(0,1,0),(.3,.3,3)":
        MeshTet(np.array([[0., 0., 0.],
                          [1., 0., 0.],
                          [0., 1., 0.],
                          [.3, .3, 3.]]).T,
                np.array([[0, 1, 2, 3]]).T),
    "single generic tetrahedron":
        MeshTet(np.array([[.64, .81, .54],
                          [.27, .91, .94],
                          [.04, .61, .82],
                          [.02, .73, .00]]).T,
                np.array([[0, 1, 2, 3]]).T),
    "MeshTet() (unit cube, 5 cells)": MeshTet(),
}

for name, m in cases.items():
    print(name)

    # (a) is the octahedron cut along its shortest diagonal?
    #     (looked at in the first three refinement steps)
    wrong = total = 0
    M = m
    for level in range(3):
        for lengths, used in chosen_diagonals(M):
            total += 1
            if lengths[used] > lengths.min() * (1 + 1e-9):
                wrong += 1
                if wrong == 1:
                    print("   e.g. step", level + 1, "- diagonals of an "
                          "octahedron (true lengths):", np.round(lengths, 4),
                          "\n        -> cut along the one of length",
                          np.round(lengths[used], 4))
        M = M.refined()
    print(f"   cells cut along a diagonal that is not the shortest: {wrong}"
          f" of {total}   (demanded: 0)")

    # (b) shape regularity under repeated refinement
    nref = 6 if m.nelements == 1 else 4
    q = []
    M = m
    for k in range(nref + 1):
        q.append(quality(M))
        if k < nref:
            M = M.refined()
    print("   min cell quality after k = 0, 1, 2, ... refinements:")
    print("  ", np.round(q, 4))
    print("   demanded: bounded away from zero uniformly in k (with the "
          "shortest\n   diagonal the value does not change any more after "
          "the first step in\n   these examples); tested: last >= half of "
          "the value after one step")
    # generous: allow a loss of a factor two relative to the first refinement
    if wrong or q[-1] < .5 * q[1]:
        print("   -> VIOLATION")
        failures += 1
    else:
        print("   -> ok")

if failures:
    print(f"\n{failures} case(s): repeated uniform refinement of a "
          "tetrahedral mesh produces cells that degenerate.")
    sys.exit(1)
print("\nall good")
