"""C02-1: Basis.split / split_bases silently drop the integration domain.

A basis restricted to a tagged subdomain (CellBasis(..., elements=...)) or to a
set of facets (FacetBasis(..., facets=..., side=...)) with a vector or
composite element is split into per-component bases with ``basis.split(x)``.
The component bases are documented as "Basis objects for the solution
components", i.e. they must integrate over the same cells / facets as their
parent.  Instead they silently cover the whole mesh (CellBasis), all boundary
facets (FacetBasis) or all interior facets with side=0 (InteriorFacetBasis),
so functionals of polynomial data evaluated with them return the integral over
the wrong domain.
"""
import sys
import numpy as np
from skfem import (MeshTri, Basis, FacetBasis, InteriorFacetBasis,
                   ElementVector, ElementTriP1, ElementTriP2, Functional)

m = (MeshTri().refined(2)
     .with_subdomains({'left': lambda x: x[0] < .5})
     .with_boundaries({'bottom': lambda x: x[1] == 0.}))
mid = m.facets_satisfying(lambda x: x[0] == .5)          # interior facets

comp = Functional(lambda w: w['u'])                       # int u_h
failures = 0


def check(label, got, expected):
    global failures
    ok = abs(got - expected) < 1e-12
    failures += (not ok)
    print("  {:55s} got {:.12f}  exact {:.12f}  {}".format(
        label, got, expected, "ok" if ok else "WRONG"))


# --- vector P1 field (x, y) on the subdomain {x < 1/2} ----------------------
ev = ElementVector(ElementTriP1())
basis = Basis(m, ev, elements='left')
x = basis.zeros()
x[basis.nodal_dofs[0]] = m.p[0]          # first component  = x  (degree 1)
x[basis.nodal_dofs[1]] = m.p[1]          # second component = y
(u1, b1), (u2, b2) = basis.split(x)
print("CellBasis(elements='left'), {} cells; component basis has {} cells"
      .format(basis.nelems, b1.nelems))
check("int_{x<1/2} x dx  via split component basis",
      comp.assemble(b1, u=u1), 1. / 8)
check("int_{x<1/2} y dx  via split component basis",
      comp.assemble(b2, u=u2), 1. / 4)

# --- composite P2 x P1 field on the same subdomain ---------------------------
ec = ElementTriP2() * ElementTriP1()
cbasis = Basis(m, ec, elements='left')
(v1, c1), (v2, c2) = cbasis.split(cbasis.ones())
print("composite basis, {} cells; component basis has {} cells"
      .format(cbasis.nelems, c1.nelems))
check("int_{x<1/2} 1 dx  via split component (composite elem)",
      comp.assemble(c1, u=v1), 1. / 2)

# --- facet basis on one named boundary ---------------------------------------
fbasis = FacetBasis(m, ev, facets='bottom')
(u1, f1), (u2, f2) = fbasis.split(x)
print("FacetBasis(facets='bottom'), {} facets; component basis has {} facets"
      .format(fbasis.nelems, f1.nelems))
check("int_{y=0} x ds  via split component basis",
      comp.assemble(f1, u=u1), 1. / 2)

# --- interior facet basis, side=1 ---------------------------------------------
ibasis = InteriorFacetBasis(m, ev, facets=mid, side=1)
(u1, i1), (u2, i2) = ibasis.split(x)
print("InteriorFacetBasis(facets=mid, side=1), {} facets; component basis has "
      "{} facets, side={}".format(ibasis.nelems, i1.nelems, i1.side))
check("int_{x=1/2} y ds  via split component basis",
      comp.assemble(i1, u=u2), 1. / 2)

# siblings that do forward the restriction, for comparison
print("with_element keeps the restriction: {} cells, {} facets".format(
    basis.with_element(ElementTriP1()).nelems,
    fbasis.with_element(ElementTriP1()).nelems))

if failures:
    print("FAIL: {} functionals were integrated over the wrong domain"
          .format(failures))
    sys.exit(1)
print("PASS")
