"""C13-2: adaptive refinement of a small, valid tetrahedral mesh raises
ValueError because the closure needs more cells than the fixed-size work
arrays of MeshTet1._adaptive can hold (8 x the number of cells).

The mesh below is the Delaunay triangulation of 7 points with integer
coordinates (4 non-degenerate tetrahedra, conforming, volume 4).  Marking
cell 0 is an admissible request; longest-edge bisection with conforming
closure terminates after 8 sweeps with 36 cells and 19 vertices - but
36 > 8 * 4, so the library dies in the middle of the closure loop.

The property (C13) promises a conforming refined mesh for ANY marked set.
"""
import sys
import numpy as np
from skfem import MeshTet

p = np.array([[0., 1., 1., 1., 1., 1., 1.],
              [4., 2., 1., 2., 0., 2., 2.],
              [12., 13., 14., 2., 13., 3., 4.]])
t = np.array([[2, 6, 5, 5],
              [4, 4, 3, 6],
              [1, 1, 4, 4],
              [0, 0, 0, 0]], dtype=np.int32)


def volumes(m):
    a, b, c = (m.p[:, m.t[i]] - m.p[:, m.t[0]] for i in (1, 2, 3))
    return np.abs(np.einsum('ij,ij->j', a, np.cross(b.T, c.T).T)) / 6.


def one_sided_area(m):
    count = np.bincount(m.t2f.flatten(), minlength=m.facets.shape[1])
    f = m.facets[:, count == 1]
    a = m.p[:, f[1]] - m.p[:, f[0]]
    b = m.p[:, f[2]] - m.p[:, f[0]]
    return .5 * np.linalg.norm(np.cross(a.T, b.T), axis=1).sum()


m = MeshTet(p, t)
print("input mesh: %d vertices, %d cells, cell volumes %s" %
      (m.p.shape[1], m.t.shape[1], volumes(m)))
print("input mesh valid:", m.is_valid(),
      "; facet incidences <= 2:",
      np.bincount(m.t2f.flatten()).max() <= 2)

failures = 0
for k in range(m.t.shape[1]):
    try:
        M = m.refined(np.array([k], dtype=np.int32))
    except Exception as e:
        failures += 1
        print("marked [%d]: refined() raised %s: %s" %
              (k, type(e).__name__, e))
        continue
    ok = (abs(volumes(M).sum() - volumes(m).sum()) < 1e-9
          and abs(one_sided_area(M) - one_sided_area(m)) < 1e-9)
    print("marked [%d]: %d cells, %d vertices, volume and surface kept: %s"
          % (k, M.t.shape[1], M.p.shape[1], ok))
    if not ok:
        failures += 1

print()
print("property: every marked set gives a conforming refined mesh")
if failures:
    print("FAIL: %d of %d single-cell marked sets gave no valid result"
          % (failures, m.t.shape[1]))
    sys.exit(1)
print("OK")
