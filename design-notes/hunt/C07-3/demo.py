"""C07-3: the DOF query is unusable on a basis created with the documented
option ``disable_doflocs=True`` - every index/predicate/tag/cell/vertex form
raises AttributeError although DOF locations are not needed to answer it.

Uses only the public API.  Exits 1 on the unmodified library.
"""
import sys
import numpy as np
from skfem import (CellBasis, FacetBasis, InteriorFacetBasis, ElementTriMorley,
                   MeshTri)

m = (MeshTri.init_tensor(np.linspace(0, 1, 4), np.linspace(0, 2, 3))
     .with_boundaries({'left': lambda x: np.isclose(x[0], 0.)})
     .with_subdomains({'low': lambda x: x[1] < 1.}))
elem = ElementTriMorley()

queries = {
    "get_dofs()": lambda b: b.get_dofs(),
    "get_dofs(index array)": lambda b: b.get_dofs(np.array([0, 3])),
    "get_dofs(predicate)": lambda b: b.get_dofs(lambda x: x[0] == 0.),
    "get_dofs('left')": lambda b: b.get_dofs('left'),
    "get_dofs({'left'}, skip=['u_n'])": lambda b: b.get_dofs({'left'}, skip=['u_n']),
    "get_dofs(elements='low')": lambda b: b.get_dofs(elements='low'),
    "get_dofs(nodes=array)": lambda b: b.get_dofs(nodes=np.array([0, 1])),
    "complement_dofs(get_dofs())": lambda b: b.complement_dofs(b.get_dofs()),
}

fail = False
for cls in (CellBasis, FacetBasis, InteriorFacetBasis):
    ref = cls(m, elem)                          # default: doflocs computed
    lean = cls(m, elem, disable_doflocs=True)   # documented memory saver
    assert ref.N == lean.N
    assert np.array_equal(ref.element_dofs, lean.element_dofs)
    print(cls.__name__)
    for label, q in queries.items():
        expected = np.asarray(q(ref))
        try:
            got = np.asarray(q(lean))
            ok = np.array_equal(got, expected)
            msg = "got {}".format(got)
        except Exception as e:
            ok = False
            msg = "raised {!r}".format(e)
        print("  {:<32s} expected {} ; {} -> {}".format(
            label, expected, msg, "ok" if ok else "WRONG"))
        fail |= not ok

if fail:
    print("FAIL: the DOF query does not work with disable_doflocs=True "
          "although the numbering is identical")
    sys.exit(1)
print("OK")
