"""C18-1: MeshWedge1.to_meshtet() returns a NON-CONFORMING tetrahedral mesh
when the prisms come from extruding a triangle mesh whose connectivity is not
sorted (e.g. the result of the public MeshTri.oriented()).

Property C18: splitting prisms into simplices must produce a valid mesh whose
cells occupy the same point set and have the same shared-vertex structure:
two prisms sharing a quadrilateral face must give tetrahedra sharing
triangular faces, i.e. the only boundary facets of the tetrahedral mesh are
the ones on the boundary of the prism mesh.
"""
import sys
import numpy as np
from skfem import MeshTri, MeshLine, CellBasis, ElementTetP1, ElementWedge1


def volume(m, e):
    return float(CellBasis(m, e).dx.sum())


def check(label, tri):
    wedge = tri * MeshLine(np.linspace(0., 1., 3))      # extrude: unit cube
    tet = wedge.to_meshtet()

    bf = tet.boundary_facets()
    mid = tet.p[:, tet.facets[:, bf]].mean(axis=1)
    # facets the tet mesh regards as boundary but which lie strictly inside
    # the unit cube
    inside = (mid.min(axis=0) > 1e-9) & (mid.max(axis=0) < 1. - 1e-9)

    # every prism boundary face gives 1 (triangle) or 2 (quad) tet facets
    wf = wedge.facets[:, wedge.boundary_facets()]
    # triangular faces are stored with one vertex repeated
    is_tri = np.array([len(set(c)) == 3 for c in wf.T])
    expected_nbf = int(is_tri.sum() + 2 * (~is_tri).sum())

    print(f"[{label}]")
    print(f"  triangle mesh: sort_t={tri.sort_t}, orientations="
          f"{np.unique(tri.orientation()).tolist()}")
    print(f"  volume prisms = {volume(wedge, ElementWedge1()):.12f}, "
          f"volume tets = {volume(tet, ElementTetP1()):.12f}")
    print(f"  boundary facets of tet mesh : {len(bf)} "
          f"(property demands {expected_nbf})")
    print(f"  'boundary' facets strictly inside the cube: {int(inside.sum())} "
          f"(property demands 0)")
    return len(bf) == expected_nbf and not inside.any()


base = MeshTri().refined(2)

ok_control = check("control: default (sorted) triangle mesh", base)
ok_oriented = check("MeshTri.oriented() (all triangles CCW)", base.oriented())

if not ok_control:
    print("UNEXPECTED: control case fails")
    sys.exit(2)
if not ok_oriented:
    print("FAIL: to_meshtet() produced a non-conforming tetrahedral mesh: "
          "neighbouring prisms split their common quadrilateral face along "
          "different diagonals.")
    sys.exit(1)
print("OK")
