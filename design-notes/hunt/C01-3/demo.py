"""C01-3: the third-order Nedelec element ElementTriN3 cannot be used with any
facet basis (nor with element-wise quadrature points).

Property C01 promises, for all H(curl) elements and all four basis kinds,
b^T v = l(v_h) and s = J.  For ElementTriN3 the boundary / interior-facet bases
cannot even be constructed.  If they could, the following must hold for a
random coefficient vector x with the finite element function u_h:

  (i)   b^T x = l(u_h)            LinearForm vs. Functional on the FacetBasis,
        l(v) = int_{dOmega} v . t ds,  t = (-n_y, n_x)
  (ii)  int_Omega curl u_h dx = int_{dOmega} u_h . t ds      (Stokes; u_h is
        H(curl)-conforming so this is exact for the discrete function)
  (iii) the tangential traces from side 0 and side 1 of the interior facets
        agree.
"""
import sys
import numpy as np
from skfem import (MeshTri, ElementTriN1, ElementTriN2, ElementTriN3,
                   CellBasis, FacetBasis, InteriorFacetBasis, LinearForm,
                   Functional)

m = MeshTri.init_sqsymmetric().refined(1)
p = m.p.copy()
I = m.interior_nodes()
p[:, I] += 0.03 * np.random.default_rng(0).standard_normal((2, len(I)))
m = MeshTri(p, m.t)
rng = np.random.default_rng(1)


def tang(u, n):
    return -u[0] * n[1] + u[1] * n[0]


failed = False
for elem in (ElementTriN1(), ElementTriN2(), ElementTriN3()):
    name = type(elem).__name__
    cb = CellBasis(m, elem, intorder=8)
    x = rng.standard_normal(cb.N)
    try:
        fb = FacetBasis(m, elem, intorder=8)
        ib0 = InteriorFacetBasis(m, elem, intorder=8, side=0)
        ib1 = InteriorFacetBasis(m, elem, intorder=8, side=1)
    except Exception as exc:
        print('{}: facet bases cannot be constructed: {!r}'.format(name, exc))
        failed = True
        continue
    b = LinearForm(lambda v, w: tang(v, w.n)).assemble(fb)
    s = Functional(lambda w: tang(w.u, w.n)).assemble(fb, u=x)
    c = Functional(lambda w: w.u.curl).assemble(cb, u=x)
    jump = np.abs(tang(ib0.interpolate(x), ib0.normals)
                  - tang(ib1.interpolate(x), ib1.normals)).max()
    print('{}: b^T x = {:.12f}  l(u_h) = {:.12f}  int curl u_h = {:.12f}  '
          'max tangential jump = {:.2e}'.format(name, b @ x, s, c, jump))
    if not (np.isclose(b @ x, s) and np.isclose(s, c) and jump < 1e-9):
        failed = True

if failed:
    print('FAIL')
    sys.exit(1)
print('PASS')
