"""C15-1: FacetBasis on an oriented set of *exterior* facets reads heap garbage.

``Mesh.facets_satisfying(test, normal=n)`` (and ``Mesh.facets_around(...,
flip=True)``) happily return an ``OrientedBoundary`` with ``ori == 1`` for
facets that lie on the boundary of the domain, i.e. facets that have no
second cell (``mesh.f2t[1] == -1``).  ``FacetBasis`` then

* uses ``f2t[1, facet] == -1`` as a *cell index* (NumPy wraps it to the last
  cell of the mesh), and
* ``MappingAffine.normals`` fills an ``np.empty`` array only where the facet
  really belongs to that cell - everything else stays UNINITIALISED and is
  returned to the caller as the "normal vector".

So ``FacetBasis(...).normals`` (and every ``w.n`` handed to a form) is not a
function of the arguments: it is whatever the allocator left in that block,
i.e. it depends on what was computed before.

Property C15 demands: the same call on the same (unchanged) objects returns
the same, well-defined result regardless of the operations run before it.
"""
import sys
import numpy as np
from skfem import MeshTri, FacetBasis, ElementTriP1

m = MeshTri().refined(7).with_defaults()
e = ElementTriP1()

# the left edge x = 0 of the unit square, oriented by the direction (+1, 0)
left = m.facets_satisfying(lambda x: x[0] == 0., normal=np.array([1., 0.]))
print("facets on x = 0            :", len(left))
print("orientation flags (unique)  :", np.unique(left.ori))
print("second cell of those facets :", np.unique(m.f2t[1, left]),
      "(-1 means: there is no such cell)")


def build():
    try:
        fb = FacetBasis(m, e, facets=left)
    except (ValueError, IndexError) as exc:
        # an explicit rejection of the impossible orientation would also
        # be a repair: loud instead of silent garbage
        print("FacetBasis refused the input:", repr(exc))
        sys.exit(0)
    return fb, np.array(fb.normals)[:, :, 0].copy()


problems = []

# history 1: nothing else has been done with the mesh
fb1, n1 = build()
# history 2: some unrelated, perfectly valid work on the same shared objects
for name in ('top', 'bottom', 'right'):
    FacetBasis(m, e, facets=name)
fb2, n2 = build()
# history 3: once more, after other work
junk = [np.random.RandomState(k).rand(2, len(left)) for k in range(20)]
del junk
fb3, n3 = build()

print("cells used for the traces   :", np.unique(fb1.tind))
owner_ok = (m.t2f[:, fb1.tind] == np.asarray(left)).any(axis=0)
if not owner_ok.all():
    problems.append("%d of %d facets are evaluated in a cell they do not "
                    "belong to" % ((~owner_ok).sum(), len(left)))

print("normals, first 4 facets, history 1:\n", n1[:, :4])
print("normals, first 4 facets, history 2:\n", n2[:, :4])
print("normals, first 4 facets, history 3:\n", n3[:, :4])

same12 = np.array_equal(n1, n2, equal_nan=True)
same13 = np.array_equal(n1, n3, equal_nan=True)
print("history 1 == history 2 :", same12)
print("history 1 == history 3 :", same13)
if not (same12 and same13):
    problems.append("the same FacetBasis call returned different normals "
                    "after unrelated operations")

# whatever orientation is chosen, a normal of the edge x = 0 is (+-1, 0)
valid = (np.isfinite(n1).all()
         and np.allclose(np.abs(n1[0]), 1.)
         and np.allclose(n1[1], 0.))
print("normals are +-(1, 0) as the geometry demands:", bool(valid))
if not valid:
    problems.append("normals are not the unit normals of the facets "
                    "(uninitialised memory)")

if problems:
    print("\nDEFECT:")
    for p in problems:
        print("  -", p)
    sys.exit(1)
print("\nOK: result is well defined and independent of the history")
