"""C19-2: Basis.split()/split_bases() forget on which cells / facets / side
the basis lives.

Property: splitting a coefficient vector into components and interpolating
each component with the basis returned by split() equals interpolating the
whole vector - for every basis, in particular for bases restricted to a cell
subset, to a facet subset, or taken from side 1 of the interior facets.
"""
import sys
import numpy as np
from skfem import (MeshTri, Basis, FacetBasis, InteriorFacetBasis,
                   ElementTriP1, ElementTriP2, ElementTriP0, ElementDG,
                   ElementVector, Functional)

m = MeshTri.init_sqsymmetric().refined(2)
rng = np.random.default_rng(0)
fail = []


def compare(B, name):
    print("==", name)
    x = rng.standard_normal(B.N)
    whole = B.interpolate(x)
    if not isinstance(whole, tuple):       # ElementVector: one vector field
        whole = tuple(type(whole)(np.asarray(whole)[k], whole.grad[k])
                      for k in range(np.asarray(whole).shape[0]))
    for k, (xk, Bk) in enumerate(B.split(x)):
        part = Bk.interpolate(xk)
        a, b = np.asarray(whole[k]), np.asarray(part)
        if a.shape != b.shape:
            print("  component {}: whole has (cells/facets, qp) = {}, the "
                  "split basis gives {}".format(k, a.shape, b.shape))
            fail.append("{}: component {} lives on a different set"
                        .format(name, k))
            continue
        dv = abs(a - b).max()
        dg = abs(whole[k].grad - part.grad).max()
        print("  component {}: |value diff| = {:.2e}   |grad diff| = {:.2e}"
              "   (property demands 0)".format(k, dv, dg))
        if max(dv, dg) > 1e-10:
            fail.append("{}: component {} differs".format(name, k))


e = ElementDG(ElementTriP2()) * ElementTriP0() * ElementTriP1()

# control: the default bases are fine
compare(Basis(m, e), "CellBasis, all cells")
compare(InteriorFacetBasis(m, e, side=0), "InteriorFacetBasis, side=0")

# 1. the other side of the interior facets: same shapes, wrong numbers
compare(InteriorFacetBasis(m, e, side=1), "InteriorFacetBasis, side=1")
compare(InteriorFacetBasis(m, ElementVector(ElementTriP2()), side=1),
        "InteriorFacetBasis, ElementVector, side=1")

# 2. a cell subset (partition of the mesh into two parts)
half = m.elements_satisfying(lambda x: x[0] < .5)
compare(Basis(m, e, elements=half), "CellBasis, elements = left half")

# 3. a facet subset
left = m.facets_satisfying(lambda x: x[0] == 0.)
compare(FacetBasis(m, e, facets=left), "FacetBasis, facets = left boundary")

# consequence: the jump of a split component over the interior facets
fb = [InteriorFacetBasis(m, e, side=s) for s in (0, 1)]
x = rng.standard_normal(fb[0].N)
jump_whole = Functional(lambda w: (w['a'] - w['b']) ** 2).assemble(
    fb[0], a=fb[0].interpolate(x)[0], b=fb[1].interpolate(x)[0])
(x0, b0), _, _ = fb[0].split(x)
(x1, b1), _, _ = fb[1].split(x)
jump_split = Functional(lambda w: (w['a'] - w['b']) ** 2).assemble(
    b0, a=b0.interpolate(x0), b=b1.interpolate(x1))
print("== jump of the (discontinuous) first component over interior facets")
print("  via whole bases: {:.6f}   via split bases: {:.6f}"
      "   (property demands equality)".format(jump_whole, jump_split))
if abs(jump_whole - jump_split) > 1e-10:
    fail.append("jump computed from split bases is wrong")

print()
if fail:
    print("FAIL:")
    for f in fail:
        print("  -", f)
    sys.exit(1)
print("OK")
