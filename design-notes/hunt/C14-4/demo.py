"""C14-4: probes / interpolator / point_source raise "Newton iteration didn't
converge up to TOL=1e-12" on quadrilateral / hexahedral meshes whose cells are
small compared with the size of the coordinates (graded wall layers at y = 1,
meshes that are not located at the origin), although every cell is a perfect
rectangle / cube.  The same points on the sibling triangle mesh are fine.
"""
import sys
import numpy as np
from skfem import (MeshQuad, MeshHex, MeshTri, CellBasis, ElementQuad1,
                   ElementHex1, ElementTriP1)

failed = False


def grid_points(lo, hi, n):
    """Deterministic interior points."""
    s = (np.arange(n) + 0.37) / n
    return lo + (hi - lo) * s


def run(label, basis, y, x, expected):
    global failed
    try:
        v = basis.interpolator(y)(x)
        err = np.abs(v - expected).max()
        print("   %-46s max error %.2e" % (label, err))
        if err > 1e-8:
            failed = True
    except Exception as e:
        print("   %-46s RAISES %s: %s" % (label, type(e).__name__, e))
        failed = True


# ------------------------------------------------------------------ part A
# channel mesh on the unit square, graded towards both walls y = 0 and y = 1,
# first cell height 1e-4 (rectangular cells, aspect ratio 1000)
half = np.concatenate(([0.], np.geomspace(1e-4, 0.5, 12)))
ys = np.concatenate((half, 1. - half[::-1][1:]))
xs = np.linspace(0, 1, 11)
mq = MeshQuad.init_tensor(xs, ys)
bq = CellBasis(mq, ElementQuad1())
yq = bq.doflocs[0] + 2. * bq.doflocs[1]                 # u_h = x + 2y
px = grid_points(0., 1., 40)
lower = np.vstack((px, 1e-4 * grid_points(0., 1., 40)))        # in the wall cells at y=0
upper = np.vstack((px, 1. - 1e-4 * grid_points(0., 1., 40)))   # in the wall cells at y=1
print("A) graded channel mesh, MeshQuad.init_tensor, %d cells" % mq.nelements)
run("quad, points in the wall layer at y = 0", bq, yq, lower, lower[0] + 2 * lower[1])
run("quad, points in the wall layer at y = 1", bq, yq, upper, upper[0] + 2 * upper[1])
mt = mq.to_meshtri()
bt = CellBasis(mt, ElementTriP1())
yt = bt.doflocs[0] + 2. * bt.doflocs[1]
run("same mesh split into triangles, layer at y = 1", bt, yt, upper, upper[0] + 2 * upper[1])

# ------------------------------------------------------------------ part B
# uniform meshes of a unit square / cube that is not located at the origin
print("B) uniform meshes of [s, s+1]^d")
for s in [0., 1000.]:
    m = MeshQuad().refined(4).translated((s, s))
    b = CellBasis(m, ElementQuad1())
    y = b.doflocs[0] - s + 2. * (b.doflocs[1] - s)
    g = grid_points(s, s + 1., 23)
    x = np.array(np.meshgrid(g, g)).reshape(2, -1)
    run("MeshQuad().refined(4), s = %g" % s, b, y, x, x[0] - s + 2 * (x[1] - s))
for s in [0., 1000.]:
    m = MeshHex().refined(2).translated((s, s, s))
    b = CellBasis(m, ElementHex1())
    y = b.doflocs[0] - s + 2. * (b.doflocs[1] - s) - (b.doflocs[2] - s)
    g = grid_points(s, s + 1., 7)
    x = np.array(np.meshgrid(g, g, g)).reshape(3, -1)
    run("MeshHex().refined(2), s = %g" % s, b, y, x,
        x[0] - s + 2 * (x[1] - s) - (x[2] - s))
m = MeshTri().refined(4).translated((1000., 1000.))
b = CellBasis(m, ElementTriP1())
y = b.doflocs[0] - 1000. + 2. * (b.doflocs[1] - 1000.)
g = grid_points(1000., 1001., 23)
x = np.array(np.meshgrid(g, g)).reshape(2, -1)
run("MeshTri().refined(4), s = 1000", b, y, x, x[0] - 1000. + 2 * (x[1] - 1000.))

if failed:
    print("\nFAIL: property C14 violated (no value for points of the domain)")
    sys.exit(1)
print("\nOK")
