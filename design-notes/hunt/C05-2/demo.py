"""C05-2: condense() double counts the prescribed value of a constrained
index that is listed twice in the index array D.

Property: "For any square sparse system (A, b), any split of the indices
into kept and constrained sets (given as ... index arrays, DOF views or
dictionaries of views) and any prescribed values x, solving the condensed
system and expanding returns a vector equal to x on the constrained indices
that satisfies the original equations on the kept ones."
"""
import sys

import numpy as np

from skfem import (MeshQuad, Basis, ElementQuad1, BilinearForm, condense,
                   enforce, solve)
from skfem.helpers import dot, grad

m = MeshQuad().refined(2).with_boundaries({
    'left': lambda x: x[0] == 0,
    'bottom': lambda x: x[1] == 0,
    'right': lambda x: x[0] == 1,
    'top': lambda x: x[1] == 1,
})
basis = Basis(m, ElementQuad1())


@BilinearForm
def laplace(u, v, _):
    return dot(grad(u), grad(v))


A = laplace.assemble(basis)
b = np.zeros(basis.N)

# inhomogeneous Dirichlet data: u = 1 + x + 2 y on the whole boundary.
# This function is in the FE space and harmonic, hence it is the exact
# discrete solution: A u = 0 on all interior rows.
x = 1. + basis.doflocs[0] + 2. * basis.doflocs[1]

sides = {k: basis.get_dofs(k) for k in ('left', 'bottom', 'right', 'top')}

# three ways of passing the very same constrained set
D_dict = sides                                              # dict of views
D_view = basis.get_dofs()                                   # one view
D_arr = np.hstack([sides[k].flatten() for k in sides])      # index array
# (the four corner DOFs belong to two sides each -> listed twice in D_arr)
print("len(D_arr) =", len(D_arr), " distinct =", len(np.unique(D_arr)))
assert set(D_arr) == set(D_view.flatten())

I = basis.complement_dofs(D_view)
bad = []
for name, D in (('dict of views', D_dict),
                ('single view', D_view),
                ('index array (hstack of the four sides)', D_arr)):
    u = solve(*condense(A, b, x=x, D=D))
    res = np.abs((A @ u - b)[I]).max()
    err = np.abs(u - x).max()
    print(f"condense, D as {name}:")
    print(f"   u[D]==x[D]: {np.allclose(u[D_arr], x[D_arr])},"
          f"  max|(Au-b)[I]| = {res:.3e},  max|u - u_exact| = {err:.3e}"
          "   (property demands ~0)")
    if res > 1e-10:
        bad.append(name)

u = solve(*enforce(A, b, x=x, D=D_arr))
print(f"enforce with the same index array:  max|(Au-b)[I]| = "
      f"{np.abs((A @ u - b)[I]).max():.3e}")

if bad:
    print("FAIL: condensed system is wrong for D given as:", bad)
    sys.exit(1)
print("PASS")
