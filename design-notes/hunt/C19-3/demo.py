"""C19-3: COOData.dot (matrix-vector product of elemental data) is not
consistent with the assembled matrix.

Property: for elemental data `coo = form.elemental(...)`, `coo.dot(x)` equals
`coo.tocsr() @ x` (= `form.assemble(...) @ x`), for integer / real / complex
data and for rectangular (trial basis != test basis) forms.
"""
import sys
import warnings
import numpy as np
from skfem import (MeshTri, Basis, ElementTriP1, ElementTriP2, ElementVector,
                   BilinearForm)
from skfem.helpers import div, dot, grad

m = MeshTri.init_sqsymmetric().refined(1)
fail = []


def report(name, got, want):
    got = np.asarray(got)
    print("==", name)
    print("  coo.dot(x)      : shape {}, dtype {}".format(got.shape,
                                                           got.dtype))
    print("  coo.tocsr() @ x : shape {}, dtype {}".format(want.shape,
                                                           want.dtype))
    if got.shape != want.shape:
        print("  -> wrong length")
        fail.append(name + ": wrong length")
        return
    err = abs(got - want).max()
    print("  max difference  : {:.3e}   (|A x|_max = {:.3e}; property "
          "demands round-off)".format(err, abs(want).max()))
    if err > 1e-12 * (1 + abs(want).max()):
        fail.append(name + ": wrong values")


def attempt(name, coo, x):
    want = coo.tocsr() @ x
    try:
        with warnings.catch_warnings():
            warnings.simplefilter('ignore')     # ComplexWarning
            got = coo.dot(x)
    except Exception as e:
        print("==", name)
        print("  coo.dot(x) raised {!r}".format(e))
        print("  coo.tocsr() @ x : shape {}".format(want.shape))
        fail.append(name + ": exception")
        return
    report(name, got, want)


basis = Basis(m, ElementTriP2())
laplace = BilinearForm(lambda u, v, w: dot(grad(u), grad(v)) + u * v)
K = laplace.elemental(basis)

# control
attempt("square, float64 x", K,
        np.random.default_rng(0).standard_normal(basis.N))

# 1. integer coefficient vector, e.g. an indicator / np.arange
attempt("square, integer x (np.arange)", K, np.arange(basis.N))

# 2. complex elemental data, real x
helm = BilinearForm(lambda u, v, w: dot(grad(u), grad(v)) - 3j * u * v,
                    dtype=np.complex128)
attempt("square, complex form, real x", helm.elemental(basis),
        np.random.default_rng(1).standard_normal(basis.N))

# 3. rectangular: divergence block of Stokes, trial = velocity (P2^2),
#    test = pressure (P1)
bu = Basis(m, ElementVector(ElementTriP2()), intorder=4)
bp = Basis(m, ElementTriP1(), intorder=4)
divform = BilinearForm(lambda u, q, w: div(u) * q)
B = divform.elemental(bu, bp)            # shape (bp.N, bu.N) = (25, 162)
attempt("rectangular B (25 x 162), x in velocity space", B,
        np.random.default_rng(2).standard_normal(bu.N))
Bt = BilinearForm(lambda p, v, w: div(v) * p).elemental(bp, bu)  # (162 x 25)
attempt("rectangular B^T (162 x 25), x in pressure space", Bt,
        np.random.default_rng(3).standard_normal(bp.N))

print()
if fail:
    print("FAIL:")
    for f in fail:
        print("  -", f)
    sys.exit(1)
print("OK")
