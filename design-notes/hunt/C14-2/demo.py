"""C14-2: MeshLine1.element_finder returns a cell that does not contain the
point when the query array has an integer dtype and contains the right end
point of the mesh; probes / interpolator then silently extrapolate the local
expansion of that wrong cell.
"""
import sys
import numpy as np
from skfem import (MeshLine, MeshTri, MeshQuad, CellBasis, ElementLineP1,
                   ElementLineP2, ElementTriP1, ElementQuad1)

failed = False

m = MeshLine(np.linspace(0, 1, 5))          # cells [0,.25] [.25,.5] [.5,.75] [.75,1]
finder = m.element_finder()

xf = np.array([0., 1.])                      # the two end points, float
xi = np.array([0, 1])                        # the same two points, integer
cf = finder(xf)
ci = finder(xi)
print("vertices of the mesh         :", m.p[0])
print("cells for float [0., 1.]     :", cf, "-> cell vertices",
      m.p[0, m.t[:, cf]].T.tolist())
print("cells for integer [0, 1]     :", ci, "-> cell vertices",
      m.p[0, m.t[:, ci]].T.tolist())
lo = m.p[0, m.t[:, ci]].min(axis=0)
hi = m.p[0, m.t[:, ci]].max(axis=0)
contains = (lo <= xi) & (xi <= hi)
print("returned cell contains point :", contains, "(property: all True)")
if not contains.all():
    failed = True

for elem in [ElementLineP1(), ElementLineP2()]:
    basis = CellBasis(m, elem)
    y = np.sin(3. * basis.doflocs[0])        # nodal interpolant of sin(3x)
    exact = np.sin(3. * xf)                  # end points are nodes -> exact
    vf = basis.interpolator(y)(xf[None, :])
    vi = basis.interpolator(y)(xi[None, :])
    print(type(elem).__name__)
    print("  u_h at the end points (nodal values):", exact)
    print("  interpolator, float query           :", vf)
    print("  interpolator, integer query         :", vi)
    if not np.allclose(vi, exact, atol=1e-10):
        print("  -> WRONG VALUE at x = 1 (silently)")
        failed = True

# the sibling finders handle integer arrays correctly
for mm, e in [(MeshTri().refined(2), ElementTriP1()),
              (MeshQuad().refined(2), ElementQuad1())]:
    b = CellBasis(mm, e)
    y = np.sin(b.doflocs.sum(axis=0))
    pts = np.array([[0, 1, 1, 0], [0, 0, 1, 1]])
    print(type(mm).__name__, "integer corner query, error:",
          np.abs(b.interpolator(y)(pts) - np.sin(pts.sum(axis=0))).max())

if failed:
    print("\nFAIL: property C14 violated (MeshLine, integer query points)")
    sys.exit(1)
print("\nOK")
