"""C09-3: ElementTriN3.gbasis cannot be evaluated at per-element points
(X of shape (Ndim, Nelems, Npoints)), although Element.gbasis documents that
shape as supported and every other element (including the siblings
ElementTriN1 / ElementTriN2) handles it.  Consequently FacetBasis,
InteriorFacetBasis, Basis.boundary(), Basis.probes() and Basis.interpolator()
do not work at all with ElementTriN3.

Only the public API is used.
"""
import sys
import numpy as np
from skfem import MeshTri, Basis, FacetBasis, InteriorFacetBasis
from skfem.element import ElementTriN1, ElementTriN2, ElementTriN3

m = MeshTri().refined(1)
mp = m.mapping()
nel = m.t.shape[1]
rng = np.random.default_rng(0)

# different local points in each element
X3 = rng.random((2, nel, 4)) * .5          # inside the reference triangle
failures = []

print("value/curl at per-element points X.shape = {} must equal the "
      "cell-by-cell\nevaluation with X.shape = (2, 4):".format(X3.shape))
for cls in [ElementTriN1, ElementTriN2, ElementTriN3]:
    e = cls()
    N = e.doflocs.shape[0]
    try:
        worst = 0.
        for i in range(N):
            f3 = e.gbasis(mp, X3, i)[0]
            for k in range(nel):
                f2 = e.gbasis(mp, X3[:, k, :].copy(), i, tind=np.array([k]))[0]
                worst = max(worst,
                            np.abs(np.array(f3)[:, k] - np.array(f2)[:, 0]).max(),
                            np.abs(f3.curl[k] - f2.curl[0]).max())
        print("  {:<13s} max difference {:.2e}".format(cls.__name__, worst))
        if worst > 1e-12:
            failures.append(cls.__name__ + ' gbasis mismatch')
    except Exception as ex:
        print("  {:<13s} raises {}: {}".format(cls.__name__,
                                               type(ex).__name__, ex))
        failures.append(cls.__name__ + ' gbasis(3-d X)')

print("\nlibrary features that evaluate the basis at per-element points:")
pts = np.array([[.3, .6], [.2, .1]])
for cls in [ElementTriN1, ElementTriN2, ElementTriN3]:
    basis = Basis(m, cls())
    ones = np.ones(basis.N)
    for what, fn in [
            ('FacetBasis', lambda: FacetBasis(m, cls())),
            ('InteriorFacetBasis', lambda: InteriorFacetBasis(m, cls())),
            ('Basis.boundary()', lambda: basis.boundary()),
            ('Basis.probes()', lambda: basis.probes(pts)),
            ('Basis.interpolator()', lambda: basis.interpolator(ones)(pts))]:
        try:
            fn()
            print("  {:<13s} {:<22s} ok".format(cls.__name__, what))
        except Exception as ex:
            print("  {:<13s} {:<22s} raises {}".format(cls.__name__, what,
                                                      type(ex).__name__))
            failures.append(cls.__name__ + ' ' + what)

if failures:
    print("\nDEFECT: the property promises value and curl at every point of "
          "every cell;\nfailed: " + ', '.join(failures))
    sys.exit(1)
print("\nall checks passed")
