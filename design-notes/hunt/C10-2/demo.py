"""C10-2: the facet map G (and its surface factor detDG) of MeshHex1DG is
silently garbage: MappingIsoparametric.bndmap/bndJ index `mesh.doflocs` (which a
DG mesh stores per cell, in element_dofs order) with vertex numbers taken from
`mesh.facets`.

Uses the public API only.  Exits 1 on the unmodified library.
"""
import sys
import numpy as np
from skfem import MeshHex, MeshHex1DG, ElementHex1, FacetBasis

m0 = MeshHex.init_tensor(np.linspace(0, 1, 4),
                         np.linspace(0, 1, 3),
                         np.linspace(0, 1, 3))
# unit cube, periodic in x (the documented use of the *DG mesh classes)
m = MeshHex1DG.periodic(m0,
                        m0.nodes_satisfying(lambda x: x[0] == 1),
                        m0.nodes_satisfying(lambda x: x[0] == 0))
mp = m.mapping()
print(type(m).__name__, "cells", m.t.shape[1], "facets", m.facets.shape[1],
      "mapping", type(mp).__name__)

# the cell map is fine on this mesh: every cell is a 1/3 x 1/2 x 1/2 brick
Xc = np.array([[.5], [.5], [.5]])
print("cell map: det DF =", np.unique(np.round(np.abs(mp.detDF(Xc)), 12)),
      "(demanded 1/12 = %.12f)" % (1 / 12))

bf = m.boundary_facets()         # faces y=0, y=1, z=0, z=1; each has ONE cell
print("boundary facets:", len(bf))

# facet map at the facet midpoint ...
Xf = np.array([[.5], [.5]])
g = mp.G(Xf, find=bf)[:, :, 0]
dg = mp.detDG(Xf, find=bf)[:, 0]

# ... must be the midpoint of the corresponding face of the adjacent cell
tind = m.f2t[0, bf]
expected = np.empty_like(g)
for k, (f, c) in enumerate(zip(bf, tind)):
    li = np.nonzero(m.t2f[:, c] == f)[0][0]               # local face number
    Yc = m.refdom.p[:, m.refdom.facets[li]].mean(axis=1)  # ref. face centre
    expected[:, k] = mp.F(Yc[:, None], np.array([c]))[:, 0, 0]

err = np.abs(g - expected).max(axis=0)
print("\nfacet  G(midpoint)                expected (face centre of adjacent"
      " cell)   detDG   expected area")
for k in range(6):
    print("%4d   %-26s %-26s %.4f  %s" % (
        bf[k], np.round(g[:, k], 4), np.round(expected[:, k], 4), dg[k],
        "1/6 or 1/4"))
nbad = int((err > 1e-12).sum())
print("... facets with wrong G: %d of %d" % (nbad, len(bf)))
area = np.abs(dg).sum()
print("sum of |detDG| over the boundary facets (= area of the 4 faces): "
      "%.6f, demanded 4" % area)

try:
    fb = FacetBasis(m, ElementHex1())
    print("FacetBasis: boundary area", fb.dx.sum(), "(demanded 4)")
    fb_ok = abs(fb.dx.sum() - 4) < 1e-12
except Exception as ex:
    print("FacetBasis(m, ElementHex1()) raises:", repr(ex))
    fb_ok = False

if nbad or abs(area - 4) > 1e-12 or not fb_ok:
    print("\nDEFECT PRESENT: facet map of MeshHex1DG does not parametrise the "
          "faces of the adjacent cells")
    sys.exit(1)
print("\nfacet map consistent with the cell map")
sys.exit(0)
