"""C15-3: solve() of a generalised eigenvalue problem is not replayable.

``solve(K, M)`` / ``solve(K, M, solver=solver_eigen_scipy_sym(...))`` leave the
ARPACK start vector to a hidden random number generator (``v0=None``), so the
*same call on the same, unchanged operands* returns different eigenvectors
every time (the columns change sign; inside a multiple eigenvalue they are
rotated).  The result therefore depends on something that is not an argument.

Property C15: "Every result (... solutions) depends only on the values of its
arguments: it is the same whether computed first in a fresh interpreter or
after any sequence of other operations ..."
"""
import sys
import warnings
import numpy as np
from skfem import (MeshTri, Basis, ElementTriP1, BilinearForm, solve,
                   condense, solver_eigen_scipy_sym, solver_eigen_scipy)
from skfem.helpers import dot, grad

warnings.filterwarnings("ignore")

m = MeshTri().refined(3)
basis = Basis(m, ElementTriP1())
K = BilinearForm(lambda u, v, w: dot(grad(u), grad(v))).assemble(basis)
M = BilinearForm(lambda u, v, w: u * v).assemble(basis)
D = basis.get_dofs()

bad = False
for name, make in [
    ("solver_eigen_scipy_sym(k=4, sigma=0.)",
     lambda: solver_eigen_scipy_sym(k=4, sigma=0.)),
    ("solver_eigen_scipy(k=4, sigma=0.)",
     lambda: solver_eigen_scipy(k=4, sigma=0.)),
    ("default solver of solve(K, M)", lambda: None),
]:
    solver = make()          # ONE solver object, reused: no state is expected
    runs = []
    for _ in range(6):
        if solver is None:
            L, x = solve(*condense(K, M, D=D))
        else:
            L, x = solve(*condense(K, M, D=D), solver=solver)
        runs.append((np.real(L), np.real(x)))
    dL = max(np.abs(runs[0][0] - r[0]).max() for r in runs[1:])
    dx = max(np.abs(runs[0][1] - r[1]).max() for r in runs[1:])
    # is it "only" the sign?
    dabs = max(np.abs(np.abs(runs[0][1]) - np.abs(r[1])).max()
               for r in runs[1:])
    print(name)
    print("   eigenvalues, first call :", runs[0][0])
    print("   max |L_1 - L_k|          : %.2e   %s" % (
        dL, "(round-off)" if dL < 1e-8 else
        "(the ORDER of the returned eigenpairs changed between calls)"))
    print("   max |x_1 - x_k|          : %.2e   (demanded: 0 up to round-off)"
          % dx)
    print("   max ||x_1| - |x_k||      : %.2e" % dabs)
    if dx > 1e-8 or dL > 1e-8:
        bad = True

if bad:
    print("\nDEFECT: six identical solve() calls on unchanged operands "
          "returned different eigenvectors")
    sys.exit(1)
print("\nOK: replay gives identical solutions")
