"""C11-1: MeshWedge1.boundary_edges()/interior_edges() disagree with the
boundary facets (silently on library-built meshes, ValueError after a mere
renumbering of the vertices).

Property clause: "boundary facets, edges and vertices are exactly those
belonging to a facet with a single neighbour; interior and boundary sets
partition the whole ... independent of vertex numbering".
"""
import sys
import numpy as np
from skfem import MeshTri, MeshLine, MeshWedge1

failed = False


def expected_boundary_edges(m):
    """Edges of the cell next to a one-neighbour facet whose two end points
    both belong to that facet (brute force from the tables themselves)."""
    out = set()
    edge_index = {frozenset(map(int, m.edges[:, j])): j
                  for j in range(m.edges.shape[1])}
    for f in np.nonzero(m.f2t[1] == -1)[0]:
        fv = set(map(int, m.facets[:, f]))
        k = m.f2t[0, f]
        for a, b in m.refdom.edges:
            e = frozenset((int(m.t[a, k]), int(m.t[b, k])))
            if e <= fv:
                out.add(edge_index[e])
    return out


def report(name, m, geometric=None):
    global failed
    exp = expected_boundary_edges(m)
    if geometric is not None:
        # independent geometric cross-check of the expectation
        assert exp == geometric, "demo bug: expectations disagree"
    print(f"--- {name}: {m.nelements} wedges, {m.edges.shape[1]} edges, "
          f"{len(m.boundary_facets())} boundary facets")
    print(f"    property demands {len(exp)} boundary edges and "
          f"{m.edges.shape[1] - len(exp)} interior edges")
    try:
        be = set(map(int, m.boundary_edges()))
        ie = set(map(int, m.interior_edges()))
    except Exception as e:  # loud variant of the same defect
        print(f"    boundary_edges() raised {type(e).__name__}: {e}")
        failed = True
        return
    print(f"    library returns  {len(be)} boundary edges and "
          f"{len(ie)} interior edges")
    missing = sorted(exp - be)
    if missing:
        print("    boundary edges reported as INTERIOR (vertex pairs):",
              [tuple(map(int, m.edges[:, j])) for j in missing][:8],
              "..." if len(missing) > 8 else "")
    if be != exp or ie != set(range(m.edges.shape[1])) - exp:
        failed = True


# 1. a single reference wedge: every one of its 9 edges is on the boundary
report("one reference wedge", MeshWedge1.init_refdom())

# 2. a mesh built entirely by the library: triangles x line
m = MeshTri().refined(1) * MeshLine(np.linspace(0, 1, 3))
mid = m.p[:, m.edges].mean(axis=1)
on_cube_surface = np.nonzero((np.isclose(mid, 0) | np.isclose(mid, 1))
                             .any(axis=0))[0]
report("MeshTri().refined() * MeshLine(3 pts)", m,
       geometric=set(map(int, on_cube_surface)))

# 3. the same mesh after renumbering the vertices (same cells, same geometry)
rng = np.random.default_rng(1)
for trial in range(3):
    perm = rng.permutation(m.p.shape[1])
    p = np.empty_like(m.p)
    p[:, perm] = m.p
    report(f"same mesh, vertices renumbered (trial {trial})",
           MeshWedge1(p, perm[m.t]))

print()
if failed:
    print("FAIL: boundary/interior edges of wedge meshes contradict the "
          "boundary facets")
    sys.exit(1)
print("OK")
