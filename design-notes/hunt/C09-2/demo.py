"""C09-2: ElementTriN3 - the delivered basis is not dual to the point
functionals at the element's own DOF locations: on every cell in standard
(ascending) vertex order the functions 6 and 8 sit at each other's `doflocs`.

ElementTriN3 is a point-nodal H(curl) element: DOFs 0-8 are the tangential
component at three points of each edge (dofnames 'u^t'), DOFs 9-14 the x / y
components at three interior points (dofnames 'u^x', 'u^y'); the locations are
published in `ElementTriN3.doflocs` and, mapped, in `Basis.doflocs`.
Only the public API is used.
"""
import sys
import numpy as np
from skfem import MeshTri, Basis
from skfem.element import ElementTriN3

np.set_printoptions(linewidth=200, precision=3, suppress=True)
e = ElementTriN3()

# reference direction of each of the 15 point functionals:
# tangent of facet [0,1], [1,2], [0,2] (first -> second vertex), then e_x, e_y
that = np.array([[1, 0]] * 3 + [[-1, 1]] * 3 + [[0, 1]] * 3
                + [[1, 0], [0, 1]] * 3, dtype=float).T


def functional_matrix(m):
    """D[cell, i, j] = (phi_j . t_i)(x_i):  functional i (component along the
    mapped direction t_i = DF that_i at the mapped DOF location x_i = F(
    doflocs[i])) applied to the delivered global basis function j.
    The covariant Piola map makes this independent of the cell shape."""
    mp = m.mapping()
    X = e.doflocs.T.copy()
    t = np.einsum('ikel,kl->iel', mp.DF(X), that)
    D = np.zeros((m.t.shape[1], 15, 15))
    for j in range(15):
        v = np.array(e.gbasis(mp, X, j)[0])
        D[:, :, j] = np.einsum('iel,iel->el', v, t)
    return D


bad = False

print("1) reference triangle, MeshTri.init_refdom(), t =",
      MeshTri.init_refdom().t.T)
D = functional_matrix(MeshTri.init_refdom())[0]
print("   l_i(phi_j) for the nine edge functionals / functions "
      "(must be the identity):")
print(D[:9, :9])
dev = np.abs(D - np.eye(15)).max()
print("   max |l_i(phi_j) - delta_ij| over all 15x15 = {:.3g}  (expected 0)"
      .format(dev))
bad |= dev > 1e-10

print("\n2) every cell of MeshTri().refined(2) (default ascending vertex order)")
m = MeshTri().refined(2)
D = functional_matrix(m)
dev = np.abs(D - np.eye(15)[None]).max(axis=(1, 2))
print("   cells violating duality: {} of {}".format((dev > 1e-10).sum(),
                                                    m.t.shape[1]))
print("   phi_6 at its own location: {:.3g},  at the location of DOF 8: {:.3g}"
      .format(D[0, 6, 6], D[0, 8, 6]))
bad |= (dev > 1e-10).any()

print("\n3) consequence for Basis.doflocs: tangential component of the global")
print("   basis function of an edge DOF at the DOF's published location")
basis = Basis(m, e)
X = e.doflocs.T.copy()
mp = m.mapping()
x = mp.F(X)                                   # (2, nel, 15) mapped locations
wrong = 0
total = 0
for i in range(9):
    g = basis.element_dofs[i]                 # global DOF of local function i
    # where the library says this DOF lives
    published = basis.doflocs[:, g]           # (2, nel)
    # where the delivered function i really is nodal in this cell
    Di = D[:, :, i]                           # (nel, 15)
    real = np.abs(Di).argmax(axis=1)
    real_loc = x[:, np.arange(m.t.shape[1]), real]
    mism = np.linalg.norm(published - real_loc, axis=0) > 1e-12
    wrong += mism.sum()
    total += len(mism)
print("   (cell, local edge function) pairs whose Basis.doflocs entry is not "
      "the point where the function is nodal: {} of {}".format(wrong, total))
bad |= wrong > 0

if bad:
    print("\nDEFECT: ElementTriN3 basis is not dual to the point functionals "
          "at ElementTriN3.doflocs")
    sys.exit(1)
print("\nall checks passed")
