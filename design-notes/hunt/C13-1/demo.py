"""C13-1: adaptive refinement of MeshTet1 returns a NON-CONFORMING mesh
(hanging nodes) when the coordinates of the mesh are large.

The same cube, the same marked cells: at unit size the result is conforming,
after `scaled(1e4)` or `scaled(1e6)` (or after a translation by 1e6) it is not.
Nothing is raised, nothing is logged.

The property (C13) demands a conforming mesh for ANY straight-sided
tetrahedral mesh and ANY marked set.
"""
import sys
import numpy as np
from skfem import MeshTet


def hanging(m, rtol=1e-9):
    """Interior facets that belong to one cell only.

    In a conforming mesh of the cube [lo, hi]^3 every facet that belongs to a
    single cell lies on the surface of the cube.  A facet with a single cell
    in the interior means that the neighbour across it has been split in a
    different way (hanging node / crossing diagonals).
    """
    lo, hi = m.p.min(), m.p.max()
    count = np.bincount(m.t2f.flatten(), minlength=m.facets.shape[1])
    single = np.nonzero(count == 1)[0]
    X = m.p[:, m.facets[:, single]]              # 3 x 3 x n
    tol = rtol * (hi - lo)
    on_surface = np.zeros(len(single), dtype=bool)
    for d in range(3):
        for val in (lo, hi):
            on_surface |= (np.abs(X[d] - val) < tol).all(axis=0)
    return single[~on_surface]


def surface_area(m):
    count = np.bincount(m.t2f.flatten(), minlength=m.facets.shape[1])
    f = m.facets[:, count == 1]
    a = m.p[:, f[1]] - m.p[:, f[0]]
    b = m.p[:, f[2]] - m.p[:, f[0]]
    return .5 * np.linalg.norm(np.cross(a.T, b.T), axis=1).sum()


def volume(m):
    a, b, c = (m.p[:, m.t[i]] - m.p[:, m.t[0]] for i in (1, 2, 3))
    return np.abs(np.einsum('ij,ij->j', a, np.cross(b.T, c.T).T)).sum() / 6.


cases = [
    # label, mesh, marked cells
    ("unit cube, 5 cells, marked [0]",
     MeshTet(), np.array([0])),
    ("same cube scaled by 1e6, marked [0]",
     MeshTet().scaled((1e6,) * 3), np.array([0])),
    ("same cube translated by 1e6, marked [0]",
     MeshTet().translated((1e6,) * 3), np.array([0])),
    ("unit cube refined twice (320 cells), all cells marked",
     MeshTet().refined(2), np.arange(320)),
    ("same mesh scaled by 1e4 (a 10 m cube in mm), all cells marked",
     MeshTet().refined(2).scaled((1e4,) * 3), np.arange(320)),
]

bad = 0
for label, m, marked in cases:
    M = m.refined(marked.astype(np.int32))
    h = hanging(M)
    side = m.p.max() - m.p.min()
    print(label)
    print("   cells %d -> %d, volume ratio %.12f" %
          (m.t.shape[1], M.t.shape[1], volume(M) / volume(m)))
    print("   surface area / (6 side^2) = %.6f   (property: 1.000000)" %
          (surface_area(M) / (6 * side ** 2)))
    print("   interior facets with a cell on one side only: %d"
          "   (property: 0)" % len(h))
    if len(h) > 0:
        bad += 1
        f = h[0]
        print("   e.g. facet with vertices %s at\n%s" %
              (M.facets[:, f], M.p[:, M.facets[:, f]].T))

print()
if bad:
    print("FAIL: %d of %d refinements returned a non-conforming mesh" %
          (bad, len(cases)))
    sys.exit(1)
print("OK: all refined meshes are conforming")
