"""C04-1: Dofs decides from ``element.dim`` (the number of vector components of
an ElementVector / first part of an ElementComposite) whether edge and facet
DOFs exist, instead of from the dimension of the reference cell.

An m-component vector field on a d-dimensional mesh with m != d therefore
silently loses all its edge (and for m == 1 also facet) DOFs.
"""
import sys
import numpy as np
from skfem import (MeshTet, MeshTri, MeshHex, Basis, BilinearForm,
                   ElementVector, ElementComposite,
                   ElementTetP1, ElementTetP2, ElementTriP2, ElementHex2)
from skfem.helpers import dot

bad = 0


def expected_counts(mesh, e):
    rd = mesh.refdom
    nbfun = (e.nodal_dofs * rd.nnodes + e.edge_dofs * rd.nedges
             + e.facet_dofs * rd.nfacets + e.interior_dofs)
    N = (e.nodal_dofs * mesh.nvertices
         + (e.edge_dofs * mesh.nedges if mesh.dim() == 3 else 0)
         + e.facet_dofs * mesh.nfacets
         + e.interior_dofs * mesh.nelements)
    return nbfun, N


def check(label, mesh, e, ncomp):
    global bad
    basis = Basis(mesh, e)
    nbfun, N = expected_counts(mesh, e)
    # sum of the vector mass matrix = ncomp * |domain| because the scalar
    # shape functions of each component sum to one
    M = BilinearForm(lambda u, v, w: dot(u, v)).assemble(basis)
    ok = (basis.element_dofs.shape[0] == nbfun and basis.N == N
          and abs(M.sum() - ncomp) < 1e-10)
    print("{:46s} rows of element_dofs {:3d} (element has {:3d} shape "
          "functions), N {:4d} (expected {:4d}), sum(M) {:8.4f} "
          "(expected {:d})  {}".format(label, basis.element_dofs.shape[0],
                                        nbfun, basis.N, N, M.sum(), ncomp,
                                        "ok" if ok else "WRONG"))
    bad += not ok


tet = MeshTet().refined(1)       # unit cube, volume 1
tri = MeshTri().refined(2)       # unit square, area 1
hexm = MeshHex().refined(1)

for m in (3, 2, 4, 6, 1):
    check("ElementVector(ElementTetP2(), {}) on MeshTet".format(m),
          tet, ElementVector(ElementTetP2(), m), m)
for m in (2, 3, 1):
    check("ElementVector(ElementTriP2(), {}) on MeshTri".format(m),
          tri, ElementVector(ElementTriP2(), m), m)
for m in (3, 2):
    check("ElementVector(ElementHex2(), {}) on MeshHex".format(m),
          hexm, ElementVector(ElementHex2(), m), m)

# the same composite element, parts in different order
a = ElementComposite(ElementTetP2(), ElementVector(ElementTetP1(), 2))
b = ElementComposite(ElementVector(ElementTetP1(), 2), ElementTetP2())
Na, Nb = Basis(tet, a).N, Basis(tet, b).N
print("ElementComposite(P2, Vec(P1,2)): N = {};  "
      "ElementComposite(Vec(P1,2), P2): N = {}  (must be equal)"
      .format(Na, Nb))
bad += Na != Nb

print()
if bad:
    print("DEFECT: {} case(s) in which edge/facet DOFs were silently dropped"
          .format(bad))
    sys.exit(1)
print("all DOF tables complete")
