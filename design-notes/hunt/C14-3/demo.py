"""C14-3: points of the meshed domain that lie on a cell facet are reported as
"outside of the mesh" because the containment test of the simplex finders uses
an absolute tolerance of one machine epsilon, which is smaller than the
round-off of the inverse mapping it is applied to.
"""
import sys
import itertools
import numpy as np
from skfem import MeshTri, MeshHex, CellBasis, ElementTriP1, ElementHex1

failed = False

# ---------------------------------------------------------------- part A
# a standard triangulation of the unit square, 5 x 5 squares
g = np.linspace(0, 1, 6)
m = MeshTri.init_tensor(g, g)
finder = m.element_finder()
vals = np.round(np.arange(0, 101) / 100, 2)
bad = []
n = 0
for ax, bval, s in itertools.product([0, 1], [0., 1.], vals):
    pt = [s, s]
    pt[ax] = bval                      # exactly on the boundary of [0,1]^2
    n += 1
    try:
        finder(np.array([pt[0]]), np.array([pt[1]]))
    except ValueError as e:
        bad.append(tuple(float(v) for v in pt))
print("A) MeshTri.init_tensor(linspace(0,1,6), linspace(0,1,6)):")
print("   boundary points (k/100 on the four sides) tested:", n)
print("   reported 'outside of the mesh'                  :", len(bad),
      "(property: 0)")
print("   e.g.", bad[:6])
if bad:
    failed = True

basis = CellBasis(m, ElementTriP1())
y = basis.doflocs[0] + 2. * basis.doflocs[1]
x = np.array([[1.0], [0.68]])
print("   u_h = x + 2y at (1.0, 0.68): expected", 1.0 + 2 * 0.68)
try:
    print("   interpolator returns", basis.interpolator(y)(x))
except Exception as e:
    print("   interpolator raises", type(e).__name__ + ":", e)
    failed = True

# ---------------------------------------------------------------- part B
# hexahedra with plane faces (projective image of a tensor grid), points in
# the INTERIOR of the domain that lie on faces shared by two cells
m0 = MeshHex.init_tensor(np.linspace(0, 1, 4),
                         np.linspace(0, 1, 5) ** 1.5,
                         np.linspace(0, 1, 3))
w = np.array([0.5, 0.3, 0.4])
mh = MeshHex(m0.p / (1. + w @ m0.p), m0.t)
basis = CellBasis(mh, ElementHex1())
y = basis.doflocs[0] + 2. * basis.doflocs[1] - basis.doflocs[2]
finder = mh.element_finder()
interior_cells = np.nonzero(m0.p[0, m0.t].min(axis=0) > 0)[0]   # face X0=0 is interior
nbad = 0
ntot = 0
example = None
for a, b in [(0.3, 0.6), (0.5, 0.5), (0.25, 0.75), (0.1, 0.2), (0.7, 0.9)]:
    X = np.array([[0.], [a], [b]])                 # on the reference face X0 = 0
    xg = basis.mapping.F(X, tind=interior_cells)[:, :, 0]
    for k in range(xg.shape[1]):
        ntot += 1
        try:
            finder(*[np.array([v]) for v in xg[:, k]])
        except ValueError:
            nbad += 1
            example = xg[:, k]
print("B) MeshHex with plane, non-parallel faces (4 x 5 x 3 cells):")
print("   points on interior faces tested  :", ntot)
print("   reported 'outside of the mesh'   :", nbad, "(property: 0)")
if nbad:
    failed = True
    x = example[:, None]
    print("   e.g. x =", example, "(domain is the image of [0,1]^3, the point"
          " is far from its boundary)")
    print("   u_h = x + 2y - z there: expected", x[0, 0] + 2 * x[1, 0] - x[2, 0])
    try:
        print("   interpolator returns", basis.interpolator(y)(x))
    except Exception as e:
        print("   interpolator raises", type(e).__name__ + ":", e)

if failed:
    print("\nFAIL: property C14 violated (points of the domain rejected)")
    sys.exit(1)
print("\nOK")
