"""C12-4: Mesh.refined() on the periodic / discontinuous-topology mesh classes
(MeshTri1DG, MeshQuad1DG, MeshLine1DG, MeshHex1DG) silently returns a corrupt
mesh object.

These classes inherit _uniform from MeshTri1 / MeshQuad1 / MeshLine1 /
MeshHex1.  In a MeshDG object ``t`` holds the (periodic) topological vertex
numbers while ``doflocs`` holds one node per cell corner (nnodes * ncells
columns), so ``doflocs[:, t]`` is *not* the corner coordinates; the inherited
_uniform uses it as such.

C12 demands a valid mesh with 2^(d k) times as many cells covering the same
domain (or, for an unsupported class, a loud refusal).
"""
import sys
import numpy as np
from skfem.mesh import MeshTri1DG, MeshQuad1DG, MeshLine1DG


def measure(m):
    X = m.elem.refdom.p.mean(axis=1, keepdims=True)  # centroid of ref. cell
    vol = {1: 1., 2: 1. if m.t.shape[0] == 4 else .5}[m.dim()]
    return np.abs(m.mapping().detDF(X)).sum() * vol


failures = 0
x, y = np.linspace(0, 1, 4), np.linspace(0, 2, 3)
for cls, args in ((MeshTri1DG, (x, y)),
                  (MeshQuad1DG, (x, y)),
                  (MeshLine1DG, (x,))):
    m = cls.init_tensor(*args, periodic=[0])
    nloc = m.t.shape[0]
    print(cls.__name__)
    print(f"   before : {m.nelements} cells, {m.p.shape[1]} nodes "
          f"(= {nloc} per cell), measure {measure(m):.4f}")
    try:
        M = m.refined()
    except NotImplementedError as exc:
        print("   refined() refuses loudly:", repr(exc), "-> acceptable")
        continue
    d = m.dim()
    print(f"   refined: {M.nelements} cells (demanded {m.nelements * 2 ** d}),"
          f" {M.p.shape[1]} nodes (demanded {nloc} per cell = "
          f"{nloc * M.nelements})")
    ok = (M.nelements == m.nelements * 2 ** d
          and M.p.shape[1] == nloc * M.nelements)
    try:
        meas = measure(M)
        print(f"   measure of the refined mesh: {meas:.4f} "
              f"(demanded {measure(m):.4f})")
        ok = ok and np.isclose(meas, measure(m))
    except Exception as exc:
        print("   the returned mesh cannot even be mapped:",
              type(exc).__name__, exc)
        ok = False
    print("   ->", "ok" if ok else "VIOLATION (returned silently)")
    failures += not ok

if failures:
    print(f"\n{failures} mesh classes: refined() returned an inconsistent "
          "object without any error or warning.")
    sys.exit(1)
print("\nall good")
