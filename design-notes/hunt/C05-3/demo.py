"""C05-3: enforce() zeroes the *columns* instead of the rows of the
constrained DOFs when the sparse matrix is stored column-wise (CSC), e.g. the
transpose ``A.T`` of an assembled matrix (adjoint problem).

Property: "'enforce' returns a system with the same solution whose
constrained rows are exactly diag*e_i with right-hand side x_i and whose
other rows are untouched" -- for all sparse matrices, unsymmetric included.
"""
import sys

import numpy as np
import scipy.sparse as sp

from skfem import (MeshTri, Basis, ElementTriP1, BilinearForm, condense,
                   enforce, solve)
from skfem.helpers import dot, grad

m = MeshTri().refined(2)
basis = Basis(m, ElementTriP1())


@BilinearForm
def convdiff(u, v, w):
    return dot(grad(u), grad(v)) + 5. * (u.grad[0] + 2. * u.grad[1]) * v


A = convdiff.assemble(basis)          # csr, unsymmetric
At = A.T                              # adjoint operator: scipy returns CSC
print("type(A)   =", type(A).__name__, "  type(A.T) =", type(At).__name__)

rng = np.random.default_rng(0)
b = rng.random(basis.N)
x = rng.random(basis.N)
D = basis.get_dofs()                  # DofsView of all boundary DOFs
Dix = D.flatten()
Iix = basis.complement_dofs(D)

dense = At.toarray()
expected = dense.copy()
expected[Dix] = 0.
expected[Dix, Dix] = 1.

bad = False
for name, mat in (("A.T as CSR (A.T.tocsr())", At.tocsr()),
                  ("A.T as CSC (plain A.T)", At)):
    before = mat.toarray()
    Ae, be = enforce(mat, b, x=x, D=D)
    Aed = Ae.toarray()
    rows_ok = np.array_equal(Aed[Dix], np.eye(basis.N)[Dix])
    others_ok = np.array_equal(Aed[Iix], before[Iix])
    u = solve(sp.csr_matrix(Ae), be)
    print(f"enforce({name}):")
    print(f"   constrained rows equal e_i: {rows_ok}"
          f"   other rows untouched: {others_ok}   (property: True, True)")
    print(f"   max|u[D]-x[D]| = {np.abs(u[Dix] - x[Dix]).max():.3e}"
          f"   max|(A.T u - b)[I]| = {np.abs((dense @ u - b)[Iix]).max():.3e}"
          "   (property: ~0, ~0)")
    print("   input matrix unchanged:", np.array_equal(mat.toarray(), before))
    if not (rows_ok and others_ok):
        bad = True

u = solve(*condense(At, b, x=x, D=D))
print("condense(A.T as CSC): max|(A.T u - b)[I]| = "
      f"{np.abs((dense @ u - b)[Iix]).max():.3e}")

if bad:
    print("FAIL: enforce returned a system that does not impose the "
          "constraints and whose kept rows were altered")
    sys.exit(1)
print("PASS")
