"""C11-4: periodic (MeshDG) meshes with two cells across the period.

With exactly two cells in a periodic direction, facets that are geometrically
different (e.g. the bottom edges of the two cells of one row) have the same
vertex set after the periodic identification.  The library identifies facets
by their vertex set, silently merges them, and the tables become incoherent:
t2f names up to four cells for one facet, f2t lists two of them, the real
boundary facets become "interior" and boundary_facets() is empty.

Property clauses: "each facet ... appears once", "the facet-to-cell table
lists exactly the one or two cells containing the facet", "boundary facets
... are exactly those belonging to a facet with a single neighbour".
"""
import sys
import numpy as np
from skfem import MeshQuad, MeshQuad1DG, MeshTri1DG, MeshHex1DG

failed = False
ny = 4
y = np.linspace(0, 1, ny)

print("strip [0,1]x[0,1], periodic in x (a cylinder): the edges on y=0 and "
      "y=1 are its boundary")
for cls in (MeshQuad1DG, MeshTri1DG):
    for nx in (5, 4, 3):
        x = np.linspace(0, 1, nx)
        # expectation from the plain tensor mesh: identify line x=1 with x=0
        plain = MeshQuad.init_tensor(x, y)
        exp_nfacets = plain.nfacets - (ny - 1)
        if cls is MeshTri1DG:
            exp_nfacets += plain.nelements          # one diagonal per quad
        exp_nbnd = len(plain.boundary_facets()) - 2 * (ny - 1)
        try:
            m = cls.init_tensor(x, y, periodic=[0])
        except ValueError as e:
            # rejecting the input loudly would be an acceptable repair
            print(f"  {cls.__name__} nx-1={nx-1}: rejected: {e}")
            continue
        cells_per_facet = np.bincount(m.t2f.ravel(), minlength=m.nfacets)
        listed = (m.f2t != -1).sum(axis=0)
        ok = (m.nfacets == exp_nfacets
              and len(m.boundary_facets()) == exp_nbnd
              and cells_per_facet.max() <= 2
              and (cells_per_facet == listed).all())
        print(f"  {cls.__name__}, {nx - 1} cells per period: "
              f"nfacets = {m.nfacets} (property {exp_nfacets}), "
              f"boundary facets = {len(m.boundary_facets())} "
              f"(property {exp_nbnd}), max #cells naming one facet in t2f = "
              f"{cells_per_facet.max()}, facets where f2t lists fewer cells "
              f"than t2f names: {(cells_per_facet != listed).sum()}"
              f"  -> {'ok' if ok else 'WRONG'}")
        if not ok:
            failed = True

# same in 3-D
z = np.linspace(0, 1, 3)
for nx in (4, 3):
    x = np.linspace(0, 1, nx)
    try:
        m = MeshHex1DG.init_tensor(x, y, z, periodic=[0])
    except ValueError as e:
        print(f"  MeshHex1DG nx-1={nx-1}: rejected: {e}")
        continue
    cells_per_facet = np.bincount(m.t2f.ravel(), minlength=m.nfacets)
    # faces: x-normal (nx-1)(ny-1)(nz-1), y-normal (nx-1)ny(nz-1),
    #        z-normal (nx-1)(ny-1)nz
    exp = ((nx - 1) * (ny - 1) * 2 + (nx - 1) * ny * 2
           + (nx - 1) * (ny - 1) * 3)
    exp_b = 2 * (nx - 1) * 2 + 2 * (nx - 1) * (ny - 1)
    ok = (m.nfacets == exp and len(m.boundary_facets()) == exp_b
          and cells_per_facet.max() <= 2)
    print(f"  MeshHex1DG, {nx - 1} cells per period: nfacets = {m.nfacets} "
          f"(property {exp}), boundary facets = {len(m.boundary_facets())} "
          f"(property {exp_b}), max #cells per facet in t2f = "
          f"{cells_per_facet.max()}  -> {'ok' if ok else 'WRONG'}")
    if not ok:
        failed = True

print()
if failed:
    print("FAIL: periodic mesh with two cells per period has merged facets")
    sys.exit(1)
print("OK")
