"""C14-1: probes / interpolator / point_source of a CellBasis restricted to a
subset of the cells (``elements=...``) read the DOFs of the wrong cell.

The located cell index is an index into the *mesh*, but it is used as a column
index into ``basis.element_dofs`` which, for a restricted basis, has only the
columns ``basis.tind``.
"""
import sys
import numpy as np
from skfem import MeshTri, CellBasis, ElementTriP1, ElementTriP2

failed = False

m = MeshTri().refined(2).with_subdomains({'right': lambda x: x[0] > 0.5})
print("cells of subdomain 'right':", m.subdomains['right'])

for elem in [ElementTriP1(), ElementTriP2()]:
    full = CellBasis(m, elem)
    sub = CellBasis(m, elem, elements='right')      # same as full.with_elements('right')
    # discrete function u_h = x + 2 y (exactly representable)
    y = full.doflocs[0] + 2. * full.doflocs[1]

    # --- (a) silent: points inside the subdomain, located in cells 1, 2, 5 ---
    cells = np.array([1, 2, 5])
    pts = m.p[:, m.t[:, cells]].mean(axis=1)          # centroids of these cells
    assert np.array_equal(m.element_finder()(*pts), cells)
    expected = pts[0] + 2. * pts[1]
    print("\n", type(elem).__name__)
    print("  query points (centroids of cells 1, 2, 5):\n", pts)
    print("  exact u_h(x)                 :", expected)
    print("  full basis interpolator      :", full.interpolator(y)(pts))
    got = sub.interpolator(y)(pts)
    print("  restricted basis interpolator:", got)
    if not np.allclose(got, expected, atol=1e-10):
        print("  -> WRONG VALUES (silently)")
        failed = True

    # --- (b) the restricted basis' own quadrature points ---
    xq = sub.global_coordinates().value                # (2, ncells, nqp)
    ref = sub.interpolate(y).value
    try:
        val = sub.interpolator(y)(xq)
        err = np.abs(val - ref).max()
        print("  max |interpolator(x_q) - interpolate| on the restricted basis:",
              err)
        if err > 1e-10:
            failed = True
    except Exception as e:
        print("  interpolator at own quadrature points raised:",
              type(e).__name__, e)
        failed = True

    # --- (c) point source ---
    x0 = pts[:, 0]
    f = sub.point_source(x0)
    print("  point_source(x0) @ y =", f @ y, " expected", x0[0] + 2 * x0[1])
    if not np.isclose(f @ y, x0[0] + 2 * x0[1]):
        failed = True

if failed:
    print("\nFAIL: property C14 violated for a CellBasis with elements=...")
    sys.exit(1)
print("\nOK")
