"""C20-1: skfem.helpers.inv silently truncates the inverse of integer tensors.

The property demands that the helper `inv` equals the mathematical inverse
pointwise for every admissible 2x2 / 3x3 tensor (over arbitrary trailing
axes).  For integer-valued input the result is rounded towards zero.
"""
import sys
import numpy as np
from skfem.helpers import inv, mul, det

rng = np.random.default_rng(0)
bad = 0


def reference(A):
    """numpy.linalg.inv applied pointwise over the trailing axes."""
    n = A.shape[0]
    Am = np.moveaxis(A.astype(float), [0, 1], [-2, -1])
    return np.moveaxis(np.linalg.inv(Am), [-2, -1], [0, 1])


def check(name, A):
    global bad
    got = inv(A)
    exp = reference(A)
    err = np.abs(got - exp).max()
    print(f"{name}: dtype in={A.dtype}, dtype out={np.asarray(got).dtype}, "
          f"max |inv(A) - numpy.linalg.inv(A)| = {err:.3g}")
    if not err < 1e-12:
        bad += 1


# 1. a constant material-like matrix written with integer literals
C = np.array([[2, 0],
              [0, 4]])
print("A =\n", C)
print("skfem.helpers.inv(A) =\n", inv(C))
print("numpy.linalg.inv(A)  =\n", np.linalg.inv(C))
print("det(A) =", det(C), "(correct, so only inv is affected)")
check("2x2 constant", C)

# 2. integer tensors over trailing axes (nt, nq)
for n in (2, 3):
    A = rng.integers(-3, 4, size=(n, n, 4, 5))
    A += 7 * np.eye(n, dtype=int)[:, :, None, None]   # well conditioned
    check(f"{n}x{n} over (4, 5)", A)
    # definition of the inverse: inv(A) A = I
    I = mul(inv(A), A)
    E = np.eye(n)[:, :, None, None] * np.ones_like(I)
    print(f"   max |inv(A) A - I| = {np.abs(I - E).max():.3g}  (must be ~0)")

# 3. the very same values as floats are handled correctly
A = rng.integers(-3, 4, size=(3, 3, 4, 5)) + 7 * np.eye(3, dtype=int)[:, :, None, None]
err = np.abs(inv(A.astype(float)) - reference(A)).max()
print(f"same values as float64: max error = {err:.3g}")

if bad:
    print(f"FAIL: inv() is wrong for {bad} integer-valued inputs")
    sys.exit(1)
print("OK")
