"""C03-1: conforming elements with several DOFs per facet (and the normal
derivative DOF of Argyris) are NOT continuous on a MeshTri2 that is built
through the default constructor from cells in an arbitrary (e.g. counter
clockwise, as written by every mesh generator) local vertex order.

MeshTri (first order) sorts the vertices of every cell in its constructor and
all facet-DOF orderings rely on that.  MeshTri2 silently inherits
``sort_t = False`` as its *default*, so the very same connectivity that is
fine for MeshTri yields a discontinuous P3 / P4 / RT2 / BDM1 / N2 / Argyris
function on MeshTri2.  The caller never switched the sorting off.
"""
import sys
import numpy as np
from skfem import (MeshTri, MeshTri2, InteriorFacetBasis, CellBasis,
                   ElementTriP2, ElementTriP3, ElementTriP4, ElementTriRT2,
                   ElementTriBDM1, ElementTriN2, ElementTriArgyris)
from dataclasses import replace

# unit square, two counter-clockwise triangles (0,1,2) and (2,3,0); six-node
# ("triangle6": 3 vertices + midpoints of edges 01, 12, 20) connectivity, i.e.
# exactly what Mesh.load hands to MeshTri2 for a second order Gmsh mesh.
p = np.array([[0., 0.], [1., 0.], [1., 1.], [0., 1.],          # vertices
              [.5, 0.], [1., .5], [.5, .5], [.5, 1.], [0., .5]]).T
t6 = np.array([[0, 1, 2, 4, 5, 6],
               [2, 3, 0, 7, 8, 6]]).T

m = MeshTri2(p, t6)                    # default constructor, nothing disabled
print("MeshTri2 built by the default constructor: sort_t =", m.sort_t)
print("cells as stored (columns):\n", m.t)

# points along the reference facet, deliberately not symmetric about 1/2
quad = (np.array([[0.1, 0.3, 0.45, 0.8]]), np.ones(4) / 4.)
rng = np.random.default_rng(0)


def one_sided_jump(mesh, elem, kind):
    """max |[u]|, |[u.n]|, |[u.t]| or |[u]|+|[grad u]| over interior facets"""
    s0 = InteriorFacetBasis(mesh, elem, side=0, quadrature=quad)
    s1 = InteriorFacetBasis(mesh, elem, side=1, quadrature=quad)
    x = rng.standard_normal(s0.N)      # ANY coefficient vector
    u0, u1 = s0.interpolate(x), s1.interpolate(x)
    n = s0.normals.value
    d = u0.value - u1.value
    if kind == 'value':
        return np.abs(d).max()
    if kind == 'normal':
        return np.abs(d[0] * n[0] + d[1] * n[1]).max()
    if kind == 'tangent':
        return np.abs(-d[0] * n[1] + d[1] * n[0]).max()
    if kind == 'C1':
        return np.abs(d).max() + np.abs(u0.grad - u1.grad).max()


cases = [
    (ElementTriP2(), 'value'),    # one DOF per facet: control, must be fine
    (ElementTriP3(), 'value'),
    (ElementTriP4(), 'value'),
    (ElementTriRT2(), 'normal'),
    (ElementTriBDM1(), 'normal'),
    (ElementTriN2(), 'tangent'),
    (ElementTriArgyris(), 'C1'),
]

# the same mesh with per-cell sorting switched ON (what MeshTri always does)
m_sorted = replace(m, sort_t=True)

bad = []
print("\n%-20s %-8s %14s %14s" % ("element", "trace", "MeshTri2(p,t)",
                                  "sorted cells"))
for elem, kind in cases:
    j = one_sided_jump(m, elem, kind)
    js = one_sided_jump(m_sorted, elem, kind)
    print("%-20s %-8s %14.3e %14.3e" % (type(elem).__name__, kind, j, js))
    if j > 1e-8:
        bad.append(type(elem).__name__)

# independent confirmation without any facet basis: evaluate the P3 function
# in both cells at the same physical points of the shared edge (vertex 0 ->
# vertex 2), using a CellBasis whose "quadrature" points sit on that edge
ref = np.array([[0., 1., 0.], [0., 0., 1.]])      # reference triangle
s = np.array([0.2, 0.37, 0.61, 0.9])
X = []
for c in range(2):
    a = int(np.nonzero(m.t[:, c] == 0)[0][0])     # local index of vertex 0
    b = int(np.nonzero(m.t[:, c] == 2)[0][0])     # local index of vertex 2
    X.append(np.outer(ref[:, a], 1 - s) + np.outer(ref[:, b], s))
X = np.hstack(X)
basis = CellBasis(m, ElementTriP3(), quadrature=(X, np.ones(X.shape[1])))
x = rng.standard_normal(basis.N)
xg = basis.global_coordinates().value
assert np.allclose(xg[:, 0, :4], xg[:, 1, 4:])    # same physical points
u = basis.interpolate(x).value
print("\nP3 function at 4 points of the shared edge, seen from cell 0 and "
      "from cell 1:\n", u[0, :4], "\n", u[1, 4:])
print("property demands: identical; observed max difference %.3e"
      % np.abs(u[0, :4] - u[1, 4:]).max())
if np.abs(u[0, :4] - u[1, 4:]).max() > 1e-8 and 'ElementTriP3' not in bad:
    bad.append('ElementTriP3(CellBasis)')

print("\nproperty C03 demands a single-valued trace (jump ~ 1e-12) for every "
      "conforming element.")
if bad:
    print("VIOLATED on the default-constructed MeshTri2 for:", ", ".join(bad))
    sys.exit(1)
print("all traces single valued")
sys.exit(0)
