"""C03-4 (loud): the one-sided traces of an ElementTriN3 function cannot be
evaluated at all.  ElementTriN3 overrides ElementHcurl.gbasis but only
implements the branch for local points shared by all cells (X.shape == (2, N));
the branch for per-cell local points (X.shape == (2, ncells, N)), which every
FacetBasis / InteriorFacetBasis / MortarFacetBasis and CellBasis.probes /
.interpolator uses, is missing.  The siblings ElementTriN1 and ElementTriN2
(which inherit ElementHcurl.gbasis) work.
"""
import sys
import numpy as np
from skfem import (MeshTri, CellBasis, FacetBasis, InteriorFacetBasis,
                   ElementTriN1, ElementTriN2, ElementTriN3)

m = MeshTri.init_sqsymmetric()
rng = np.random.default_rng(0)
failed = []

for elem in (ElementTriN1(), ElementTriN2(), ElementTriN3()):
    name = type(elem).__name__
    # (a) both one-sided traces on the interior facets
    try:
        s0 = InteriorFacetBasis(m, elem, side=0)
        s1 = InteriorFacetBasis(m, elem, side=1)
        x = rng.standard_normal(s0.N)
        d = s0.interpolate(x).value - s1.interpolate(x).value
        n = s0.normals.value
        jump = np.abs(-d[0] * n[1] + d[1] * n[0]).max()
        print("%-13s InteriorFacetBasis: max |[u.t]| = %.2e  "
              "(property demands ~1e-13)" % (name, jump))
        if jump > 1e-8:
            failed.append(name + " (discontinuous)")
    except Exception as e:
        print("%-13s InteriorFacetBasis: raised %s: %s"
              % (name, type(e).__name__, e))
        failed.append(name + " (InteriorFacetBasis raises)")
    # (b) boundary trace
    try:
        FacetBasis(m, elem)
        print("%-13s FacetBasis: ok" % name)
    except Exception as e:
        print("%-13s FacetBasis: raised %s" % (name, type(e).__name__))
        failed.append(name + " (FacetBasis raises)")
    # (c) point evaluation of the discrete function
    try:
        cb = CellBasis(m, elem)
        x = rng.standard_normal(cb.N)
        v = cb.probes(np.array([[.3, .6], [.2, .7]])) @ x
        print("%-13s CellBasis.probes: ok, values %s" % (name, v))
    except Exception as e:
        print("%-13s CellBasis.probes: raised %s" % (name, type(e).__name__))
        failed.append(name + " (probes raises)")

# the function itself is tangentially continuous - shown through the only path
# that works, a CellBasis with "quadrature" points on the reference edges
elem = ElementTriN3()
s = np.array([.15, .4, .8])
ref = np.array([[0., 1., 0.], [0., 0., 1.]])
lf = [[0, 1], [1, 2], [0, 2]]
X = np.hstack([np.outer(ref[:, a], 1 - s) + np.outer(ref[:, b], s)
               for a, b in lf])
cb = CellBasis(m, elem, quadrature=(X, np.ones(9)))
x = rng.standard_normal(cb.N)
u = cb.interpolate(x).value
worst = 0.
for f in np.nonzero(m.f2t[1] != -1)[0]:
    c0, c1 = m.f2t[:, f]
    l0 = int(np.nonzero(m.t2f[:, c0] == f)[0][0])
    l1 = int(np.nonzero(m.t2f[:, c1] == f)[0][0])
    tau = m.p[:, m.facets[1, f]] - m.p[:, m.facets[0, f]]
    tau /= np.linalg.norm(tau)
    d = u[:, c0, 3 * l0:3 * l0 + 3] - u[:, c1, 3 * l1:3 * l1 + 3]
    worst = max(worst, np.abs(tau @ d).max())
print("\nElementTriN3 via CellBasis with edge points (sorted cells, same "
      "parametrisation on both sides): max |[u.t]| = %.2e" % worst)

print("\nproperty C03 quantifies over all conforming elements, all interior "
      "facets and all points on them;\nthe library must at least be able to "
      "produce both one-sided traces.")
if failed:
    print("FAILED:", "; ".join(failed))
    sys.exit(1)
sys.exit(0)
