"""C10-3: MappingIsoparametric.invF uses an ABSOLUTE stopping tolerance of
1e-12 on the Newton update in reference coordinates.  For a mesh whose
coordinates are large compared with the cell size (|x|/h > ~1e4: UTM / CAD
coordinates, a unit disk centred at (1000,1000), ...) the update can never
drop below the round-off level eps*|x|/h > 1e-12, so the inverse map - and
with it every FacetBasis - raises although the iteration has converged.

Uses the public API only.  Exits 1 on the unmodified library.
"""
import sys
import numpy as np
from skfem import (MeshQuad, MeshTri2, ElementQuad1, ElementTriP2, FacetBasis,
                   CellBasis)

fail = False


def attempt(label, m, elem, demanded_len):
    global fail
    mp = m.mapping()
    X = np.array([[.2, .6, .1], [.3, .2, .7]])
    x = mp.F(X)
    try:
        Y = mp.invF(x)
        print("%s: invF(F(X)) max error %.2e" %
              (label, np.abs(Y - X[:, None]).max()))
    except Exception as ex:
        fail = True
        print("%s: invF(F(X)) RAISES %r" % (label, ex))
        Y = mp.invF(x, newton_tol=1e-9)
        print("   ... with newton_tol=1e-9 the same call returns, max error "
              "%.2e (the iteration does converge)" %
              np.abs(Y - X[:, None]).max())
    try:
        fb = FacetBasis(m, elem)
        xn = np.sum(fb.global_coordinates().value * fb.normals.value, axis=0)
        vol = CellBasis(m, elem).dx.sum()
        print("%s: FacetBasis ok, boundary length %.6f (demanded %.6f), "
              "oint x.n = %.6f, 2*area = %.6f"
              % (label, fb.dx.sum(), demanded_len, np.sum(xn * fb.dx), 2 * vol))
    except Exception as ex:
        fail = True
        print("%s: FacetBasis(...) RAISES %r" % (label, ex))


# 1 km x 1 km square, 100 m cells, UTM-like coordinates (easting 500 km,
# northing 4100 km): a perfectly regular first-order quadrilateral mesh
mq = MeshQuad.init_tensor(np.linspace(500000., 501000., 11),
                          np.linspace(4100000., 4101000., 11))
attempt("UTM quad mesh        ", mq, ElementQuad1(), 4000.)
# same mesh moved to the origin
attempt("same mesh at origin  ", mq.translated((-500000., -4100000.)),
        ElementQuad1(), 4000.)

# curved unit disk centred at (1000, 1000)
mc = MeshTri2.init_circle(3)
attempt("unit disk at (1e3,1e3)", mc.translated((1000., 1000.)),
        ElementTriP2(), 2 * np.pi)
attempt("unit disk at origin   ", mc, ElementTriP2(), 2 * np.pi)

if fail:
    print("\nDEFECT PRESENT: inverse map / FacetBasis unavailable for a valid "
          "mesh that is merely far from the origin")
    sys.exit(1)
print("\ninverse map works independently of the position of the mesh")
sys.exit(0)
