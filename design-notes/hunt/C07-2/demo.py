"""C07-2: on a periodic mesh that is only two cells wide in the periodic
direction the argument-free query ``get_dofs()`` returns NO boundary DOFs
although the domain has two walls; ``get_dofs(<wall facets>)`` of the two
walls' cells collapse onto one facet.

Uses only the public API.  Exits 1 on the unmodified library.  A library that
either returns the wall DOFs or refuses to build such a mesh (ValueError, as it
already does for one cell across) makes this script exit 0.
"""
import sys
import numpy as np
from skfem import (Basis, ElementQuad1, ElementTriP1, ElementHex1,
                   MeshQuad1DG, MeshTri1DG, MeshHex1DG)

fail = False


def run(label, build, elem):
    global fail
    try:
        m = build()
    except ValueError as e:
        print("{}: construction rejected ({}) -> acceptable".format(label, e))
        return
    basis = Basis(m, elem)
    # unit box, periodic in x only: the boundary of the domain consists of
    # the walls y = 0, y = 1 (and z = 0, z = 1 in 3-D); for a nodal P1/Q1
    # basis the DOFs on the boundary are those located on the walls
    w = basis.doflocs[1:]
    expected = np.nonzero((np.isclose(w, 0.) | np.isclose(w, 1.)).any(axis=0))[0]
    got = basis.get_dofs().flatten()
    ok = np.array_equal(got, expected)
    print("{}: ncells={}, boundary_facets()={}".format(
        label, m.nelements, m.boundary_facets()))
    print("   get_dofs()            got      {}".format(got))
    print("   DOFs on the walls     expected {}  -> {}".format(
        expected, "ok" if ok else "WRONG"))
    comp = basis.complement_dofs(basis.get_dofs())
    print("   complement_dofs       got {} of {} DOFs, expected {}".format(
        len(comp), basis.N, basis.N - len(expected)))
    fail |= not ok


yy = np.linspace(0, 1, 4)
for nx in (4, 3):   # 3 cells across (fine) and 2 cells across (defect)
    xx = np.linspace(0, 1, nx)
    run("MeshQuad1DG {} cells across".format(nx - 1),
        lambda: MeshQuad1DG.init_tensor(xx, yy, periodic=[0]), ElementQuad1())
    run("MeshTri1DG  {} cells across".format(nx - 1),
        lambda: MeshTri1DG.init_tensor(xx, yy, periodic=[0]), ElementTriP1())
    run("MeshHex1DG  {} cells across".format(nx - 1),
        lambda: MeshHex1DG.init_tensor(xx, yy, yy, periodic=[0]),
        ElementHex1())

if fail:
    print("FAIL: get_dofs() misses the boundary of a periodic mesh that is "
          "two cells wide")
    sys.exit(1)
print("OK")
