"""C02-3: supermesh quadrature has wrong weights on non-parallelogram quads.

``skfem.supermeshing.intersect`` + ``elementwise_quadrature`` produce a
per-cell quadrature rule (the integration points of a triangulated supermesh,
pulled back to the cells of the original mesh) that is handed to
``Basis(..., quadrature=..., elements=...)``; docs/examples/ex49.py does this
for a MeshQuad.  Integrating with that basis must give the integral over the
cells of the mesh.  For quadrilaterals that are not parallelograms the
weights are wrong and even the area of the domain is not reproduced.
"""
import sys
import numpy as np
from skfem import (MeshTri, MeshQuad, Basis, Functional, BilinearForm,
                   ElementTriP1, ElementQuad1)
from skfem.supermeshing import intersect, elementwise_quadrature

failures = 0


def check(label, got, expected, tol=1e-11):
    global failures
    ok = abs(got - expected) < tol
    failures += (not ok)
    print("  {:50s} got {:.12f}  exact {:.12f}  {}".format(
        label, got, expected, "ok" if ok else "WRONG"))


def run(title, pts, exact):
    print(title)
    mq = MeshQuad(pts, np.array([[0, 1, 2, 3]]).T).refined(1)
    mt = MeshTri(pts, np.array([[0, 1, 2], [0, 2, 3]]).T).refined(1)
    m12, t1, t2 = intersect(mt, mq)
    forms = [("int 1", lambda w: 1. + 0. * w.x[0]),
             ("int x", lambda w: w.x[0]),
             ("int y^2", lambda w: w.x[1] ** 2)]
    for mesh, elem, tind in ((mt, ElementTriP1(), t1),
                             (mq, ElementQuad1(), t2)):
        basis = Basis(mesh, elem,
                      quadrature=elementwise_quadrature(mesh, m12, tind,
                                                        intorder=4),
                      elements=tind)
        for (name, f), ex in zip(forms, exact):
            check("{:9s} {}".format(type(mesh).__name__, name),
                  Functional(f).assemble(basis), ex)
        M = BilinearForm(lambda u, v, w: u * v).assemble(basis)
        check("{:9s} sum of P1/Q1 mass entries (= area)"
              .format(type(mesh).__name__), M.sum(), exact[0])


# parallelogram (0,0) (2,0) (3,1) (1,1): area 2, int x = 3, int y^2 = 2/3
run("parallelogram (control)",
    np.array([[0., 2., 3., 1.], [0., 0., 1., 1.]]),
    (2., 3., 2. / 3))

# trapezoid (0,0) (2,0) (3/2,1) (1/4,1): width(y) = 2 - 3y/4
#   area = 13/8, int x = 49/32, int y^2 = 2/3 - 3/16 = 23/48
run("trapezoid",
    np.array([[0., 2., 1.5, .25], [0., 0., 1., 1.]]),
    (13. / 8, 49. / 32, 23. / 48))

if failures:
    print("FAIL: {} supermesh integrals are wrong".format(failures))
    sys.exit(1)
print("PASS")
