"""C18-2: joining two meshes with `+` moves the vertices: Mesh.__add__ rounds
all coordinates to 8 decimals (an ABSOLUTE tolerance) and returns the rounded
coordinates.

Property C18: joining meshes must produce a valid mesh whose cells occupy
exactly the expected point sets (same measure, same coordinates).  The property
is quantified over all meshes, so it must hold for a mesh given in metres that
describes a micrometre-sized device just as for the unit square.
"""
import sys
import numpy as np
from skfem import MeshTri, CellBasis, ElementTriP0


def areas(m):
    return CellBasis(m, ElementTriP0()).dx.sum(axis=1)


def cell_set(m):
    """cells as an order-independent collection of vertex-coordinate sets"""
    return sorted(sorted(map(tuple, np.round(m.p[:, c].T, 14))) for c in m.t.T)


# a 1 um x 1 um square (SI units, metres) with 7 x 3 subdivisions,
# and its neighbour to the right
um = 1e-6
x = um * np.linspace(0., 1., 8)
y = um * np.linspace(0., 1., 4)
a = MeshTri.init_tensor(x, y)
b = a.translated((um, 0.))

j = a + b

print("cells:", a.nelements, "+", b.nelements, "->", j.nelements)
print("vertices:", j.nvertices, "(property demands",
      a.nvertices + b.nvertices - len(y), ")")

# 1. coordinates: every vertex of the joined mesh must be a vertex of a or b
expected_pts = np.hstack((a.p, b.p))
dist = np.array([np.abs(expected_pts - q[:, None]).max(axis=0).min()
                 for q in j.p.T])
h_min = np.diff(x).min()
print(f"smallest mesh width          : {h_min:.3e}")
print(f"largest displacement of a vertex by the join: {dist.max():.3e} "
      f"= {dist.max() / h_min:.1%} of the smallest mesh width "
      "(property demands 0)")

# 2. measures of the cells
A_expected = np.sort(np.concatenate((areas(a), areas(b))))
A_joined = np.sort(areas(j))
rel = np.abs(A_joined - A_expected).max() / A_expected.min()
print(f"largest change of a cell area: {rel:.2%} of the smallest cell "
      "(property demands 0)")

# 3. same cells as before?
same_cells = cell_set(j) == sorted(cell_set(a) + cell_set(b))
print("joined mesh consists of the cells of a and b:", same_cells,
      "(property demands True)")

# for information: a 10 nm mesh collapses completely
n = MeshTri().refined(2).scaled((1e-8, 1e-8))
with np.errstate(all='ignore'):
    nn = n + n.translated((1e-8, 0.))
    areas(nn)
with np.errstate(all='ignore'):
    print(f"[info] 10 nm mesh: total area {areas(n).sum() * 2:.3e} expected, "
          f"{areas(nn).sum():.3e} after join; cells with zero area: "
          f"{int((areas(nn) == 0).sum())} of {nn.nelements}")

if dist.max() > 1e-12 * um or rel > 1e-9 or not same_cells:
    print("FAIL: `a + b` does not occupy the point set of a and b")
    sys.exit(1)
print("OK")
