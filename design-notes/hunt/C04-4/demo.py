"""C04-4: MeshWedge1 identifies a triangular facet by the sorted 4-tuple
(v0, v1, v2, v0) in which the *first local vertex* is repeated.  Two wedges
that share a triangle but start their local numbering at different corners of
it get two different facets: the facet tables (facets, t2f, f2t) disagree with
the vertex connectivity, the shared triangle is reported as boundary on both
sides, and the default boundary DOF set contains interior DOFs.
"""
import sys
import numpy as np
from skfem import (MeshTri, MeshLine, MeshWedge1, Basis, ElementWedge1,
                   Functional, Dofs)
from skfem.element import Element
from skfem.refdom import RefWedge


class ElementWedgeFacetP0(Element):
    """One DOF per facet of a wedge (only the DOF counts matter here)."""
    facet_dofs = 1
    refdom = RefWedge
    dofnames = ['u']
    doflocs = np.array([[.5, 0., .5], [.5, .5, .5], [0., .5, .5],
                        [1 / 3, 1 / 3, 0.], [1 / 3, 1 / 3, 1.]])


m0 = MeshTri().refined(1) * MeshLine(np.linspace(0, 1, 3))   # 2 layers
assert isinstance(m0, MeshWedge1)

# the same cells; in the upper layer every wedge starts its local numbering
# at the next corner of its triangles: (0,1,2 | 3,4,5) -> (1,2,0 | 4,5,3),
# which is an equally valid numbering of the reference wedge
t = m0.t.copy()
upper = m0.p[2, t].mean(axis=0) > 0.5
t[:, upper] = t[[1, 2, 0, 4, 5, 3]][:, upper]
m1 = MeshWedge1(m0.p, t)


def describe(m, label):
    basis = Basis(m, ElementWedge1())
    vol = Functional(lambda w: 1. + 0. * w.x[0]).assemble(basis)
    D = basis.get_dofs().flatten()                  # default: boundary DOFs
    x = basis.doflocs[:, D]
    interior = D[((x > 1e-12) & (x < 1 - 1e-12)).all(axis=0)]
    # ground truth from the vertex connectivity: two cells share a facet iff
    # they have >= 3 vertices in common
    shared_pairs = 0
    for i in range(m.nelements):
        for j in range(i + 1, m.nelements):
            shared_pairs += len(np.intersect1d(m.t[:, i], m.t[:, j])) >= 3
    n_int = int((m.f2t[1] != -1).sum())
    # DOF level: one DOF per facet, two cells must share a number iff they
    # share a facet
    ed = Dofs(m, ElementWedgeFacetP0()).element_dofs
    wrong_pairs = 0
    for i in range(m.nelements):
        for j in range(i + 1, m.nelements):
            share_facet = len(np.intersect1d(m.t[:, i], m.t[:, j])) >= 3
            share_dof = len(np.intersect1d(ed[:, i], ed[:, j])) > 0
            wrong_pairs += share_facet != share_dof
    print("{:28s} facet-DOF element: pairs of cells where 'share a number' "
          "!= 'share a facet': {}".format(label, wrong_pairs))
    print("{:28s} volume {:.3f}  nfacets {:3d}  interior facets {:2d} "
          "(pairs of cells sharing a facet: {:2d})  boundary facets {:2d}  "
          "boundary DOFs {:2d}, of which strictly inside the cube: {}"
          .format(label, vol, m.nfacets, n_int, shared_pairs,
                  len(m.boundary_facets()), len(D), interior.tolist()))
    return m.nfacets, n_int, shared_pairs, len(interior) + wrong_pairs


a = describe(m0, "extruded mesh")
b = describe(m1, "upper layer renumbered")

print()
bad = 0
for nf, n_int, pairs, n_inside in (a, b):
    bad += (n_int != pairs) + (n_inside != 0)
bad += a[0] != b[0]
if bad:
    print("DEFECT: facet tables / boundary DOFs depend on the local "
          "numbering of the wedges")
    sys.exit(1)
print("facet tables agree with the vertex connectivity")
