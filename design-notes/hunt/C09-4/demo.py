"""C09-4: lowest-order H(div) / H(curl) elements - the defining functionals
(facet fluxes, edge circulations) are not dual to the delivered basis for two
of the seven elements:

    ElementTetRT1 :  flux_k(phi_i)        = 1/2 * delta_ik   (siblings: 1)
    ElementTriN1  :  circulation_k(phi_i) =  -1 * delta_ik   (siblings: +1)

Functionals (the ones the library's own orientation code fixes):
  flux through facet k in the direction of the facet's global normal, i.e.
  out of cell mesh.f2t[0, facet];  circulation along edge k from its lower to
  its higher global vertex number (ElementHcurl.orient).
Only the public API is used (Element.gbasis, Mesh.mapping(), mapping.F/DF).
"""
import sys
import numpy as np
from skfem import MeshTri, MeshQuad, MeshTet, MeshHex
from skfem.element import (ElementTriRT1, ElementQuadRT1, ElementTetRT1,
                           ElementHexRT1, ElementTriN1, ElementQuadN1,
                           ElementTetN1)

np.set_printoptions(linewidth=200, precision=3, suppress=True)
g, w = np.polynomial.legendre.leggauss(4)
g = (g + 1) / 2
w = w / 2


def distorted(m, amp):
    r = np.random.default_rng(0)
    return type(m)(m.p + amp * (r.random(m.p.shape) - .5), m.t)


def facet_rule(refdom, k):
    """points on reference facet k (cell coordinates), the reference tangent
    vectors spanning it and the weights"""
    P = refdom.p
    f = refdom.facets[k]
    if refdom.dim() == 2:
        a, b = P[:, f[0]], P[:, f[1]]
        X = a[:, None] + np.outer(b - a, g)
        return X, [b - a], w
    S, T = [q.ravel() for q in np.meshgrid(g, g, indexing='ij')]
    W = np.outer(w, w).ravel()
    if len(f) == 3:        # triangle, Duffy transform
        a, b, c = (P[:, j] for j in f)
        X = a[:, None] + np.outer(b - a, S) + np.outer(c - a, T * (1 - S))
        return X, [b - a, c - a], W * (1 - S)
    a, b, c, d = (P[:, j] for j in f)     # quadrilateral, cyclic order
    X = a[:, None] + np.outer(b - a, S) + np.outer(d - a, T)
    return X, [b - a, d - a], W


def flux_matrix(e, m):
    """M[cell, k, i] = flux of global basis function i through facet k of the
    cell, in the direction of the global facet normal (out of f2t[0])."""
    mp = m.mapping()
    nt, nf = m.t.shape[1], e.refdom.nfacets
    xc = mp.F(e.refdom.p.mean(axis=1, keepdims=True))[:, :, 0]
    M = np.zeros((nt, nf, nf))
    for k in range(nf):
        X, T, W = facet_rule(e.refdom, k)
        DF = mp.DF(X)
        tg = [np.einsum('ijel,j->iel', DF, t) for t in T]
        if len(tg) == 1:
            n = np.array([tg[0][1], -tg[0][0]])
        else:
            n = np.cross(tg[0], tg[1], axis=0)
        out = np.sign(np.einsum('iel,iel->e', n, mp.F(X) - xc[:, :, None]))
        first = np.where(m.f2t[0, m.t2f[k]] == np.arange(nt), 1., -1.)
        n = n * (out * first)[None, :, None]
        for i in range(nf):
            v = np.array(e.gbasis(mp, X, i)[0])
            M[:, k, i] = np.einsum('iel,iel,l->e', v, n, W)
    return M


def circulation_matrix(e, m):
    """M[cell, k, i] = circulation of global basis function i along edge k of
    the cell, from the lower to the higher global vertex number."""
    mp = m.mapping()
    R = e.refdom
    edges = R.edges if R.dim() == 3 else R.facets
    nt, ne = m.t.shape[1], len(edges)
    M = np.zeros((nt, ne, ne))
    for k, (a, b) in enumerate(edges):
        X = R.p[:, [a]] + np.outer(R.p[:, b] - R.p[:, a], g)
        tg = np.einsum('ijel,j->iel', mp.DF(X), R.p[:, b] - R.p[:, a])
        tg = tg * np.where(m.t[a] < m.t[b], 1., -1.)[None, :, None]
        for i in range(ne):
            v = np.array(e.gbasis(mp, X, i)[0])
            M[:, k, i] = np.einsum('iel,iel,l->e', v, tg, w)
    return M


cases = [
    ('flux', ElementTriRT1(), MeshTri), ('flux', ElementQuadRT1(), MeshQuad),
    ('flux', ElementTetRT1(), MeshTet), ('flux', ElementHexRT1(), MeshHex),
    ('circulation', ElementTriN1(), MeshTri),
    ('circulation', ElementQuadN1(), MeshQuad),
    ('circulation', ElementTetN1(), MeshTet),
]
bad = []
print("{:<16s}{:<13s}{:>26s}{:>30s}".format(
    'element', 'functional', 'reference cell: diag', 'distorted mesh: max|M - I|'))
for kind, e, mcls in cases:
    fun = flux_matrix if kind == 'flux' else circulation_matrix
    Mref = fun(e, mcls.init_refdom())[0]
    m = distorted(mcls().refined(1), .08)
    M = fun(e, m)
    n = M.shape[1]
    dev = np.abs(M - np.eye(n)[None]).max()
    offdiag = np.abs(Mref - np.diag(np.diag(Mref))).max()
    print("{:<16s}{:<13s}{:>26s}{:>30.3e}".format(
        type(e).__name__, kind, str(np.round(np.diag(Mref), 3)), dev))
    assert offdiag < 1e-12
    if dev > 1e-10:
        bad.append(type(e).__name__)

if bad:
    print("\nDEFECT: functionals not dual to the basis (l_k(phi_i) != delta_ik)"
          " for: " + ', '.join(bad))
    sys.exit(1)
print("\nall checks passed")
