"""C02-4: intorder=n is not exact for degree-n polynomials on general convex
quadrilaterals, hexahedra and prisms.

``Basis(mesh, elem, intorder=n)`` is documented as "the degree of polynomials
that are integrated exactly by the used quadrature".  The tensor-product rules
for RefQuad / RefHex / RefWedge are built from the n-th order 1-D (and
triangle) rule without any allowance for the non-constant Jacobian of the
bi-/trilinear map, so on a straight-sided cell that is not a parallelogram /
parallelepiped / right prism the rule is one (quads, odd n) or two (hexahedra,
prisms) degrees too weak, on cells and on quadrilateral facets.
"""
import sys
import numpy as np
from skfem import (MeshQuad, MeshHex, MeshTri, MeshLine, Basis, FacetBasis,
                   Functional, ElementQuad0, ElementHex0, ElementWedge1)

failures = 0


def check(label, got, expected, tol=1e-12):
    global failures
    ok = abs(got - expected) < tol
    failures += (not ok)
    print("  {:58s} got {:.12f}  exact {:.12f}  {}".format(
        label, got, expected, "ok" if ok else "WRONG"))


def integral(basis, *exps):
    def f(w):
        out = 1. + 0. * w.x[0]
        for xi, e in zip(w.x, exps):
            out = out * xi ** e
        return out
    return Functional(f).assemble(basis)


# --- trapezoid (0,0) (2,0) (3/2,1) (1/4,1); width(y) = 2 - 3y/4 -------------
mq = MeshQuad(np.array([[0., 2., 1.5, .25], [0., 0., 1., 1.]]),
              np.array([[0, 1, 2, 3]]).T)
print("trapezoid, MeshQuad, one cell")
check("intorder=2: int y^2    = 2/3 - 3/16", integral(
    Basis(mq, ElementQuad0(), intorder=2), 0, 2), 2. / 3 - 3. / 16)
check("intorder=3: int y^3    = 1/2 - 3/20", integral(
    Basis(mq, ElementQuad0(), intorder=3), 0, 3), 7. / 20)
check("intorder=5: int y^5    = 1/3 - 3/28", integral(
    Basis(mq, ElementQuad0(), intorder=5), 0, 5), 1. / 3 - 3. / 28)
check("intorder=3, refined(2): int y^3", integral(
    Basis(mq.refined(2), ElementQuad0(), intorder=3), 0, 3), 7. / 20)

# --- frustum: [0,2]^2 at z=0 shrinking to [0,1]^2 at z=1 (planar faces) ------
mh = MeshHex()
p = mh.p.copy()
p[:2] *= (2. - p[2])
mh = MeshHex(p, mh.t)
print("square frustum, MeshHex, one cell")
check("intorder=2: volume     = 7/3", integral(
    Basis(mh, ElementHex0(), intorder=2), 0, 0, 0), 7. / 3)
check("intorder=2: int z^2    = 8/15", integral(
    Basis(mh, ElementHex0(), intorder=2), 0, 0, 2), 8. / 15)
check("intorder=2: int x^2    = 31/15", integral(
    Basis(mh, ElementHex0(), intorder=2), 2, 0, 0), 31. / 15)
check("intorder=4: int z^4    = 4/5 - 2/3 + 1/7", integral(
    Basis(mh, ElementHex0(), intorder=4), 0, 0, 4), 4. / 5 - 2. / 3 + 1. / 7)
# the trapezoidal face y = 0: (0,0,0) (2,0,0) (1,0,1) (0,0,1)
face = mh.facets_satisfying(lambda x: np.isclose(x[1], 0.))
check("facet y=0, intorder=3: int z^3 = 1/2 - 1/5", integral(
    FacetBasis(mh, ElementHex0(), intorder=3, facets=face), 0, 0, 3), 3. / 10)

# --- triangular frustum, MeshWedge1 -------------------------------------------
mw = MeshTri() * MeshLine()
p = mw.p.copy()
p[:2] *= (2. - p[2])
mw = type(mw)(p, mw.t)
print("frustum over the unit square split in two prisms, MeshWedge1")
check("intorder=2: volume     = 7/3", integral(
    Basis(mw, ElementWedge1(), intorder=2), 0, 0, 0), 7. / 3)
check("intorder=2: int z^2    = 8/15", integral(
    Basis(mw, ElementWedge1(), intorder=2), 0, 0, 2), 8. / 15)

if failures:
    print("FAIL: {} integrals of polynomials of degree <= intorder are "
          "inexact".format(failures))
    sys.exit(1)
print("PASS")
