"""C10-1: MappingIsoparametric.invF silently returns a WRONG reference point
(outside the reference tetrahedron) on a valid, mildly curved MeshTet2 cell;
FacetBasis then silently delivers wrong reference points / normals and the
divergence theorem  oint x.n ds = 3 |K|  is violated.

Uses the public API only.  Exits 1 on the unmodified library.
"""
import sys
import numpy as np
from skfem import MeshTet2, ElementTetP2, CellBasis, FacetBasis

# one quadratic tetrahedron: the 4 vertices of the unit simplex followed by
# the 6 edge nodes (edges 01,02,03,12,13,23), each moved by at most 0.1 away
# from the straight edge midpoint.
p = np.array([
    [0., 1., 0., 0., 0.53, 0.06, -0.02, 0.42, 0.59, -0.06],
    [0., 0., 1., 0., -0.07, 0.45, 0.09, 0.53, -0.02, 0.41],
    [0., 0., 0., 1., 0.10, 0.10, 0.54, -0.06, 0.51, 0.59],
])
t = np.array([[0], [1], [2], [3]])
m = MeshTet2(p, t)
mp = m.mapping()
print("mesh:", type(m).__name__, "mapping:", type(mp).__name__)

rng = np.random.default_rng(5)
X = m.refdom.p @ rng.dirichlet(np.ones(4), size=20000).T   # uniform in ref tet
Xall = np.hstack([X, m.refdom.p])
det = mp.detDF(Xall)
print("admissibility: det DF on 20004 points of the reference tet in "
      "[%.3f, %.3f]  (strictly positive -> F is a valid cell map)"
      % (det.min(), det.max()))
assert det.min() > 0.2

fail = False

# ---- clause 1: cell map and its inverse compose to the identity -----------
x = mp.F(X)
Y = mp.invF(x)[:, 0]                       # no exception is raised
err = np.abs(Y - X).max(axis=0)
bad = np.nonzero(err > 1e-8)[0]
print("\ninvF(F(X)) == X demanded for all %d points; violated at %d points"
      % (X.shape[1], len(bad)))
for k in bad[:3]:
    print("  X = %s  ->  invF(F(X)) = %s   (sum of coords %.3f > 1: outside"
          " the reference tet;  |F(Y)-x| = %.1e, det DF(Y) = %.3f)"
          % (np.round(X[:, k], 4), np.round(Y[:, k], 4), Y[:, k].sum(),
             np.abs(mp.F(Y[:, [k]])[:, 0, 0] - x[:, 0, k]).max(),
             mp.detDF(Y[:, [k]])[0, 0]))
if len(bad):
    fail = True

# ---- clause 2: facet points / normals / divergence theorem ----------------
e = ElementTetP2()
vol = CellBasis(m, e, intorder=8).dx.sum()
print("\n3 * volume = %.12f" % (3 * vol))
for intorder in (8, 10, 18):
    fb = FacetBasis(m, e, intorder=intorder)
    xn = np.sum(fb.global_coordinates().value * fb.normals.value, axis=0)
    val = np.sum(xn * fb.dx)
    # the reference points the basis is evaluated at
    Yf = mp.invF(mp.G(fb.X, fb.find), fb.tind)
    outside = int((Yf.sum(axis=0) > 1 + 1e-9).sum())
    ok = abs(val - 3 * vol) < 1e-10
    print("FacetBasis(intorder=%2d): oint x.n ds = %.12f  (%s), facet "
          "quadrature points pulled back outside the reference tet: %d"
          % (intorder, val, "ok" if ok else "WRONG, demanded %.12f" % (3 * vol),
             outside))
    if not ok or outside:
        fail = True

if fail:
    print("\nDEFECT PRESENT: inverse map / facet normals are silently wrong")
    sys.exit(1)
print("\nall identities hold")
sys.exit(0)
