"""C15-2: solve() rewrites the arrays of its matrix operand in place.

``skfem.utils.rcm`` (a public helper whose only purpose is to prepare a
system for ``solve``) returns a CSR matrix whose column indices are not
sorted within the rows.  ``solve(A, b)`` hands the very same object to
``scipy.sparse.linalg.spsolve`` (``solver_direct_scipy``) and SciPy
canonicalises *its argument* in place (``A.sum_duplicates()``): afterwards
``A.indices`` and ``A.data`` of the caller's matrix have been permuted.
The generalised eigenvalue branch (``solve(K, M, solver=
solver_eigen_scipy_sym(sigma=0))``) does the same through ``splu``.

Property C15: "Operations that return new objects (... solve) leave the
arrays of their operands bit-for-bit unchanged."
"""
import sys
import numpy as np
from skfem import (MeshTri, Basis, ElementTriP2, BilinearForm, LinearForm,
                   solve, condense)
from skfem.helpers import dot, grad
from skfem.utils import rcm, solver_eigen_scipy_sym

m = MeshTri().refined(2)
basis = Basis(m, ElementTriP2())
K = BilinearForm(lambda u, v, w: dot(grad(u), grad(v)) + u * v).assemble(basis)
M = BilinearForm(lambda u, v, w: u * v).assemble(basis)
f = LinearForm(lambda v, w: 1. * v).assemble(basis)


def snapshot(A):
    return A.data.tobytes(), A.indices.tobytes(), A.indptr.tobytes()


def report(name, A, before):
    after = snapshot(A)
    changed = [n for n, x, y in zip(('data', 'indices', 'indptr'),
                                    before, after) if x != y]
    print("%-45s arrays changed in place: %s" % (name, changed or "none"))
    return bool(changed)


bad = False

# 1. linear system: the documented use of rcm
A, b, perm = rcm(K, f)
print("rcm(K, f)[0]: format=%s, has_sorted_indices=%s"
      % (A.format, A.has_sorted_indices))
before = snapshot(A)
b0 = b.copy()
row0 = (A.indices[A.indptr[5]:A.indptr[6]].copy(),
        A.data[A.indptr[5]:A.indptr[6]].copy())
x = solve(A, b)
bad |= report("solve(A, b)            [solver_direct_scipy]", A, before)
print("   row 5 before: indices", row0[0], "\n   row 5 after : indices",
      A.indices[A.indptr[5]:A.indptr[6]])
assert np.array_equal(b, b0)

# 2. eigenvalue problem with the same kind of operand
A, _, _ = rcm(K, f)
before = snapshot(A)
solve(A, M, solver=solver_eigen_scipy_sym(k=2, sigma=0.))
bad |= report("solve(A, M, solver_eigen_scipy_sym(sigma=0))", A, before)

# for comparison: the canonical matrix is left alone
before = snapshot(K)
solve(K, f)
report("solve(K, f)            [K canonical]", K, before)

if bad:
    print("\nDEFECT: solve() modified the arrays of its matrix operand")
    sys.exit(1)
print("\nOK: operands unchanged")
