"""C19-4: COOData.tolocal(basis) - per-cell matrices built from facet
assemblies are not consistent with the assembled global matrix.

Property: the per-cell local matrices L[k] returned by
`form.elemental(fbasis).tolocal(fbasis)` scattered with the cell's DOF numbers,
    G[element_dofs[:, k], element_dofs[:, k]] += L[k]      for all cells k,
give back the assembled matrix `form.assemble(fbasis)`.
"""
import sys
import warnings
import numpy as np
from skfem import (MeshTri, MeshTet, Basis, FacetBasis, InteriorFacetBasis,
                   ElementTriP1, ElementTriP2, ElementTriP0, ElementTetP1,
                   BilinearForm, LinearForm)

fail = []


def scatter(m, cb, local, shape, dtype):
    G = np.zeros(shape, dtype=dtype)
    ed = cb.element_dofs
    for k in range(m.nelements):
        if len(shape) == 2:
            G[np.ix_(ed[:, k], ed[:, k])] += local[k]
        else:
            np.add.at(G, ed[:, k], local[k])
    return G


def check(name, m, fb, form):
    cb = Basis(m, fb.elem)
    coo = form.elemental(fb)
    A = form.assemble(fb)
    A = A.toarray() if hasattr(A, 'toarray') else A
    with warnings.catch_warnings(record=True) as ws:
        warnings.simplefilter('always')
        local = coo.tolocal(fb)
    G = scatter(m, cb, local, A.shape, A.dtype)
    err = abs(G - A).max()
    print("==", name)
    print("  local matrices: shape {}, dtype {}   (data dtype {})"
          .format(local.shape, local.dtype, coo.data.dtype))
    print("  |scatter(local) - assembled|_max = {:.3e}   (|assembled|_max = "
          "{:.3e}; property demands round-off)".format(err, abs(A).max()))
    if ws:
        print("  warnings:", sorted({str(w.message) for w in ws}))
    if err > 1e-12:
        fail.append(name)


m = MeshTri.init_sqsymmetric().refined(1)
e = ElementTriP2() * ElementTriP0()
mass = BilinearForm(lambda u, p, v, q, w: u * v + p * q + u * q)

# control: real form on the boundary facets
check("FacetBasis (boundary), real form", m, FacetBasis(m, e), mass)

# 1. interior facets, either side
check("InteriorFacetBasis side=0, real form", m,
      InteriorFacetBasis(m, e, side=0), mass)
check("InteriorFacetBasis side=1, real form", m,
      InteriorFacetBasis(m, e, side=1), mass)
check("FacetBasis(facets = interior line x=0.5), real form", m,
      FacetBasis(m, e, facets=m.facets_satisfying(lambda x: x[0] == .5)),
      mass)
check("InteriorFacetBasis side=0, linear form", m,
      InteriorFacetBasis(m, e, side=0),
      LinearForm(lambda v, q, w: v * w.x[0] + q))
mt = MeshTet().refined(1)
check("InteriorFacetBasis on tets", mt, InteriorFacetBasis(mt, ElementTetP1()),
      BilinearForm(lambda u, v, w: u * v))

# 2. complex form on the boundary facets (impedance boundary condition)
imp = BilinearForm(lambda u, p, v, q, w: 1j * u * v + (2 - 1j) * p * q,
                   dtype=np.complex128)
check("FacetBasis (boundary), complex form", m, FacetBasis(m, e), imp)

print()
if fail:
    print("FAIL:")
    for f in fail:
        print("  -", f)
    sys.exit(1)
print("OK")
