"""C15-4: map evaluations hand out the lazily filled cache itself (aliasing).

``MappingIsoparametric.J`` memoises the Jacobian entries per ``(i, j, X, tind)``
and returns *the cached array object*.  In 1-D ``detDF`` is literally
``J[0][0]``, so ``mapping.detDF(X)`` returns the cache as well (the 2-D / 3-D
branches and every method of the sibling ``MappingAffine`` return fresh
arrays).  A caller who post-processes "its" result in place thereby rewrites
the hidden state of the mesh's shared mapping object, and every basis that is
built afterwards on the same mesh with the same quadrature points is silently
wrong.

Property C15: "Every result (... map evaluations, basis evaluations, assembled
tensors ...) is the same whether computed first in a fresh interpreter or after
any sequence of other operations that reused the same mesh ... objects."
(aliasing between a returned result and a cache is exactly the kind of hidden
state that single-shot tests cannot see).
"""
import sys
import numpy as np
from skfem import (MeshLine1DG, MeshQuad, Basis, ElementLineP1, ElementQuad1,
                   BilinearForm)


def mass(u, v, w):
    return u * v


def fresh_line():
    return MeshLine1DG.init_tensor(np.array([0., .1, .3, .6, 1.]),
                                   periodic=[0])


bad = False

# ---- 1-D periodic mesh (isoparametric mapping, dim = 1) -------------------
m = fresh_line()
e = ElementLineP1()
X = Basis(m, e).X                         # the default quadrature points

reference = BilinearForm(mass).assemble(Basis(fresh_line(), e)).toarray()

h1 = m.mapping().detDF(X)                 # public map evaluation: |F'| = h
h2 = m.mapping().detDF(X)
print("two evaluations of detDF return the same array object:", h1 is h2)
try:
    h1 /= h1.max()                        # caller normalises ITS result
    print("relative element sizes:", h1[:, 0])
except ValueError as exc:                 # a read-only cache is a valid repair
    print("in-place change rejected:", exc)

h3 = m.mapping().detDF(X)
print("detDF replayed on the same mesh :", h3[:, 0])
print("detDF on a fresh equal mesh     :", fresh_line().mapping().detDF(X)[:, 0])
M = BilinearForm(mass).assemble(Basis(m, e)).toarray()
err = np.abs(M - reference).max()
print("mass matrix assembled afterwards, max deviation from a fresh replay:",
      err)
print("total length sum(M) = %.6f (must be 1)" % M.sum())
bad |= err > 1e-12

# ---- 2-D: the memoised Jacobian entry -------------------------------------
m = MeshQuad().refined(1)
e = ElementQuad1()
b0 = Basis(m, e)
J00 = m.mapping().J(0, 0, b0.X)
try:
    J00 *= 2.
except ValueError as exc:
    print("in-place change rejected:", exc)
b1 = Basis(m, e)
ref = Basis(MeshQuad().refined(1), e)
err = np.abs(b1.dx - ref.dx).max()
print("2-D: Basis(m, e).dx after the caller scaled a returned J entry, "
      "max deviation from a fresh replay:", err)
bad |= err > 1e-12

if bad:
    print("\nDEFECT: results depend on what the caller did with an earlier "
          "result (result aliases the hidden cache)")
    sys.exit(1)
print("\nOK: results are independent copies")
