"""C16 - threaded assembly must equal serial assembly.

Serial assembly evaluates the form in the caller's thread and therefore under
the caller's floating point error state (np.errstate / np.seterr, which numpy
keeps per thread / per context).  BilinearForm._assemble with nthreads >= 1
evaluates the form in fresh threading.Thread objects which start from numpy's
DEFAULT error state - the caller's setting is lost on the way to the workers.

Consequences shown here for the same form, bases and parameters:

 (a) caller silences divide-by-zero (np.errstate(divide='ignore')) for a
     guarded 1/r weight: serial assembly is silent, threaded assembly emits
     RuntimeWarnings from every worker;
 (b) same, in a program that turns warnings into errors (python -W error,
     pytest filterwarnings=error): serial assembly returns the correct
     matrix, threaded assembly returns an ALL-ZERO matrix (the warning becomes
     an exception inside the workers, which is dropped);
 (c) caller asks numpy to raise (np.errstate(divide='raise')): serial
     assembly raises FloatingPointError, threaded assembly returns a matrix.

The demo exits non-zero if (a) or (b) differ between serial and threaded
assembly for some thread count 1..Nbfun^2+2; (c) is printed for information.
"""
import sys
import threading
import warnings

import numpy as np
from skfem import MeshLine, Basis, BilinearForm, ElementLineP1

threading.excepthook = lambda args: None   # tracebacks of workers: stderr only

# axisymmetric-type weight 1/r, guarded at the axis r=0; Gauss-Lobatto
# (Simpson) points so that a quadrature point sits on the axis
m = MeshLine(np.linspace(0., 1., 5))
basis = Basis(m, ElementLineP1(),
              quadrature=(np.array([[0., .5, 1.]]), np.array([1., 4., 1.]) / 6))


def form(u, v, w):
    r = w.x[0]
    return np.where(r > 0., 1. / r, 0.) * u * v


npairs = basis.Nbfun ** 2
counts = list(range(1, npairs + 3))
failures = []

# (a) warnings recorded ------------------------------------------------------
with np.errstate(divide='ignore'):
    with warnings.catch_warnings(record=True) as rec:
        warnings.simplefilter('always')
        serial = BilinearForm(form).assemble(basis).toarray()
    nserial = len(rec)
    print("(a) serial: finite matrix = {}, warnings = {}"
          .format(bool(np.isfinite(serial).all()), nserial))
    for nthreads in counts:
        with warnings.catch_warnings(record=True) as rec:
            warnings.simplefilter('always')
            out = (BilinearForm(form, nthreads=nthreads)
                   .assemble(basis).toarray())
        print("    nthreads={}: equal to serial = {}, warnings = {}"
              .format(nthreads, np.array_equal(out, serial), len(rec)))
        if len(rec) != nserial or not np.array_equal(out, serial):
            failures.append(('a', nthreads))

# (b) warnings are errors ----------------------------------------------------
with np.errstate(divide='ignore'), warnings.catch_warnings():
    warnings.simplefilter('error')
    serial = BilinearForm(form).assemble(basis).toarray()
    print("(b) serial matrix (warnings are errors):")
    print(serial.round(4))
    for nthreads in counts:
        try:
            out = (BilinearForm(form, nthreads=nthreads)
                   .assemble(basis).toarray())
            desc = ("equal to serial" if np.array_equal(out, serial) else
                    "DIFFERENT matrix returned, {} non-zeros instead of {}"
                    .format(np.count_nonzero(out), np.count_nonzero(serial)))
            ok = np.array_equal(out, serial)
        except Exception as e:
            desc, ok = "raises {}".format(type(e).__name__), False
        print("    nthreads={}: {}".format(nthreads, desc))
        if not ok:
            failures.append(('b', nthreads))

# (c) caller wants exceptions ------------------------------------------------
with np.errstate(divide='raise'):
    try:
        BilinearForm(form).assemble(basis)
        print("(c) serial: returns")
    except FloatingPointError as e:
        print("(c) serial: raises FloatingPointError ({})".format(e))
    with warnings.catch_warnings():
        warnings.simplefilter('ignore')
        for nthreads in (1, 2):
            try:
                BilinearForm(form, nthreads=nthreads).assemble(basis)
                print("    nthreads={}: returns a matrix (info only)"
                      .format(nthreads))
            except FloatingPointError:
                print("    nthreads={}: raises FloatingPointError"
                      .format(nthreads))

print("property demands: identical result and identical behaviour for every "
      "thread count")
if failures:
    print("FAIL: serial and threaded assembly differ in {} cases: {}"
          .format(len(failures), failures))
    sys.exit(1)
print("PASS")
