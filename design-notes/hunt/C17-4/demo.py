"""C17-4: a named boundary / subdomain that is EMPTY (a perfectly legal result
of with_boundaries / with_subdomains with a predicate that matches nothing)
comes back from the dictionary / JSON form as a float64 array.  The reloaded
mesh is not equivalent to the saved one: every use of the tag as an index set
raises IndexError, and the reloaded mesh cannot even be saved again through
meshio.
"""
import os
import sys
import tempfile
import logging

import numpy as np

from skfem import Mesh, MeshTri1, MeshQuad1, MeshTet1, MeshHex1
import skfem.io.json as skjson

logging.disable(logging.WARNING)
tmp = tempfile.mkdtemp()
failures = []

for cls in [MeshTri1, MeshQuad1, MeshTet1, MeshHex1]:
    m = (cls().refined(1)
         .with_boundaries({'left': lambda x: x[0] == 0.,
                           'contact': lambda x: x[0] < -1.})     # no facet
         .with_subdomains({'all': lambda x: x[0] > -1.,
                           'inclusion': lambda x: x[0] > 2.}))   # no cell
    fname = os.path.join(tmp, 'mesh.json')
    skjson.to_file(m, fname)
    for label, m2 in [('json', skjson.from_file(fname)),
                      ('dict', cls.from_dict(m.to_dict()))]:
        print('%s via %s' % (cls.__name__, label))
        for kind, tags, tags2 in [('boundary', m.boundaries, m2.boundaries),
                                  ('subdomain', m.subdomains, m2.subdomains)]:
            for name in tags:
                a, b = tags[name], tags2[name]
                ok = (np.issubdtype(b.dtype, np.integer)
                      and np.array_equal(np.sort(a), np.sort(b)))
                print('   %-9s %-10s saved %-8s len %d -> loaded %-8s len %d   %s'
                      % (kind, name, a.dtype, len(a), b.dtype, len(b),
                         'ok' if ok else 'NOT AN INDEX SET'))
                if not ok:
                    failures.append('%s %s %s %s' % (cls.__name__, label, kind, name))
        # the tag must be usable like on the original mesh
        print('   original: facets of "contact":',
              m.facets[:, m.boundaries['contact']].shape,
              ' cells of "inclusion":', m.t[:, m.subdomains['inclusion']].shape)
        try:
            print('   reloaded: facets of "contact":',
                  m2.facets[:, m2.boundaries['contact']].shape,
                  ' cells of "inclusion":',
                  m2.t[:, m2.subdomains['inclusion']].shape)
        except Exception as e:
            print('   reloaded: %s: %s' % (type(e).__name__, e))
            failures.append('%s %s indexing' % (cls.__name__, label))
        # and the reloaded mesh must be exportable again
        m.save(os.path.join(tmp, 'orig.vtk'))
        try:
            m2.save(os.path.join(tmp, 'again.vtk'))
            print('   reloaded mesh saved to vtk: ok')
        except Exception as e:
            print('   reloaded mesh cannot be saved to vtk: %s: %s'
                  % (type(e).__name__, e))
            failures.append('%s %s re-save' % (cls.__name__, label))

print()
print('The property demands that the loaded mesh carries the same tagged '
      'entity sets (here: empty integer index sets).')
if failures:
    print('VIOLATED:', len(failures), 'checks failed, e.g.', failures[:4])
    sys.exit(1)
print('empty tags round-trip')
