"""C07-1: predicate / tag selectors on periodic (MeshDG) meshes pick the
wrong facets and cells, so ``get_dofs(<predicate>)`` silently returns DOFs
that do not belong to the selected entities.

Uses only the public API.  Exits 1 on the unmodified library.
"""
import sys
import numpy as np
from skfem import (Basis, ElementQuad1, ElementTriP1, ElementHex1,
                   MeshQuad1DG, MeshTri1DG, MeshHex1DG)

fail = False


def true_facet_index_array(basis, test):
    """Facets whose *true* midpoint satisfies ``test``.

    Independent of Mesh.facets_satisfying: the vertex coordinates of each
    cell are read from the (correct) DOF locations of a P1/Q1 basis.
    """
    m = basis.mesh
    loc_facets = m.refdom.facets
    out = []
    for j, loc in enumerate(loc_facets):
        # (dim, nverts_of_facet, ncells) -> midpoint of local facet j
        mid = basis.doflocs[:, basis.element_dofs[loc]].mean(axis=1)
        out.append(m.t2f[j, np.nonzero(test(mid))[0]])
    return np.unique(np.concatenate(out)).astype(np.int32)


def check(label, got, expected):
    global fail
    ok = np.array_equal(np.sort(got), np.sort(expected))
    print("  {:<34s} got {}\n  {:<34s} expected {}  -> {}".format(
        label, np.asarray(got), "", np.asarray(expected),
        "ok" if ok else "WRONG"))
    fail |= not ok


cases = [
    ("MeshQuad1DG, periodic in x", ElementQuad1(),
     MeshQuad1DG.init_tensor(np.linspace(0, 1, 5), np.linspace(0, 1, 4),
                             periodic=[0])),
    ("MeshTri1DG, periodic in x", ElementTriP1(),
     MeshTri1DG.init_tensor(np.linspace(0, 1, 5), np.linspace(0, 1, 4),
                            periodic=[0])),
    ("MeshHex1DG, periodic in x", ElementHex1(),
     MeshHex1DG.init_tensor(np.linspace(0, 1, 4), np.linspace(0, 1, 4),
                            np.linspace(0, 1, 4), periodic=[0])),
]

for name, elem, m in cases:
    print(name)
    basis = Basis(m, elem)

    def bottom(x):
        return np.isclose(x[1], 0.)

    def lower(x):
        return x[1] < 0.34

    # what the property demands: the DOFs of a nodal P1/Q1 basis that sit
    # on the wall y = 0 (the wall is not periodic, it is a genuine boundary)
    on_wall = np.nonzero(bottom(basis.doflocs))[0]

    # the same subset named by an explicit index array -> this is correct
    ix = true_facet_index_array(basis, bottom)
    check("index array of wall facets", basis.get_dofs(ix).flatten(), on_wall)

    # ... named by a predicate on the facet midpoints
    check("predicate on facet midpoints", basis.get_dofs(bottom).flatten(),
          on_wall)

    # ... named by a tag defined through the same predicate
    mt = m.with_boundaries({'wall': bottom})
    check("tag 'wall' (with_boundaries)",
          Basis(mt, elem).get_dofs('wall').flatten(), on_wall)

    # cells: lowest layer of cells, by predicate on cell midpoints
    in_layer = np.nonzero(basis.doflocs[1] < 0.34)[0]
    check("elements=predicate (lowest layer)",
          basis.get_dofs(elements=lower).flatten(), in_layer)
    print()

if fail:
    print("FAIL: predicate/tag selectors disagree with the index-array "
          "selector on periodic meshes")
    sys.exit(1)
print("OK")
