"""C05-4: penalize() with the default penalty parameter returns the system
unchanged (penalty 1/epsilon = 0, right-hand side x/epsilon = 0) when the
diagonal of A vanishes on all constrained DOFs - e.g. rows without stored
entries of a matrix assembled on a subdomain, or the pressure block of a
saddle point system.

Property: "'penalize' agrees [with condense/enforce] up to its penalty
parameter" for all sparse matrices, "including rows with no stored entries".
"""
import sys
import warnings

import numpy as np
import scipy.sparse as sp

from skfem import (MeshTri, Basis, ElementTriP1, BilinearForm, LinearForm,
                   condense, enforce, penalize, solve)
from skfem.helpers import dot, grad

warnings.simplefilter("ignore")

# reaction-diffusion problem posed on the subdomain {x < 1/2} of a mesh of
# the unit square (natural b.c.); the DOFs outside the subdomain do not
# belong to the problem and are fixed to a prescribed value.
m = MeshTri().refined(2).with_subdomains({'omega': lambda x: x[0] < .5})
basis = Basis(m, ElementTriP1())
sub = Basis(m, ElementTriP1(), elements='omega')


@BilinearForm
def a(u, v, _):
    return dot(grad(u), grad(v)) + u * v


@LinearForm
def load(v, w):
    return (1. + w.x[1]) * v


A = a.assemble(sub)
b = load.assemble(sub)
inside = basis.get_dofs(elements='omega')
D = basis.complement_dofs(inside)            # DOFs outside the subdomain
I = inside.flatten()
print("stored entries in the constrained rows:", A[D].nnz,
      "   diagonal on D:", A.diagonal()[D])

x = np.zeros(basis.N)
x[D] = 7.                                    # prescribed values

u_c = solve(*condense(A, b, x=x, D=D))
u_e = solve(*enforce(A, b, x=x, D=D))
print("condense: max|u[D]-x[D]| = %.1e, max|(Au-b)[I]| = %.1e"
      % (np.abs(u_c[D] - x[D]).max(), np.abs((A @ u_c - b)[I]).max()))
print("enforce : max|u[D]-x[D]| = %.1e, max|u-u_condense| = %.1e"
      % (np.abs(u_e[D] - x[D]).max(), np.abs(u_e - u_c).max()))

Ap, bp = penalize(A, b, x=x, D=D)
print("penalize: diagonal on D =", Ap.diagonal()[D])
print("          rhs on D      =", bp[D])
print("          (property: a large penalty 1/eps on the diagonal and "
      "x/eps on the right-hand side)")
u_p = solve(Ap, bp)
err = np.abs(u_p - u_c).max()
print("penalize: max|u-u_condense| =", err, "  (property: O(epsilon))")

# same thing for an explicit epsilon works, i.e. only the default is broken
u_p2 = solve(*penalize(A, b, x=x, D=D, epsilon=1e-10))
print("penalize(epsilon=1e-10): max|u-u_condense| = %.1e"
      % np.abs(u_p2 - u_c).max())

# second common case: pin one pressure DOF of a saddle point system
K = sp.bmat([[sp.identity(3), np.array([[1.], [1.], [1.]])],
             [np.array([[1., 1., 1.]]), None]], 'csr')
Kp = penalize(K, D=np.array([3]))
print("saddle point system, pinned multiplier: penalized diagonal entry =",
      Kp.diagonal()[3], " (property: 1/epsilon, large)")

if not (np.isfinite(err) and err < 1e-6) or Kp.diagonal()[3] == 0.:
    print("FAIL: penalize did not impose the constraints")
    sys.exit(1)
print("PASS")
