"""C19-1: ElementVector(elem, dim) with dim != mesh.dim() loses the edge/facet DOFs.

A 2-component P2 field on a tetrahedral mesh (ElementVector(ElementTetP2(), 2))
must be the same thing as two scalar P2 fields: N = 2 * N_scalar, every
diagonal block of the vector mass matrix = the scalar mass matrix, and
interpolating the whole vector = interpolating each split component.
"""
import sys
import numpy as np
from skfem import (MeshTet, MeshTri, Basis, ElementVector, ElementTetP2,
                   ElementTriP2, BilinearForm, Functional)
from skfem.helpers import dot

fail = []


def check(m, scalar_elem, ncomp, fun):
    name = "{} / ElementVector({}(), {})".format(
        type(m).__name__, type(scalar_elem).__name__, ncomp)
    print("==", name)
    sb = Basis(m, scalar_elem)
    vb = Basis(m, ElementVector(scalar_elem, ncomp), quadrature=sb.quadrature)

    # (a) size of the space
    print("  DOFs of the vector basis      :", vb.N,
          "  (property demands {} x {} = {})".format(ncomp, sb.N,
                                                     ncomp * sb.N))
    print("  local basis functions per cell:", vb.Nbfun,
          "  (property demands {})".format(ncomp * sb.Nbfun))
    if vb.N != ncomp * sb.N or vb.Nbfun != ncomp * sb.Nbfun:
        fail.append(name + ": wrong number of DOFs")

    # (b) block structure of a coupling form
    M = BilinearForm(lambda u, v, w: dot(u, v)).assemble(vb).toarray()
    Ms = BilinearForm(lambda u, v, w: u * v).assemble(sb).toarray()
    ix = vb.split_indices()
    for k in range(ncomp):
        blk = M[np.ix_(ix[k], ix[k])]
        if blk.shape != Ms.shape:
            print("  mass block ({0},{0}) has shape {1}, scalar mass matrix "
                  "has shape {2}".format(k, blk.shape, Ms.shape))
            fail.append(name + ": block {} has wrong shape".format(k))
        else:
            d = abs(blk - Ms).max()
            print("  mass block ({0},{0}) - scalar mass: {1:.2e}".format(k, d))
            if d > 1e-12:
                fail.append(name + ": block {} differs".format(k))

    # (c) a quadratic field is in the space: its L2 projection must be exact
    x = vb.project(fun)
    err = Functional(
        lambda w: dot(w['uh'] - fun(w.x), w['uh'] - fun(w.x))
    ).assemble(vb, uh=vb.interpolate(x)) ** .5
    print("  L2 error of the projection of a quadratic field: {:.3e}"
          "  (property demands ~1e-15)".format(err))
    if err > 1e-10:
        fail.append(name + ": quadratic field is not reproduced")

    # (d) split + interpolate each == interpolate whole
    whole = vb.interpolate(x)
    for k, (xk, bk) in enumerate(vb.split(x)):
        try:
            part = bk.interpolate(xk)
            d = abs(np.asarray(part) - np.asarray(whole)[k]).max()
            print("  component {}: |interp(split) - interp(whole)| = {:.2e}"
                  .format(k, d))
            if d > 1e-12:
                fail.append(name + ": component {} differs".format(k))
        except Exception as e:
            print("  component {}: split gives {} coefficients for a basis "
                  "with {} DOFs -> {!r}".format(k, len(xk), bk.N, e))
            fail.append(name + ": split component cannot be interpolated")


check(MeshTet().refined(1), ElementTetP2(), 2,
      lambda x: np.array([x[0] ** 2 + x[1] * x[2], x[2] ** 2 - x[0]]))
check(MeshTri().refined(2), ElementTriP2(), 1,
      lambda x: np.array([x[0] ** 2 + x[1] * x[0]]))
# control: dim == mesh.dim() works
check(MeshTet().refined(1), ElementTetP2(), 3,
      lambda x: np.array([x[0] ** 2, x[1] * x[2], x[2] ** 2 - x[0]]))

print()
if fail:
    print("FAIL:")
    for f in fail:
        print("  -", f)
    sys.exit(1)
print("OK")
