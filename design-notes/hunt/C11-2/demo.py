"""C11-2: the triangular facets of MeshWedge1 are stored with a repeated vertex.

Consequences
  (a) two wedges that share a triangular face but start their local numbering
      at different corners of it get TWO facets for the one shared face, both
      flagged as boundary facets (facets not unique, f2t / boundary sets
      wrong);
  (b) the facet/vertex incidence matrix p2f contains entries 2.

Property clauses: "each facet ... appears once", "the facet-to-cell table
lists exactly the one or two cells containing the facet", "boundary facets ...
are exactly those belonging to a facet with a single neighbour", "the vertex
incidence matrices say the same", "independent of vertex numbering".
"""
import sys
import numpy as np
from skfem import MeshWedge1, Basis, ElementWedge1, MeshTri, MeshLine
from skfem.models.poisson import mass

failed = False

# two prisms stacked in z; the common face is the triangle z = 1
p = np.array([[0, 0, 0], [1, 0, 0], [0, 1, 0],
              [0, 0, 1], [1, 0, 1], [0, 1, 1],
              [0, 0, 2], [1, 0, 2], [0, 1, 2]], dtype=float).T
aligned = np.array([[0, 1, 2, 3, 4, 5],
                    [3, 4, 5, 6, 7, 8]]).T
# the same upper prism, local numbering rotated by one corner about the axis
# (bottom 4,5,3 / top 7,8,6 : still a valid, positively oriented wedge)
rotated = np.array([[0, 1, 2, 3, 4, 5],
                    [4, 5, 3, 7, 8, 6]]).T

for name, t in (("aligned local numbering", aligned),
                ("upper wedge rotated by one corner", rotated)):
    m = MeshWedge1(p, t)
    detJ = m.mapping().detDF(np.array([[.3], [.3], [.5]])).flatten()
    vol = mass.assemble(Basis(m, ElementWedge1())).sum()
    print(f"--- {name}: det DF = {detJ}, volume = {vol:.3f}")
    keys = [frozenset(map(int, f)) for f in m.facets.T]
    nshared = sum(1 for j in range(m.nfacets) if m.f2t[1, j] != -1)
    print(f"    facets: {m.nfacets} (property: 2*5-1 = 9), distinct vertex "
          f"sets: {len(set(keys))}")
    print(f"    facets with two neighbours: {nshared} (property: 1, the "
          f"triangle {{3,4,5}})")
    print(f"    boundary facets: {len(m.boundary_facets())} (property: 8)")
    dup = [j for j, k in enumerate(keys) if k == frozenset((3, 4, 5))]
    print(f"    columns of m.facets spanning {{3,4,5}}: "
          f"{[m.facets[:, j].tolist() for j in dup]}, "
          f"f2t there: {[m.f2t[:, j].tolist() for j in dup]}")
    print(f"    boundary_nodes: {m.boundary_nodes().tolist()}")
    if (m.nfacets != 9 or len(set(keys)) != len(keys) or nshared != 1
            or len(m.boundary_facets()) != 8):
        failed = True

# a larger example with an interior vertex: 4 triangles around a centre vertex,
# extruded to two layers; the centre vertex of the middle level is interior
m0 = MeshTri.init_symmetric() * MeshLine(np.array([0., 1., 2.]))
t = m0.t.copy()
upper = np.nonzero(m0.p[2, m0.t].mean(axis=0) > 1)[0]
t[:, upper] = t[[1, 2, 0, 4, 5, 3]][:, upper]   # rotate local numbering
m1 = MeshWedge1(m0.p, t)
print("--- init_symmetric() x 2 layers, same cells, upper layer locally "
      "rotated")
for lbl, mm in (("as built", m0), ("rotated ", m1)):
    print(f"    {lbl}: nfacets = {mm.nfacets}, boundary facets = "
          f"{len(mm.boundary_facets())}, interior_nodes = "
          f"{mm.interior_nodes().tolist()}")
if (m1.nfacets != m0.nfacets
        or len(m1.boundary_facets()) != len(m0.boundary_facets())
        or m1.interior_nodes().tolist() != m0.interior_nodes().tolist()):
    failed = True

# (b) incidence matrix of a library-built wedge mesh
m = MeshTri() * MeshLine(np.linspace(0, 1, 3))
p2f = m.p2f.toarray()
print(f"--- MeshTri() * MeshLine: entries occurring in p2f: "
      f"{np.unique(p2f).tolist()} (an incidence matrix has only 0 and 1)")
rows = np.nonzero((p2f == 2).any(axis=1))[0]
if len(rows):
    print(f"    {len(rows)} of {m.nfacets} facets (the triangles) have a "
          f"vertex counted twice, e.g. facet {rows[0]} = "
          f"{m.facets[:, rows[0]].tolist()}")
# vertex count per facet from p2f vs. true number of distinct vertices
true_counts = np.array([len(set(f)) for f in m.facets.T])
if (p2f.sum(axis=1) != true_counts).any() or p2f.max() > 1:
    failed = True

print()
if failed:
    print("FAIL: wedge facets with a repeated index break facet uniqueness "
          "and the incidence matrix")
    sys.exit(1)
print("OK")
