"""C09-1: ElementGlobal family (Argyris, Morley, Hermite, 15-parameter plate,
BFS, HexC1) is evaluated through a monomial basis in *global* coordinates.
For cells that are not close to the origin / not of unit size the delivered
basis is neither dual to its defining functionals nor are the delivered
derivative fields the derivatives of the delivered value.

Only the public API is used:  Element.gbasis(mesh.mapping(), X, i).
"""
import sys
import numpy as np
from skfem import MeshTri, MeshQuad
from skfem.element import (ElementTriArgyris, ElementTriMorley,
                           ElementTriHermite, ElementQuadBFS)

TOL = 1e-8   # far above round-off (1e-12), far below what is observed


def argyris_functionals(m):
    """Apply the 21 Argyris functionals (u, u_x, u_y, u_xx, u_xy, u_yy at the
    three vertices, du/dn at the three edge midpoints) to the 21 delivered
    basis functions, using the delivered value/grad/hess fields.
    Returns |D| - I (the sign of the edge normal is irrelevant here),
    made dimensionless with the cell size h."""
    e = ElementTriArgyris()
    mp = m.mapping()
    Xv = np.array([[0., 1., 0.], [0., 0., 1.]])      # reference vertices
    Xe = np.array([[.5, .5, 0.], [0., .5, .5]])      # reference edge midpts
    nel = m.t.shape[1]
    D = np.zeros((nel, 21, 21))
    v = m.p[:, m.t]
    edges = [(0, 1), (1, 2), (0, 2)]
    for j in range(21):
        fv = e.gbasis(mp, Xv, j)[0]
        fe = e.gbasis(mp, Xe, j)[0]
        for k in range(3):
            D[:, 6 * k + 0, j] = np.array(fv)[:, k]
            D[:, 6 * k + 1, j] = fv.grad[0][:, k]
            D[:, 6 * k + 2, j] = fv.grad[1][:, k]
            D[:, 6 * k + 3, j] = fv.hess[0, 0][:, k]
            D[:, 6 * k + 4, j] = fv.hess[0, 1][:, k]
            D[:, 6 * k + 5, j] = fv.hess[1, 1][:, k]
            a, b = edges[k]
            t = v[:, b] - v[:, a]
            n = np.array([t[1], -t[0]]) / np.linalg.norm(t, axis=0)
            D[:, 18 + k, j] = (fe.grad[0][:, k] * n[0]
                               + fe.grad[1][:, k] * n[1])
    order = np.array([0, 1, 1, 2, 2, 2] * 3 + [1, 1, 1])
    h = np.sqrt(2 * np.abs(np.linalg.det(
        np.moveaxis(v[:, 1:] - v[:, :1], 2, 0))))[:, None, None]
    S = D * h ** (order[:, None] - order[None, :])[None]
    return np.abs(np.abs(S) - np.eye(21)).max()


def translation_defect(elem_cls, mesh, shift):
    """The basis of a translated cell must be the translated basis: value,
    grad and hess at the same reference points must not change."""
    X = np.array([[.2, .6, .1, 1 / 3], [.1, .3, .7, 1 / 3]])
    m0, m1 = mesh, mesh.translated(shift)
    e0, e1 = elem_cls(), elem_cls()
    N = e0.doflocs.shape[0]          # number of local basis functions
    worst = 0.
    for j in range(N):
        a = e0.gbasis(m0.mapping(), X, j)[0]
        b = e1.gbasis(m1.mapping(), X, j)[0]
        worst = max(worst,
                    np.abs(np.array(a) - np.array(b)).max(),
                    np.abs(a.grad - b.grad).max(),
                    np.abs(a.hess - b.hess).max())
    return worst


def derivative_defect(elem_cls, m):
    """grad must be the derivative of value: compare with a 4th order central
    difference of the delivered value (exact up to O(1e-11) for these
    polynomials) taken in the reference coordinates of an affine cell."""
    e = elem_cls()
    mp = m.mapping()
    X = np.array([[.2, .6, .1, 1 / 3], [.1, .3, .7, 1 / 3]])
    N = e.doflocs.shape[0]           # number of local basis functions
    h = 1e-3
    A = mp.DF(X)                                      # (i, k, nel, nqp)
    worst = 0.
    for j in range(N):
        f = e.gbasis(mp, X, j)[0]
        dref = []
        for k in range(2):
            def val(s):
                Y = X.copy()
                Y[k] += s
                return np.array(e.gbasis(mp, Y, j)[0])
            dref.append((-val(2 * h) + 8 * val(h) - 8 * val(-h)
                         + val(-2 * h)) / (12 * h))
        dref = np.array(dref)                         # d value / d X_k
        # chain rule: d/dX_k = sum_i grad_i * A_ik
        want = np.einsum('iel,ikel->kel', f.grad, A)
        worst = max(worst, np.abs(dref - want).max()
                    / max(1., np.abs(want).max()))
    return worst


failures = []


def report(label, value):
    flag = 'ok  ' if value < TOL else 'FAIL'
    print('  [{}] {:<62s} {:.3e}'.format(flag, label, value))
    if not value < TOL:
        failures.append(label)


print("Property C09: delivered basis is dual to its defining functionals and")
print("grad/hess are the true derivatives of the value, on ANY non-degenerate")
print("cell.  All numbers below must be ~1e-12 (tolerance {:g}).".format(TOL))

print("\n1) Argyris duality  max| |l_i(phi_j)| - delta_ij |  (dimensionless)")
report("unit square, 2 cells (control)", argyris_functionals(MeshTri()))
report("same 2 cells translated by (100, 100)",
       argyris_functionals(MeshTri().translated((100., 100.))))
report("same 2 cells translated by (1000, 1000)",
       argyris_functionals(MeshTri().translated((1000., 1000.))))
report("unit square, MeshTri().refined(6)  (8192 cells, h=1/64)",
       argyris_functionals(MeshTri().refined(6)))

print("\n2) translation invariance of value/grad/hess, shift (1000, 1000)")
for cls, mesh in [(ElementTriMorley, MeshTri()),
                  (ElementTriHermite, MeshTri()),
                  (ElementTriArgyris, MeshTri()),
                  (ElementQuadBFS, MeshQuad())]:
    report(cls.__name__, translation_defect(cls, mesh, (1000., 1000.)))

print("\n3) delivered grad vs. finite difference of delivered value "
      "(relative)")
for cls, mesh in [(ElementTriArgyris, MeshTri()),
                  (ElementTriArgyris, MeshTri().translated((1000., 1000.))),
                  (ElementQuadBFS, MeshQuad().translated((1000., 1000.)))]:
    report("{} on cells near x={:.0f}".format(cls.__name__, mesh.p[0].min()),
           derivative_defect(cls, mesh))

print("\n4) consequence: clamped unit plate, unit load, Argyris, 128 cells;")
print("   centre deflection must not depend on where the plate is located")
from skfem import Basis, BilinearForm, LinearForm, solve, condense
from skfem.helpers import dd, ddot


@BilinearForm
def bilin(u, v, w):
    return ddot(dd(u), dd(v))


@LinearForm
def load(v, w):
    return 1. * v


centre = {}
for shift in [0., 100.]:
    m = MeshTri().refined(3).translated((shift, shift))
    basis = Basis(m, ElementTriArgyris())
    x = solve(*condense(bilin.assemble(basis), load.assemble(basis),
                        D=basis.get_dofs().all()))
    centre[shift] = basis.interpolator(x)(
        np.array([[.5 + shift], [.5 + shift]]))[0]
    print("   plate at ({:g}, {:g}):  u(centre) = {:+.6e}".format(
        shift, shift, centre[shift]))
report("relative change of the centre deflection",
       abs(centre[100.] - centre[0.]) / abs(centre[0.]))

if failures:
    print("\nDEFECT: {} checks violate the property.".format(len(failures)))
    sys.exit(1)
print("\nall checks passed")
