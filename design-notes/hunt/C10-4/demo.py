"""C10-4: the clip to the unit box inside the Newton iteration of
MappingIsoparametric.invF creates spurious fixed points at the box corners.
On mildly curved second-order SIMPLICIAL meshes (half annulus meshed with 32
P2 triangles / quarter annulus with 40 P2 tetrahedra) the first Newton step
from (.5,.5[,.5]) overshoots, is clipped to a corner such as (1,0), the next
step points out of the box again, is clipped to the same corner, ... and invF
raises for points that lie well inside their cell.  FacetBasis cannot be built.
The quadrilateral sibling (MeshQuad2, same geometry) is fine.

Uses the public API only.  Exits 1 on the unmodified library.
"""
import sys
from dataclasses import replace
import numpy as np
from skfem import (MeshTri, MeshTri2, MeshQuad, MeshQuad2, MeshTet, MeshTet2,
                   ElementTriP2, ElementQuad2, ElementTetP2, FacetBasis,
                   CellBasis)

fail = False
rng = np.random.default_rng(0)


def annulus(cls, base, angle):
    """Second-order mesh of the unit square/cube mapped to
    r = 1 + x in [1, 2], theta = angle * y (, z)."""
    M = cls.from_mesh(base)
    q = M.doflocs
    p = [(1 + q[0]) * np.cos(angle * q[1]), (1 + q[0]) * np.sin(angle * q[1])]
    if q.shape[0] == 3:
        p.append(q[2])
    return replace(M, doflocs=np.array(p))


def attempt(label, m, elem):
    global fail
    mp = m.mapping()
    nv = m.refdom.p.shape[1]
    X = m.refdom.p @ rng.dirichlet(np.ones(nv), size=200).T  # inside ref cell
    det = mp.detDF(np.hstack([X, m.refdom.p]))
    print("%s: %d cells, det DF keeps its sign on every cell: %s, "
          "min|det|/max|det| per cell >= %.2f"
          % (label, m.t.shape[1],
             bool((det.min(axis=1) * det.max(axis=1) > 0).all()),
             (np.abs(det).min(axis=1) / np.abs(det).max(axis=1)).min()))
    try:
        Y = mp.invF(mp.F(X))
        print("   invF(F(X)) max error %.2e" % np.abs(Y - X[:, None]).max())
    except Exception as ex:
        fail = True
        print("   invF(F(X)) RAISES %r" % ex)
    try:
        fb = FacetBasis(m, elem)
        xn = np.sum(fb.global_coordinates().value * fb.normals.value, axis=0)
        vol = CellBasis(m, elem, intorder=6).dx.sum()
        print("   FacetBasis ok: oint x.n = %.10f, d*vol = %.10f"
              % (np.sum(xn * fb.dx), m.dim() * vol))
    except Exception as ex:
        fail = True
        print("   FacetBasis(...) RAISES %r" % ex)
    return mp, X


attempt("MeshQuad2 half annulus ",
        annulus(MeshQuad2, MeshQuad().refined(2), np.pi), ElementQuad2())
mp, X = attempt("MeshTri2  half annulus ",
                annulus(MeshTri2, MeshTri().refined(2), np.pi), ElementTriP2())
attempt("MeshTet2  quarter annulus",
        annulus(MeshTet2, MeshTet().refined(1), np.pi / 2), ElementTetP2())

# show the mechanism with the public F / invDF: replay the iteration of invF
# for one (cell, point) pair of the triangle mesh
x = mp.F(X)
Xk = np.zeros(x.shape) + .5
for it in range(50):
    dX = np.einsum('ijkl,jkl->ikl', mp.invDF(Xk), x - mp.F(Xk))
    Xk = np.clip(Xk + dX, 0., 1.)
stuck = np.argwhere(np.abs(dX).sum(axis=0) > 1e-12)
print("\nreplayed Newton iteration with clip (MeshTri2): %d of %d (cell, point)"
      " pairs never converge" % (len(stuck), dX[0].size))
if len(stuck):
    c, q = stuck[0]
    print("   e.g. cell %d, true reference point %s: iterate sits at the box "
          "corner %s for ever, Newton step there = %s (points out of the box)"
          % (c, np.round(X[:, q], 4), Xk[:, c, q], np.round(dX[:, c, q], 3)))
Xk = np.zeros(x.shape) + .5
for it in range(50):
    dX = np.einsum('ijkl,jkl->ikl', mp.invDF(Xk), x - mp.F(Xk))
    Xk = Xk + dX
print("   same iteration without the clip: max |X_k - X| = %.1e after 50 steps"
      % np.abs(Xk - X[:, None]).max())

if fail:
    print("\nDEFECT PRESENT: inverse map / FacetBasis unavailable on a valid "
          "curved simplicial mesh")
    sys.exit(1)
print("\ninverse map available on all three meshes")
sys.exit(0)
