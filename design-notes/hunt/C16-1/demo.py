"""C16 - threaded assembly must behave exactly like serial assembly.

A failure of the form inside a worker thread is lost: BilinearForm._assemble
starts plain threading.Thread objects, joins them and never looks at whether
they finished normally.  Serial assembly (nthreads=0) propagates the exception
to the caller; threaded assembly (any nthreads >= 1) returns a matrix whose
not-yet-computed local index pairs are still the zeros of the preallocated
buffer - all of it, or a thread-count dependent part of it.

The demo exits non-zero if, for some thread count 1..Nbfun_u*Nbfun_v+2, the
threaded assembly hands back a matrix although the serial assembly of the very
same form on the very same bases raises.
"""
import sys
import threading

import numpy as np
from skfem import (MeshTri, Basis, BilinearForm, ElementTriP1, ElementTriP2)

# the only trace of a failed worker is a traceback that threading prints to
# stderr; count them here instead of printing (keeps the output readable)
lost = []
threading.excepthook = lambda args: lost.append(args.exc_type.__name__)

m = MeshTri().refined(1)
p1 = Basis(m, ElementTriP1(), intorder=4)
p2 = Basis(m, ElementTriP2(), intorder=4)


def outcome(form, nthreads, ubasis, vbasis, **kwargs):
    try:
        A = (BilinearForm(form, nthreads=nthreads)
             .assemble(ubasis, vbasis, **kwargs))
    except Exception as e:
        return 'raises', type(e).__name__, None
    return 'returns', None, A.toarray()


# scenario 1: the form reads a parameter the caller forgot to pass
def weighted_mass(u, v, w):
    return w.rho * u * v


# scenario 2: the form validates its data (here: coefficient must be positive)
def checked_laplace(u, v, w):
    if np.any(w.k <= 0.):
        raise ValueError("non-positive diffusion coefficient")
    return w.k * (u.grad[0] * v.grad[0] + u.grad[1] * v.grad[1])


# scenario 3: only one local index pair fails -> partially filled matrix
def one_pair_fails(u, v, w):
    if u is p1.basis[1][0] and v is p2.basis[2][0]:
        raise FloatingPointError("pair (i=2, j=1) cannot be evaluated")
    return u * v + u.grad[0] * v


scenarios = [
    ('missing parameter w.rho, P1 x P1', weighted_mass, p1, p1, {}),
    ('data check fails, P2 trial x P1 test', checked_laplace, p2, p1,
     {'k': -1.0}),
    ('one pair fails, P1 trial x P2 test', one_pair_fails, p1, p2, {}),
]

failures = 0
for label, form, ub, vb, kw in scenarios:
    npairs = ub.Nbfun * vb.Nbfun
    kind, exc, _ = outcome(form, 0, ub, vb, **kw)
    print("{}:".format(label))
    print("  serial (nthreads=0): {} {}".format(kind, exc))
    assert kind == 'raises'
    print("  property demands: every nthreads in 1..{} behaves like serial, "
          "i.e. raises too".format(npairs + 2))
    bad = []
    for nthreads in range(1, npairs + 3):
        kind, exc, A = outcome(form, nthreads, ub, vb, **kw)
        if kind == 'returns':
            bad.append((nthreads, int(np.count_nonzero(A)), A.size))
    if bad:
        failures += len(bad)
        print("  OBSERVED: {} of {} thread counts silently RETURN a matrix"
              .format(len(bad), npairs + 2))
        for nthreads, nnz, size in bad[:3] + bad[-2:]:
            print("    nthreads={:3d}: matrix returned, {} of {} entries "
                  "non-zero".format(nthreads, nnz, size))
        if len(set(b[1] for b in bad)) > 1:
            print("    (the returned matrix depends on the thread count: "
                  "non-zero counts {})".format(sorted(set(b[1] for b in bad))))
    else:
        print("  observed: all thread counts raise - ok")

print("exceptions raised in workers and dropped (stderr traceback only): {}"
      .format(len(lost)))
if failures:
    print("FAIL: {} threaded assemblies returned a matrix where serial "
          "assembly raises".format(failures))
    sys.exit(1)
print("PASS")
