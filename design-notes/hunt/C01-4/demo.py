"""C01-4: the matrix-vector product of the elemental (COO) form of an assembled
matrix, ``COOData.dot``, takes shape and dtype of its result from the INPUT
vector.

``Form.elemental(ubasis, vbasis)`` returns the same operator as
``Form.assemble(ubasis, vbasis)`` (``.tocsr()`` converts one into the other).
Property C01: rows index test functions, columns trial functions, and
v^T (A u) = a(u_h, v_h) for all coefficient vectors (real, complex, integer
arrays) and rectangular trial/test pairs.  Hence ``C.dot(u)`` must equal
``A @ u``: a vector with one entry per TEST function and the dtype of the
product.
"""
import sys
import warnings
import numpy as np
from skfem import (MeshTri, ElementTriP1, ElementTriP2, CellBasis,
                   BilinearForm, Functional)

warnings.simplefilter('ignore')      # the ComplexWarning is the only hint
m = MeshTri().refined(1)
P2 = CellBasis(m, ElementTriP2(), intorder=4)
P1 = CellBasis(m, ElementTriP1(), intorder=4)
rng = np.random.default_rng(0)
failures = 0


def report(name, got, expected):
    global failures
    ok = (np.shape(got) == np.shape(expected)
          and np.allclose(got, expected, rtol=1e-12, atol=1e-13))
    print('{}\n     COOData.dot : shape {} dtype {}\n     A @ u       : '
          'shape {} dtype {}   -> {}'.format(
              name, np.shape(got), getattr(got, 'dtype', None),
              np.shape(expected), expected.dtype,
              'ok' if ok else 'MISMATCH'))
    if not ok:
        failures += 1


form = BilinearForm(lambda u, v, w: u * v.grad[0] * w.x[1])

# (a) rectangular: trial P2 (25 DOFs), test P1 (9 DOFs)
A, C = form.assemble(P2, P1), form.elemental(P2, P1)
u = rng.standard_normal(P2.N)
v = rng.standard_normal(P1.N)
print('a(u_h, v_h) = {:.12f}  v^T (A u) = {:.12f}'.format(
    Functional(lambda w: w.uh * w.vh.grad[0] * w.x[1]).assemble(
        P2, uh=P2.interpolate(u), vh=P1.interpolate(v)),
    v @ (A @ u)))
report('(a) trial P2 -> test P1, A.shape = {}'.format(A.shape),
       C.dot(u), A @ u)
try:  # and the other way round
    A2, C2 = form.assemble(P1, P2), form.elemental(P1, P2)
    report('(a\') trial P1 -> test P2, A.shape = {}'.format(A2.shape),
           C2.dot(v), A2 @ v)
except Exception as exc:
    print("(a') trial P1 -> test P2: COOData.dot raised {!r}".format(exc))
    failures += 1

# (b) integer coefficient vector, square matrix
A, C = form.assemble(P1), form.elemental(P1)
k = np.arange(P1.N)
report('(b) integer coefficient vector', C.dot(k), A @ k)

# (c) complex matrix, real coefficient vector
cform = BilinearForm(lambda u, v, w: (1. + 2.j) * u * v, dtype=np.complex128)
A, C = cform.assemble(P1), cform.elemental(P1)
report('(c) complex matrix, real vector', C.dot(v), A @ v)

if failures:
    print('FAIL: {} mismatches'.format(failures))
    sys.exit(1)
print('PASS')
