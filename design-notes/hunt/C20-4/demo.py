"""C20-4: NonlinearForm cannot be assembled over a CompositeBasis made of
unlike bases (vector x scalar), because CompositeBasis pads the inactive
variables with zeros of the wrong shape.

`Basis(m, ElementVector(P2)) * Basis(m, P1)` (a CompositeBasis) and
`Basis(m, ElementVector(P2) * P1)` (an ElementComposite) describe the same
discrete space, only the DOF numbering differs.  The property promises the
Jacobian and the negative residual for composite unknowns; the two siblings
must therefore agree up to that renumbering.
"""
import sys
import numpy as np
from skfem import (MeshTri, Basis, ElementVector, ElementTriP2, ElementTriP1)
from skfem.autodiff import NonlinearForm
from skfem.autodiff.helpers import (dot, ddot, mul, grad, sym_grad, div)

m = MeshTri().refined(1)
rng = np.random.default_rng(0)


@NonlinearForm
def navier_stokes(u, p, v, q, w):
    return (ddot(sym_grad(u), sym_grad(v)) + dot(mul(grad(u), u), v)
            - div(u) * q - div(v) * p - 1e-3 * p * q)


# sibling 1: one basis with an ElementComposite
eb = Basis(m, ElementVector(ElementTriP2()) * ElementTriP1(), intorder=4)
# sibling 2: product of two bases
bu = Basis(m, ElementVector(ElementTriP2()), intorder=4)
bp = Basis(m, ElementTriP1(), intorder=4)
cb = bu * bp
print("ElementComposite basis: N =", eb.N, " CompositeBasis: N =", cb.N)

# the same discrete function in both numberings
x = rng.standard_normal(cb.N)                 # [u-dofs, p-dofs]
I = np.concatenate(eb.split_indices())
xe = eb.zeros()
xe[I] = x

Je, re = navier_stokes.assemble(eb, x=xe)
print("ElementComposite: assembled, |J|max = %.4f, |r|max = %.4f"
      % (abs(Je).max(), abs(re).max()))

# what the basis functions look like: (u-part, p-part) of a velocity function
f = cb.basis[0]
print("CompositeBasis.basis[0]  (a velocity basis function):")
print("   u-part value", f[0].shape, " p-part value", f[1].shape,
      " <- p-part must have the scalar shape", bp.basis[0][0].shape)
f = cb.basis[bu.Nbfun]
print("CompositeBasis.basis[%d] (a pressure basis function):" % bu.Nbfun)
print("   u-part value", f[0].shape, " <- must be", bu.basis[0][0].shape,
      "; p-part value", f[1].shape)

# [info] a second, independent defect of the same class (not part of the
# verdict): the '@' product used for interior-facet (DG) pairs cannot
# interpolate any vector, so NonlinearForm fails even with x=None.
from skfem import InteriorFacetBasis, ElementDG
dg = ElementDG(ElementTriP1())
fb = InteriorFacetBasis(m, dg, side=0) @ InteriorFacetBasis(m, dg, side=1)
try:
    NonlinearForm(lambda u1, u2, v1, v2, w:
                  (u1 - u2) * (v1 - v2) / w.h * (1 + u1 * u2)).assemble(fb)
    print("[info] '@' basis: NonlinearForm assembles")
except Exception as exc:
    print("[info] '@' basis (N = %d): NonlinearForm.assemble(fb) raises %s: %s"
          % (fb.N, type(exc).__name__, exc))

try:
    Jc, rc = navier_stokes.assemble(cb, x=x)
except Exception as exc:
    print("CompositeBasis: NonlinearForm.assemble raises %s: %s"
          % (type(exc).__name__, str(exc).splitlines()[0]))
    print("FAIL: no Jacobian / residual for a composite (vector x scalar) unknown")
    sys.exit(1)

dJ = abs(Jc.toarray() - Je.toarray()[I][:, I]).max()
dr = abs(rc - re[I]).max()
print("CompositeBasis vs ElementComposite: |dJ| = %.2e, |dr| = %.2e" % (dJ, dr))
if dJ > 1e-10 or dr > 1e-10:
    print("FAIL: the two composite descriptions disagree")
    sys.exit(1)
print("OK")
