"""C12-1: Mesh.refined(k) with k a NumPy integer silently performs an
*adaptive* refinement of the single cell number k instead of k uniform
refinements.

Property C12 demands, for every number of refinements k, 2**(d*k) times as
many cells, and the named regions to be carried along.
"""
import sys
import logging
import numpy as np
from skfem import MeshTri, MeshTet, MeshLine

logging.getLogger('skfem').setLevel(logging.ERROR)  # keep the output short

failures = 0


def report(name, mesh, k):
    global failures
    d = mesh.dim()
    expected_cells = mesh.nelements * 2 ** (d * int(k))
    reference = mesh.refined(int(k))          # k as a builtin int
    try:
        refined = mesh.refined(k)             # the very same k, NumPy typed
    except Exception as exc:                  # loud failure
        print(f"{name}: k={k!r} ({type(k).__name__}) raised "
              f"{type(exc).__name__}: {exc}")
        failures += 1
        return
    print(f"{name}: k={k!r} of type {type(k).__name__}")
    print(f"   cells before            : {mesh.nelements}")
    print(f"   cells demanded (2^(dk)x): {expected_cells}")
    print(f"   cells with int(k)       : {reference.nelements}")
    print(f"   cells with NumPy k      : {refined.nelements}")
    ok = refined.nelements == expected_cells
    if mesh.subdomains is not None:
        n_ref = len(reference.subdomains['sub'])
        n_got = (len(refined.subdomains['sub'])
                 if refined.subdomains is not None else None)
        print(f"   cells in 'sub' demanded : {n_ref},  obtained: {n_got}")
        ok = ok and n_got == n_ref
    if mesh.boundaries is not None and d < 3:
        n_ref = len(reference.boundaries['left'])
        n_got = (len(refined.boundaries['left'])
                 if refined.boundaries is not None else None)
        print(f"   facets in 'left' demanded: {n_ref},  obtained: {n_got}")
        ok = ok and n_got == n_ref
    print("   ->", "ok" if ok else "VIOLATION")
    if not ok:
        failures += 1


tri = (MeshTri().refined(2)
       .with_boundaries({'left': lambda x: x[0] == 0.})
       .with_subdomains({'sub': lambda x: x[1] < .5}))
tet = MeshTet().refined(1).with_subdomains({'sub': lambda x: x[2] < .5})
line = MeshLine(np.linspace(0., 1., 5))

# the typical way in which such a k arises: looping over np.arange, or
# reading the number of refinements from an integer array
for k in np.arange(1, 3):
    report("MeshTri", tri, k)
report("MeshTri", tri, np.int32(2))
report("MeshTet", tet, np.array([1, 2, 3])[0])
report("MeshLine", line, np.int64(2))

if failures:
    print(f"\n{failures} case(s) violate C12 (cell count 2^(d*k), regions "
          "preserved) for an integer k that happens to be a NumPy integer.")
    sys.exit(1)
print("\nall good")
