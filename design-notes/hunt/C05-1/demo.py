"""C05-1: solve() expands the condensed solution into a buffer that has the
dtype of the prescribed-value vector x, so the solution on the kept DOFs is
cast down (int truncation / imaginary part dropped).

Property: "solving the condensed system and expanding returns a vector equal
to x on the constrained indices that satisfies the original equations on the
kept ones" -- for all right-hand sides (vector or matrix), all prescribed
values, unsymmetric matrices included.
"""
import sys
import warnings

import numpy as np
import scipy.sparse as sp

from skfem import condense, solve

warnings.simplefilter("ignore")   # the library emits at most a ComplexWarning

bad = []


def report(name, resid, tol=1e-8):
    ok = resid < tol
    print(f"  max |(A u - b)[I]| = {resid:.3e}   (property demands ~0)"
          f"   -> {'ok' if ok else 'VIOLATED'}")
    if not ok:
        bad.append(name)


N = 8
K = sp.diags([-np.ones(N - 1), 2 * np.ones(N), -np.ones(N - 1)],
             [-1, 0, 1]).tocsr()            # real SPD stiffness-like matrix
D = np.array([0, N - 1])
I = np.setdiff1d(np.arange(N), D)

# ---------------------------------------------------------------- case A
print("A) float matrix, float load, prescribed values given as an int array")
b = np.ones(N)
x_int = np.zeros(N, dtype=int)
x_int[D] = [1, 3]
u = solve(*condense(K, b, x=x_int, D=D))
u_ref = solve(*condense(K, b, x=x_int.astype(float), D=D))
print("  u (int x)   =", u, u.dtype)
print("  u (float x) =", u_ref)
print("  u[D] == x[D]:", np.array_equal(u[D], x_int[D]))
report("int x", np.abs((K @ u - b)[I]).max())

# ---------------------------------------------------------------- case B
print("B) integer-valued sparse matrix (x defaults to zeros of A.dtype)")
Ki = sp.csr_matrix(K.toarray().astype(np.int64))
u = solve(*condense(Ki, b, D=D))
print("  u =", u, u.dtype, "  expected", solve(*condense(K, b, D=D)))
report("int A", np.abs((K @ u - b)[I]).max())

# ---------------------------------------------------------------- case C
print("C) real matrix, complex load vector (x defaults to real zeros)")
bc = (1. + 2.j) * np.ones(N)
u = solve(*condense(K, bc, D=D))
print("  u.dtype =", u.dtype, " (load is complex)")
report("complex b", np.abs((K @ u - bc)[I]).max())

# ---------------------------------------------------------------- case C2
print("C2) complex matrix (Helmholtz-like), real vector of prescribed values")
Kc = (K - (0.3 + 0.1j) * sp.identity(N)).tocsr()
x_real = np.zeros(N)
x_real[D] = [1., 3.]
u = solve(*condense(Kc, b, x=x_real, D=D))
print("  u.dtype =", u.dtype, " (matrix is complex)")
report("complex A, real x", np.abs((Kc @ u - b)[I]).max())

# ---------------------------------------------------------------- case D
print("D) generalized eigenproblem, real unsymmetric A "
      "(complex eigenpairs), default solver")
n = 14
c = 2.0
A = sp.diags([(-1 - c) * np.ones(n - 1), 2 * np.ones(n),
              (-1 + c) * np.ones(n - 1)], [-1, 0, 1]).tocsr()
M = sp.identity(n, format="csr")
Dn = np.array([0, n - 1])
In = np.setdiff1d(np.arange(n), Dn)
L, X = solve(*condense(A, M, D=Dn), k=4, sigma=1.0, v0=np.ones(n - 2))
print("  eigenvalues:", np.round(L, 4))
print("  eigenvector dtype:", X.dtype)
res = max(np.abs((A @ X[:, k] - L[k] * (M @ X[:, k]))[In]).max()
          / np.abs(X[:, k]).max() for k in range(len(L)))
print("  X[D] == 0:", not X[Dn].any())
report("eigen", res)

if bad:
    print("FAIL: expansion destroyed the solution for:", bad)
    sys.exit(1)
print("PASS")
