"""C17-3: the connectivity of a MeshTri1 with sort_t=False (e.g. the result of
MeshTri1.oriented()) is not preserved by ANY of the persistence routes:
Mesh.load (vtk/vtu/gmsh), MeshTri1.load_npz, MeshTri1.from_dict and
skfem.io.json.from_file all rebuild the mesh with the class default
sort_t=True and thereby re-sort every column of t.
"""
import os
import sys
import tempfile
import logging

import numpy as np

from skfem import Mesh, MeshTri1, MeshTet1
import skfem.io.json as skjson

logging.disable(logging.WARNING)
tmp = tempfile.mkdtemp()

m = MeshTri1.init_circle().oriented()     # all triangles counter-clockwise
assert m.is_valid()
assert (m.orientation() == 1).all()
print('saved mesh : %d triangles, all positively oriented, %d columns of t '
      'not ascending' % (m.t.shape[1],
                         (np.sort(m.t, axis=0) != m.t).any(axis=0).sum()))


def routes():
    for suffix, kwargs in [('.vtk', {}),
                           ('.vtu', {}),
                           ('.msh', {'file_format': 'gmsh22'}),
                           ('.msh', {'file_format': 'gmsh'})]:
        fname = os.path.join(tmp, 'mesh' + suffix)
        m.save(fname, **kwargs)
        yield 'save/load ' + suffix + ' ' + kwargs.get('file_format', ''), Mesh.load(fname)
    fname = os.path.join(tmp, 'mesh.npz')
    m.save_npz(fname)
    yield 'save_npz/load_npz', MeshTri1.load_npz(fname)
    yield 'to_dict/from_dict', MeshTri1.from_dict(m.to_dict())
    fname = os.path.join(tmp, 'mesh.json')
    skjson.to_file(m, fname)
    yield 'json to_file/from_file', skjson.from_file(fname)


failures = []
for label, m2 in routes():
    same_p = np.array_equal(m.p, m2.p)
    same_t = m.t.shape == m2.t.shape and np.array_equal(m.t, m2.t)
    nneg = int((m2.orientation() == -1).sum())
    print('%-26s class %s, p identical: %s, t identical: %s '
          '(%d of %d columns differ), negatively oriented cells: %d'
          % (label, type(m2).__name__, same_p, same_t,
             (m.t != m2.t).any(axis=0).sum(), m.t.shape[1], nneg))
    if not same_t:
        failures.append(label)

# control: the sibling simplex class keeps its connectivity
mt = MeshTet1().refined(1).oriented()
fname = os.path.join(tmp, 'tet.vtk')
mt.save(fname)
print('control MeshTet1.oriented() through vtk: t identical:',
      np.array_equal(mt.t, Mesh.load(fname).t))

print()
print('The property demands that the loaded mesh has the same connectivity t.')
if failures:
    print('VIOLATED for:', failures)
    sys.exit(1)
print('connectivity preserved on every route')
