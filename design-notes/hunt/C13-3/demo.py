"""C13-3: MeshLine1 adaptive refinement with an index that occurs twice in the
marked array returns an invalid mesh (duplicate vertices, overlapping cells,
subdomain no longer the same region), silently.

The marked SET {0} can be written as the index array [0] or [0, 0] (this
happens as soon as the indices of two indicators are concatenated).  MeshTri1
and MeshTet1 return the same refined mesh for both spellings; MeshLine1 does
not.
"""
import sys
import numpy as np
from skfem import MeshLine, MeshTri, MeshTet

failures = 0

print("siblings: refined([0]) versus refined([0, 0])")
for name, m in [("MeshTri1", MeshTri()),
                ("MeshTet1", MeshTet()),
                ("MeshLine1", MeshLine(np.linspace(0, 1, 4)))]:
    A = m.refined(np.array([0]))
    B = m.refined(np.array([0, 0]))
    same = A.p.shape == B.p.shape and A.t.shape == B.t.shape
    print("  %-9s [0]: %d cells %d vertices   [0, 0]: %d cells %d vertices"
          "   same: %s" % (name, A.t.shape[1], A.p.shape[1],
                           B.t.shape[1], B.p.shape[1], same))

print()
m = (MeshLine(np.linspace(0, 1, 4))
     .with_subdomains({'left': np.array([0]), 'rest': np.array([1, 2])}))
est1 = np.array([.9, .1, .1])      # two indicators, both flag cell 0
est2 = np.array([.8, .2, .1])
marked = np.concatenate((np.nonzero(est1 > .5)[0], np.nonzero(est2 > .5)[0]))
print("1-D mesh, vertices", m.p[0], "cells", m.t.T.tolist())
print("marked =", marked)
M = m.refined(marked)
print("refined: vertices", M.p[0])
print("         cells   ", M.t.T.tolist())
print("         subdomains", {k: v.tolist() for k, v in M.subdomains.items()})

# property: no duplicate vertices
nuniq = len(np.unique(M.p[0]))
print("distinct vertex positions: %d of %d   (property: all distinct)"
      % (nuniq, M.p.shape[1]))
failures += nuniq != M.p.shape[1]

# property: same domain, cells do not overlap
length = np.abs(M.p[0, M.t[1]] - M.p[0, M.t[0]]).sum()
print("sum of cell lengths: %.6f   (property: 1.000000)" % length)
failures += abs(length - 1.) > 1e-12

# property: conforming, every interior vertex belongs to exactly two cells
cnt = np.bincount(M.t.flatten(), minlength=M.p.shape[1])
print("cells per vertex:", cnt.tolist(), "  (property: at most 2)")
failures += cnt.max() > 2

# property: named subdomains cover the same regions:
# 'left' must consist of ALL new cells that lie in [0, 1/3]
mid = M.p[0, M.t].mean(axis=0)
expect = np.nonzero(mid < 1. / 3.)[0]
print("cells inside the old subdomain 'left':", expect.tolist(),
      "  mesh.subdomains['left']:", M.subdomains['left'].tolist())
failures += not np.array_equal(expect, np.sort(M.subdomains['left']))

print()
if failures:
    print("FAIL: %d clauses of the property violated" % failures)
    sys.exit(1)
print("OK")
