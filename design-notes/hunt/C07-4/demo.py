"""C07-4: selecting *vertices* by a predicate (or by a point) fails with
IndexError on second-order meshes (MeshTri2, MeshQuad2, MeshTet2, MeshHex2) and
on meshes with unused trailing points, because the predicate is evaluated on
every column of ``mesh.p`` - including mid-side / unused points that are not
vertices - while the index-array form works.

Uses only the public API.  Exits 1 on the unmodified library.
"""
import sys
import numpy as np
from skfem import (Basis, ElementTriP2, ElementQuad2, ElementTetP2,
                   ElementHex2, ElementTriP1, MeshTri, MeshQuad, MeshTet,
                   MeshHex, MeshTri2, MeshQuad2, MeshTet2, MeshHex2)

fail = False


def left(x):
    return np.isclose(x[0], 0.)


def run(label, m, elem, selector=left):
    global fail
    basis = Basis(m, elem)
    # the vertices (columns 0 .. nvertices-1 of p) on the plane x = 0, named
    # by an explicit index array: this form works and is the reference
    verts = np.nonzero(left(m.p[:, :m.nvertices]))[0].astype(np.int32)
    expected = basis.get_dofs(nodes=verts).flatten()
    try:
        got = basis.get_dofs(nodes=selector).flatten()
        ok = np.array_equal(got, expected)
        msg = "got {}".format(got)
    except Exception as e:
        ok = False
        msg = "raised {!r}".format(e)
    print("{:<28s} p has {} columns, nvertices={}\n   expected {} ; {} -> {}"
          .format(label, m.p.shape[1], m.nvertices, expected, msg,
                  "ok" if ok else "WRONG"))
    fail |= not ok


x, y, z = np.linspace(0, 1, 3), np.linspace(0, 2, 3), np.linspace(0, 1, 2)
run("MeshTri (first order)", MeshTri.init_tensor(x, y), ElementTriP2())
run("MeshTri2", MeshTri2.from_mesh(MeshTri.init_tensor(x, y)), ElementTriP2())
run("MeshQuad2", MeshQuad2.from_mesh(MeshQuad.init_tensor(x, y)),
    ElementQuad2())
run("MeshTet2", MeshTet2.from_mesh(MeshTet.init_tensor(x, y, z)),
    ElementTetP2())
run("MeshHex2", MeshHex2.from_mesh(MeshHex.init_tensor(x, y, z)),
    ElementHex2())

# first-order mesh whose point array has two unused trailing points
m1 = MeshTri.init_tensor(x, y)
m1 = MeshTri(np.hstack((m1.p, np.array([[0., 0.], [7., 8.]]))), m1.t)
run("MeshTri + 2 unused points", m1, ElementTriP1())

if fail:
    print("FAIL: vertex predicate disagrees with the vertex index array")
    sys.exit(1)
print("OK")
