"""Scratch artefact (not a registered check): failing input of F56.
TrilinearForm stored its local tensors with axes (u, v, w) while the global
tensor is indexed (w, v, u): tolocal() returned transposed local tensors."""
import numpy as np
from skfem import MeshTri, Basis, ElementTriP0, ElementTriP1, ElementTriP2
from skfem.assembly import TrilinearForm

m = MeshTri().refined(1)
bu, bv, bw = (Basis(m, e, intorder=4) for e in
              (ElementTriP2(), ElementTriP1(), ElementTriP0()))


@TrilinearForm
def f(u, v, w, p):
    return u.grad[0] * v * w


C = f.elemental(bu, bv, bw)
T, L = C.toarray(), C.tolocal()
ok = L.shape[1:] == (bw.Nbfun, bv.Nbfun, bu.Nbfun)
if ok:
    S = np.zeros_like(T)
    for c in range(L.shape[0]):
        for a in range(L.shape[1]):
            for b in range(L.shape[2]):
                for d in range(L.shape[3]):
                    S[bw.element_dofs[a, c], bv.element_dofs[b, c],
                      bu.element_dofs[d, c]] += L[c, a, b, d]
    ok = abs(S - T).max() < 1e-14
print("F56", "ok" if ok else
      f"DEFECT PRESENT (global tensor {T.shape}, local tensors "
      f"{L.shape[1:]}: axes reversed)")
