"""Scratch artefact (not a registered check): failing input of F69.
asm(vector-valued Functional, [b1, b2]) returned the per-basis values side by
side instead of their sum."""
import numpy as np
from skfem import MeshTri, Basis, ElementTriP1, Functional, asm

m = MeshTri().refined(2)
bs = [Basis(m, ElementTriP1(), elements=m.elements_satisfying(
    lambda x, a=a: (x[0] >= a) * (x[0] < a + .5))) for a in (0., .5)]
f = Functional(lambda w: w.x)
got, ref = asm(f, bs), asm(f, Basis(m, ElementTriP1()))
ok = np.shape(got) == np.shape(ref) and np.allclose(got, ref)
print("F69", "ok" if ok else f"DEFECT PRESENT (got {got}, expected {ref})")
