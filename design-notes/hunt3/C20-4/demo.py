"""C20 / finding 4: the JAX `eye` helper rejects a field argument.

`eye(p, 2)` (= p I, e.g. the pressure part of a stress) works in the NumPy
variant with the unknown `p`, but the JAX variant raises for the unknown `p`
of a NonlinearForm - all other JAX helpers accept it.
"""
import sys
import numpy as np

from skfem import (MeshTri, Basis, ElementVector, ElementTriP2, ElementTriP1,
                   BilinearForm)
import skfem.helpers as H
from skfem.autodiff import NonlinearForm
import skfem.autodiff.helpers as JH

basis = Basis(MeshTri().refined(1),
              ElementVector(ElementTriP2()) * ElementTriP1())
xk = np.random.default_rng(0).standard_normal(basis.N)


# Stokes written with the stress tensor  sigma = 2 eps(u) - p I
@BilinearForm
def stokes_np(u, p, v, q, w):
    sigma = 2. * H.sym_grad(u) - H.eye(p, 2)          # NumPy variant: fine
    return H.ddot(sigma, H.sym_grad(v)) + H.div(u) * q


@NonlinearForm
def stokes_jax(u, p, v, q, w):
    sigma = 2. * JH.sym_grad(u) - JH.eye(p, 2)        # JAX variant
    return JH.ddot(sigma, JH.sym_grad(v)) + JH.div(u) * q


@NonlinearForm
def stokes_jax_workaround(u, p, v, q, w):
    sigma = 2. * JH.sym_grad(u) - JH.eye(1. * p, 2)   # unwrap by hand
    return JH.ddot(sigma, JH.sym_grad(v)) + JH.div(u) * q


A = stokes_np.assemble(basis)
print("reference: BilinearForm with skfem.helpers.eye(p, 2), |A|_max =",
      abs(A).max())

bad = False
for name, form in [("skfem.autodiff.helpers.eye(p, 2)     ", stokes_jax),
                   ("skfem.autodiff.helpers.eye(1. * p, 2)",
                    stokes_jax_workaround)]:
    try:
        J, r = form.assemble(basis, x=xk)
    except Exception as e:
        print("{}: raised {}: {}".format(name, type(e).__name__,
                                         str(e)[:80]))
        print("   expected: the Jacobian of a linear integrand equals the "
              "ordinary assembly")
        bad = True
        continue
    eJ = abs(J - A).max()
    er = abs(r + A @ xk).max()
    print("{}: max |J - A| = {:.1e}, max |r + A x| = {:.1e}"
          .format(name, eJ, er))
    if eJ > 1e-12 or er > 1e-10:
        bad = True

if bad:
    print("FAIL: the JAX variant of eye does not accept what the NumPy "
          "variant (and every other JAX helper) accepts")
    sys.exit(1)
print("OK")
