"""C15 (operands never mutated): the generalized eigenvalue solve reorders the
arrays of its *mass matrix* operand in place.

solve(K, M, solver=solver_eigen_scipy_sym(sigma=None, ...)) returns a new
object (eigenvalues, eigenvectors); the property demands that the arrays of
K and M are bit-for-bit the same afterwards.
"""
import sys
import warnings

import numpy as np

from skfem import (MeshTri, Basis, ElementTriP1, BilinearForm, LinearForm,
                   solve, solver_eigen_scipy_sym, solver_eigen_scipy)
from skfem.helpers import dot, grad
from skfem.utils import rcm

warnings.simplefilter('ignore')

m = MeshTri().refined(3)
basis = Basis(m, ElementTriP1())
K = BilinearForm(lambda u, v, w: dot(grad(u), grad(v)) + u * v).assemble(basis)
M = BilinearForm(lambda u, v, w: u * v).assemble(basis)
f = LinearForm(lambda v, w: 1. * v).assemble(basis)

# bandwidth-reducing renumbering with the library's own helper; the mass
# matrix is brought to the same numbering in the same way rcm() does it
K2, _, p = rcm(K, f)
M2 = M[p].T[p].T
print("M2: format", M2.format, "has_canonical_format", M2.has_canonical_format)

failures = 0
for name, factory in [("solver_eigen_scipy_sym", solver_eigen_scipy_sym),
                      ("solver_eigen_scipy", solver_eigen_scipy)]:
    Kc, Mc = K2.copy(), M2.copy()
    # .copy() keeps the order of the stored entries
    assert np.array_equal(Mc.indices, M2.indices)
    before = {k: getattr(Mc, k).copy() for k in ('data', 'indices', 'indptr')}
    beforeK = {k: getattr(Kc, k).copy() for k in ('data', 'indices', 'indptr')}
    dense_before = Mc.toarray()

    L, X = solve(Kc, Mc, solver=factory(k=3, sigma=None, which='LM'))

    same = {k: np.array_equal(before[k], getattr(Mc, k)) for k in before}
    sameK = {k: np.array_equal(beforeK[k], getattr(Kc, k)) for k in beforeK}
    print(f"{name}(sigma=None): eigenvalues {np.real(L)}")
    print("   K arrays unchanged:", sameK)
    print("   M arrays unchanged:", same,
          "(matrix value unchanged: {})".format(
              np.array_equal(dense_before, Mc.toarray())))
    if not all(same.values()) or not all(sameK.values()):
        failures += 1

print()
print("property demands: data / indices / indptr of both operands are "
      "bit-for-bit unchanged by solve()")
if failures:
    print("VIOLATED: solve() permuted M.indices and M.data in place")
    sys.exit(1)
print("ok")
