"""C20 / finding 1: `div` of a matrix-valued field is not the divergence.

The NumPy helper returns the gradient of the trace, the JAX helper returns
the gradient of the first row, and the two do not even agree in shape.
"""
import sys
import numpy as np
import jax.numpy as jnp

from skfem import MeshTri, Basis, ElementVector, ElementTriP2
import skfem.helpers as H
import skfem.autodiff.helpers as JH
from skfem.autodiff import JaxDiscreteField

m = MeshTri().refined(1)
# matrix-valued P2 field, cf. tests/test_assembly.py::test_matrix_element_projection
basis = Basis(m, ElementVector(ElementVector(ElementTriP2())))

# a SYMMETRIC quadratic tensor field, exactly representable in P2, so that
# the row-wise and the column-wise divergence coincide:
#     T = [[x^2, x y], [x y, y^2]],   div T = (3 x, 3 y),  grad tr T = (2x, 2y)
T = basis.project(lambda x: np.array([[x[0] ** 2, x[0] * x[1]],
                                      [x[0] * x[1], x[1] ** 2]]))
Th = basis.interpolate(T)
x, y = basis.global_coordinates()

print("T.shape      =", Th.shape, "  T.grad.shape =", Th.grad.shape)
print("index convention  T.grad[i, j, k] = d T_ij / d x_k :")
print("   |d_x T_00 - 2x| =", abs(Th.grad[0, 0, 0] - 2 * x).max(),
      "  |d_y T_01 - x| =", abs(Th.grad[0, 1, 1] - x).max())

exact = np.array([3 * x, 3 * y])          # d_j T_ij = d_i T_ij (T symmetric)
grad_trace = np.array([2 * x, 2 * y])     # d_k T_ii

bad = False

d_np = H.div(Th)
print("\nNumPy  skfem.helpers.div(T): shape", d_np.shape,
      " (the divergence has shape", exact.shape, ")")
e1 = abs(d_np - exact).max() if d_np.shape == exact.shape else np.inf
e2 = abs(d_np - grad_trace).max() if d_np.shape == exact.shape else np.inf
print("   max |div(T) - (3x, 3y)|          =", e1, "   <- property demands 0")
print("   max |div(T) - grad(trace T)|     =", e2, "   <- what it really is")
if not e1 < 1e-10:
    bad = True

d_jx = np.asarray(JH.div(JaxDiscreteField(*Th.astuple)))
print("\nJAX    skfem.autodiff.helpers.div(T): shape", d_jx.shape)
if d_jx.shape != exact.shape:
    print("   wrong shape; it is T.grad[0]:",
          abs(d_jx - Th.grad[0]).max() == 0.)
    bad = True
else:
    e3 = abs(d_jx - exact).max()
    print("   max |div(T) - (3x, 3y)| =", e3)
    if not e3 < 1e-10:
        bad = True

if d_jx.shape != d_np.shape or abs(d_jx - d_np).max() > 1e-10:
    print("\nthe NumPy and the JAX variant disagree with each other")
    bad = True

if bad:
    print("\nFAIL: div of a matrix-valued field is not its divergence")
    sys.exit(1)
print("\nOK")
