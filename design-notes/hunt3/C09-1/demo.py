"""C09 (hunt 3) finding 1

ElementQuadBFS, ElementQuad2G and ElementHexC1 span a *tensor-product* space
Q_k of monomials x^i y^j (z^k) in the GLOBAL axes (ElementGlobal with
tensorial_basis = True).  Unlike the full spaces P_k used by the triangular
global elements, Q_k is not invariant under rotations, so whether the defining
functionals (vertex values / derivatives, edge and cell mid-point values) are
linearly independent on Q_k depends on the *orientation* of the cell:

  * ElementQuadBFS : singular on every quadrilateral whose two diagonals are
                     parallel to the coordinate axes (a square turned by
                     45 degrees, every rhombus or kite standing on a corner)
  * ElementHexC1   : singular on a cube turned by 45 degrees about an axis
  * ElementQuad2G  : singular on every rectangle turned by
                     atan(sqrt(2 - sqrt(3))) = 27.3678... degrees

The cells below are affine, perfectly shaped, of size 1 and centred at the
origin.  The property demands that the defining functionals are dual to the
delivered basis (identity matrix) and that the value-type functions sum to 1.
"""
import sys
import numpy as np
from skfem import (MeshQuad, MeshHex, CellBasis, ElementQuadBFS,
                   ElementQuad2G, ElementHexC1)

failures = []


def rot2(deg):
    a = np.deg2rad(deg)
    return np.array([[np.cos(a), -np.sin(a)],
                     [np.sin(a), np.cos(a)]])


def one_quad(p):
    return MeshQuad(np.asarray(p, dtype=float), np.array([[0, 1, 2, 3]]).T)


def functional_matrix(elem, mesh, picks):
    """M[i, j] = (j-th defining functional)(i-th delivered basis function),
    the functionals read off the *delivered* value / grad / hess / grad3 at the
    DOF locations of the element (cell 0)."""
    mapping = mesh.mapping()
    X = elem.doflocs.T.copy()
    N = X.shape[1]
    M = np.zeros((N, N))
    for i in range(N):
        f = elem.gbasis(mapping, X, i)[0]
        for j in range(N):
            M[i, j] = picks[j % len(picks)](f)[..., 0, j]
    return M


bfs_picks = [lambda f: np.array(f),           # u
             lambda f: f.grad[0],             # u_x
             lambda f: f.grad[1],             # u_y
             lambda f: f.hess[0, 1]]          # u_xy
q2g_picks = [lambda f: np.array(f)]           # u
c1_picks = [lambda f: np.array(f), lambda f: f.grad[0], lambda f: f.grad[1],
            lambda f: f.grad[2], lambda f: f.hess[0, 1], lambda f: f.hess[0, 2],
            lambda f: f.hess[1, 2], lambda f: f.grad3[0, 1, 2]]


def report(label, elem, mesh, picks, expect_ok=False):
    try:
        M = functional_matrix(elem, mesh, picks)
        dev = np.abs(M - np.eye(len(M))).max()
        # value-type functions (every len(picks)-th one) must sum to one
        Xc = np.full((mesh.dim(), 1), 0.3)
        s = sum(np.array(elem.gbasis(mesh.mapping(), Xc, i)[0])[0, 0]
                for i in range(0, len(M), len(picks)))
        msg = ("max |functional_j(phi_i) - delta_ij| = {:9.3e}   "
               "sum of value functions at a point = {: .6g}".format(dev, s))
        ok = dev < 1e-8 and abs(s - 1) < 1e-8
    except Exception as exc:
        msg = "raises {!r}".format(exc)
        ok = False
    print("{:<58s} {}   [{}]".format(label, msg, "ok" if ok else "VIOLATION"))
    if not ok:
        failures.append(label)
    if expect_ok and not ok:
        print("   (this control case is expected to pass)")


unit = np.array([[0., 1., 1., 0.],
                 [0., 0., 1., 1.]]) - .5

print("demanded everywhere: deviation from the identity ~ 1e-12, sum = 1\n")

print("--- ElementQuadBFS (u, u_x, u_y, u_xy at the four vertices) ---")
report("unit square, axis parallel (control)",
       ElementQuadBFS(), one_quad(unit), bfs_picks, True)
report("unit square turned by 30 degrees (control)",
       ElementQuadBFS(), one_quad(rot2(30) @ unit), bfs_picks, True)
report("unit square turned by 45 degrees",
       ElementQuadBFS(), one_quad(rot2(45) @ unit), bfs_picks)
report("square with corners (0,-1) (1,0) (0,1) (-1,0)",
       ElementQuadBFS(), one_quad([[0, 1, 0, -1], [-1, 0, 1, 0]]), bfs_picks)
report("rhombus with corners (0,-1) (2,0) (0,1) (-2,0)",
       ElementQuadBFS(), one_quad([[0, 2, 0, -2], [-1, 0, 1, 0]]), bfs_picks)

print("\n--- ElementQuad2G (values at vertices, edge mid-points, centre) ---")
crit = np.rad2deg(np.arctan(np.sqrt(2. - np.sqrt(3.))))
report("unit square turned by 10 degrees (control)",
       ElementQuad2G(), one_quad(rot2(10) @ unit), q2g_picks, True)
report("unit square turned by {:.4f} degrees".format(crit),
       ElementQuad2G(), one_quad(rot2(crit) @ unit), q2g_picks)
report("2 x 1 rectangle turned by {:.4f} degrees".format(crit),
       ElementQuad2G(), one_quad(rot2(crit) @ (unit * [[2.], [1.]])),
       q2g_picks)

print("\n--- ElementHexC1 (u ... u_xyz at the eight vertices) ---")
m0 = MeshHex()
R3 = np.eye(3)
R3[:2, :2] = rot2(45)
report("unit cube, axis parallel (control)",
       ElementHexC1(), MeshHex(m0.p - .5, m0.t), c1_picks, True)
report("unit cube turned by 45 degrees about the z axis",
       ElementHexC1(), MeshHex(R3 @ (m0.p - .5), m0.t), c1_picks)

print("\n--- end to end: the constant 1 in a BFS space on a 4 x 4 mesh ---")
for deg in (0, 30, 45):
    m = MeshQuad().refined(2)
    m = MeshQuad(rot2(deg) @ (m.p - .5), m.t)
    label = "unit square mesh turned by {} degrees".format(deg)
    try:
        basis = CellBasis(m, ElementQuadBFS())
        x = basis.zeros()
        x[basis.nodal_dofs[0]] = 1.     # u = 1, u_x = u_y = u_xy = 0
        u = basis.interpolate(x)
        err = np.abs(np.array(u) - 1.).max()
        msg = "max |u_h - 1| at the quadrature points = {:.3e}".format(err)
        ok = err < 1e-8
    except Exception as exc:
        msg = "raises {!r}".format(exc)
        ok = False
    print("{:<58s} {}   [{}]".format(label, msg, "ok" if ok else "VIOLATION"))
    if not ok:
        failures.append(label)

print()
if failures:
    print("FAILED on {} admissible cell geometries:".format(len(failures)))
    for f in failures:
        print("  -", f)
    sys.exit(1)
print("all defining functionals are dual to the delivered basis")
