"""C09 (hunt 3) finding 3

No globally-defined element (ElementGlobal: ElementLineHermite,
ElementTriMorley / Argyris / Hermite / 15ParamPlate / P1G / P2G,
ElementQuadBFS / Quad2G, ElementHexC1) can be evaluated on a mesh with a
discontinuous topology (MeshLine1DG, MeshTri1DG, MeshQuad1DG, MeshHex1DG --
the periodic meshes).  ElementGlobal reads the corners of the cells as
``mesh.p[:, mesh.t]``; on these meshes ``t`` holds the (periodic) vertex
numbers while ``p`` holds one point per cell corner, so the cells it builds the
dual basis for are not the cells of the mesh.  Every other element family
works on these meshes.

The cells are ordinary affine cells.  The property demands that the defining
functionals (value and derivative at the cell end points / corners) are dual
to the delivered basis on each of them.
"""
import sys
import warnings
import numpy as np
from skfem import (MeshLine1DG, MeshTri1DG, MeshQuad1DG, MeshHex1DG,
                   ElementLineHermite, ElementLineP2, ElementTriMorley,
                   ElementTriP2, ElementQuadBFS, ElementQuad2,
                   ElementHexC1, ElementHex2, CellBasis)

warnings.simplefilter("ignore")
bad = []


def hermite_duality(mesh):
    """max |functional_j(phi_i) - delta_ij| per cell for ElementLineHermite,
    the functionals u(a), u'(a), u(b), u'(b) read from the delivered value
    and gradient at the two end points of each cell."""
    elem = ElementLineHermite()
    mapping = mesh.mapping()
    X = np.array([[0., 1.]])
    M = np.zeros((mesh.t.shape[1], 4, 4))
    for i in range(4):
        f = elem.gbasis(mapping, X, i)[0]
        M[:, i, 0] = np.array(f)[:, 0]
        M[:, i, 1] = f.grad[0][:, 0]
        M[:, i, 2] = np.array(f)[:, 1]
        M[:, i, 3] = f.grad[0][:, 1]
    return np.abs(M - np.eye(4)).max(axis=(1, 2))


print("=== ElementLineHermite on periodic line meshes ===")
for pts in (np.array([0., .3, 1.]), np.array([0., .2, .5, 1.])):
    m = MeshLine1DG.init_tensor(pts, periodic=[0])
    cells = m.mapping().F(np.array([[0., 1.]]))[0]
    print("periodic mesh of [0, 1] with nodes", pts)
    print("   cells of the mesh (through its mapping):", cells.tolist())
    print("   cells ElementGlobal builds its basis for :",
          m.p[0, m.t].T.tolist())
    try:
        dev = hermite_duality(m)
        print("   duality deviation per cell:", dev, "  (property: ~1e-15)")
        if dev.max() > 1e-8:
            bad.append("ElementLineHermite, {} periodic cells: silently not "
                       "dual (deviation {:.3g})".format(len(dev), dev.max()))
    except Exception as exc:
        print("   raises {!r}".format(exc))
        bad.append("ElementLineHermite, {} periodic cells: {!r}"
                   .format(m.t.shape[1], exc))

print("\n=== every ElementGlobal class against a sibling on the same "
      "periodic mesh ===")
x = np.array([0., .3, .55, 1.])
y = np.array([0., .4, 1.])
cases = [
    (MeshLine1DG.init_tensor(x, periodic=[0]),
     ElementLineHermite(), ElementLineP2()),
    (MeshTri1DG.init_tensor(x, y, periodic=[0]),
     ElementTriMorley(), ElementTriP2()),
    (MeshQuad1DG.init_tensor(x, y, periodic=[0]),
     ElementQuadBFS(), ElementQuad2()),
    (MeshHex1DG.init_tensor(x, y, y, periodic=[0]),
     ElementHexC1(), ElementHex2()),
]
for mesh, eglobal, esibling in cases:
    for elem in (esibling, eglobal):
        label = "{:<12s} {:<20s}".format(type(mesh).__name__,
                                         type(elem).__name__)
        try:
            basis = CellBasis(mesh, elem)
            # the constant 1: value DOFs one, derivative DOFs zero
            v = basis.zeros()
            v[basis.get_dofs(elements=True).all('u')] = 1.
            err = np.abs(np.array(basis.interpolate(v)) - 1.).max()
            print(label, "constant reproduced with error {:.2e}".format(err))
            if err > 1e-8:
                bad.append(label + " wrong basis")
        except Exception as exc:
            print(label, "raises {!r}".format(exc))
            if elem is eglobal:
                bad.append(label + " {!r}".format(exc))

print()
if bad:
    print("VIOLATIONS:")
    for b in bad:
        print("  -", b)
    sys.exit(1)
print("ok")
