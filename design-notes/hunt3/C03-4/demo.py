"""C03: ElementQuad2G - exported as an ordinary H1 element "for
quadrilaterals" - is discontinuous on every quadrilateral mesh whose cells are
not axis-parallel rectangles.

Three meshes: the refined unit square, the same mesh rotated by 30 degrees
(still squares) and the mesh with mildly displaced interior vertices.  A
random coefficient vector is evaluated from both sides of every interior edge
(InteriorFacetBasis, side 0 and 1).  The property demands agreeing values for
an H1 element on every mesh.  ElementQuad2 (same DOFs, reference-cell
construction) is shown for comparison.
"""
import sys
import logging

import numpy as np
from skfem import MeshQuad, InteriorFacetBasis
from skfem.element import ElementQuad2, ElementQuad2G

logging.disable(logging.WARNING)


def jump(mesh, elem):
    b0 = InteriorFacetBasis(mesh, elem, side=0, intorder=4)
    b1 = InteriorFacetBasis(mesh, elem, side=1, intorder=4)
    y = np.random.default_rng(0).standard_normal(b0.N)
    u0, u1 = b0.interpolate(y).value, b1.interpolate(y).value
    return np.abs(u0 - u1).max() / np.abs(u0).max()


base = MeshQuad().refined(2)
c, s = np.cos(np.pi / 6), np.sin(np.pi / 6)
rotated = base.morphed(lambda p: c * p[0] - s * p[1],
                       lambda p: s * p[0] + c * p[1])
p = base.p.copy()
I = base.interior_nodes()
p[0, I] += 0.03 * np.sin(7 * p[1, I] + 1.)
p[1, I] += 0.03 * np.cos(5 * p[0, I] + 2.)
distorted = MeshQuad(p, base.t)

bad = False
print("%-34s %14s %14s" % ("mesh", "ElementQuad2", "ElementQuad2G"))
for name, m in [("MeshQuad().refined(2)", base),
                ("... rotated by 30 degrees", rotated),
                ("... interior vertices displaced", distorted)]:
    j2 = jump(m, ElementQuad2())
    try:
        jg = jump(m, ElementQuad2G())
        sg = "%.2e" % jg
    except (ValueError, NotImplementedError) as err:
        # an element that refuses unsupported cells does not violate C03
        jg, sg = 0., "refused"
    print("%-34s %14.2e %14s" % (name, j2, sg))
    if max(j2, jg) > 1e-9:
        bad = True

print()
print("demanded: relative jump of the one-sided traces at rounding level on "
      "every mesh")
if bad:
    print("FAIL: ElementQuad2G is not continuous on general quadrilaterals")
    sys.exit(1)
print("OK")
