"""C03: the elements built on ElementGlobal lose their continuity when the
mesh does not sit at the origin (or is merely fine).

The same triangulation of a unit square is used three times: as it is, moved
by (10, 10) and moved by (100, 100).  A random coefficient vector is evaluated
from both sides of every interior edge through the public
InteriorFacetBasis(side=0/1).  A translation changes nothing about the finite
element space, so the property demands that the one-sided values (and, for the
C1 element ElementTriArgyris, the one-sided gradients) agree to rounding in
all three cases.
"""
import sys
import logging

import numpy as np
from skfem import MeshTri, MeshQuad, InteriorFacetBasis
from skfem.element import (ElementTriArgyris, ElementTriHermite,
                           ElementTriP2G, ElementQuadBFS, ElementTriP2)

logging.disable(logging.WARNING)

TOL = 1e-8   # generous: ordinary elements reach 1e-14 here


def one_sided_jumps(mesh, elem, seed=0):
    b0 = InteriorFacetBasis(mesh, elem, side=0, intorder=4)
    b1 = InteriorFacetBasis(mesh, elem, side=1, intorder=4)
    y = np.random.default_rng(seed).standard_normal(b0.N)
    u0, u1 = b0.interpolate(y), b1.interpolate(y)
    jv = np.abs(u0.value - u1.value).max() / np.abs(u0.value).max()
    jg = np.abs(u0.grad - u1.grad).max() / np.abs(u0.grad).max()
    return jv, jg


bad = False
base = MeshTri().refined(3)                     # 128 triangles, h = 1/8
print("mesh: MeshTri().refined(3), translated by (s, s); "
      "relative jump of the two one-sided traces over all interior edges")
print("%-20s %8s %12s %12s" % ("element", "s", "value jump", "grad jump"))
for elem, c1 in [(ElementTriP2(), False),        # reference: reference-cell element
                 (ElementTriP2G(), False),
                 (ElementTriHermite(), False),
                 (ElementTriArgyris(), True)]:
    for s in (0., 10., 100.):
        m = base.translated((s, s))
        jv, jg = one_sided_jumps(m, type(elem)())
        flag = ''
        if jv > TOL or (c1 and jg > TOL):
            flag = '  <-- discontinuous'
            bad = True
        print("%-20s %8g %12.2e %12s%s" % (type(elem).__name__, s, jv,
                                           ("%.2e" % jg) if c1 else '-', flag))

# the same on rectangles
mq = MeshQuad().refined(2).translated((100., 100.))
jv, jg = one_sided_jumps(mq, ElementQuadBFS())
print("%-20s %8g %12.2e %12.2e%s" % ("ElementQuadBFS", 100, jv, jg,
                                     '  <-- discontinuous'
                                     if max(jv, jg) > TOL else ''))
bad = bad or max(jv, jg) > TOL

# no translation at all: the plain unit square, refined six times
m6 = MeshTri().refined(6)
jv, jg = one_sided_jumps(m6, ElementTriArgyris())
print("ElementTriArgyris on MeshTri().refined(6) (no translation): "
      "value jump %.2e, grad jump %.2e" % (jv, jg))
bad = bad or max(jv, jg) > TOL

print()
print("demanded: every jump below %.0e (the traces of a conforming element "
      "are single-valued on every mesh)" % TOL)
if bad:
    print("FAIL: ElementGlobal elements are discontinuous on translated / "
          "fine meshes")
    sys.exit(1)
print("OK")
