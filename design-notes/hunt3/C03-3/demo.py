"""C03 (loud): on quadrilateral / hexahedral / second-order meshes that lie
away from the origin no one-sided trace can be evaluated at all.

FacetBasis and InteriorFacetBasis pull the facet quadrature points back to the
reference cell with MappingIsoparametric.invF, a Newton iteration that stops
when the step is below the ABSOLUTE tolerance 1e-12 (in reference
coordinates).  The rounding error of `x - F(X)` alone produces steps of size
eps * |x| / h, so for |x| / h >~ 1e3 the iteration can never "converge" and
the constructor raises - although the iterate is as accurate as floating
point permits.

The mesh below is a mildly distorted 6 x 5 grid of the unit square.  It is
used as it is and translated by (1e3, 1e3) and (1e4, 1e4).  The property
demands the two one-sided traces of a Q2 function to exist and to agree on
every interior edge for all three meshes.
"""
import sys
import logging

import numpy as np
from skfem import MeshQuad, InteriorFacetBasis, FacetBasis
from skfem.element import ElementQuad2

logging.disable(logging.WARNING)

m0 = MeshQuad.init_tensor(np.linspace(0, 1, 7), np.linspace(0, 1, 6))
p = m0.p.copy()
I = m0.interior_nodes()
p[0, I] += 0.03 * np.sin(7 * p[1, I] + 1.)
p[1, I] += 0.03 * np.cos(5 * p[0, I] + 2.)

bad = False
for s in (0., 1e3, 1e4):
    m = MeshQuad(p + s, m0.t)
    h = m.param()
    try:
        fb = FacetBasis(m, ElementQuad2())
        b0 = InteriorFacetBasis(m, ElementQuad2(), side=0)
        b1 = InteriorFacetBasis(m, ElementQuad2(), side=1)
    except Exception as err:
        print("shift %7g (|x|/h = %.0e): no facet basis: %s: %s"
              % (s, (s + 1) / h, type(err).__name__, err))
        bad = True
        continue
    y = np.random.default_rng(0).standard_normal(b0.N)
    u0, u1 = b0.interpolate(y).value, b1.interpolate(y).value
    j = np.abs(u0 - u1).max() / np.abs(u0).max()
    # allow for the conditioning eps * |x| / h of the pull-back
    tol = 1e-12 + 100 * np.finfo(float).eps * (s + 1) / h
    print("shift %7g (|x|/h = %.0e): relative jump of the one-sided traces "
          "%.2e (tolerance %.1e)" % (s, (s + 1) / h, j, tol))
    if j > tol:
        bad = True

print()
print("demanded: both one-sided traces exist and agree on all three meshes")
if bad:
    print("FAIL")
    sys.exit(1)
print("OK")
