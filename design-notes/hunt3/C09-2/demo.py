"""C09 (hunt 3) finding 2

ElementTriSkeletonP1 -- the piecewise linear element living on the facets of a
triangular mesh -- delivers

  (a) a gradient field that is identically zero although the delivered value
      varies linearly along the facet, i.e. the delivered derivative is not
      the (tangential) derivative of the delivered value, and
  (b) the value 0 instead of 1 at its own DOF location (the end points of the
      facet), where the two value functions of a facet also fail to sum to 1.
"""
import sys
import numpy as np
from skfem import MeshTri, FacetBasis, ElementTriSkeletonP1

bad = []
elem = ElementTriSkeletonP1()

print("=== reference triangle, facet 0 = {y = 0}, function 0 = 1 - x ===")
X = np.array([[.1, .3, .5, .7, .9],
              [.0, .0, .0, .0, .0]])
phi, dphi = elem.lbasis(X, 0)
print("points on the facet  x =", X[0])
print("delivered value        ", phi)
print("delivered d/dx         ", dphi[0], " (the tangential derivative)")
fd = np.diff(phi) / np.diff(X[0])
print("d/dx of the delivered value (exact for a linear function)", fd)
if not np.allclose(dphi[0][:-1], fd):
    bad.append("reference cell: delivered d/dx = 0, true d/dx = -1")

print("\n=== mapped cells: a skeleton function on the boundary facets ===")
m = MeshTri().refined(2)
m = MeshTri(np.array([[1.3, .4], [-.2, .9]]) @ m.p + 2., m.t)
fb = FacetBasis(m, elem, intorder=3)
y = np.random.default_rng(0).random(fb.N)
u = fb.interpolate(y)
x = np.array(fb.global_coordinates())
val = np.array(u)
# straight facets and a linear function: the difference quotient between the
# first and last quadrature point IS the tangential derivative
dx = x[:, :, -1] - x[:, :, 0]
length = np.linalg.norm(dx, axis=0)
tangent = dx / length
true_dt = (val[:, -1] - val[:, 0]) / length
delivered_dt = np.einsum('ik,ik->k', u.grad[:, :, 0], tangent)
print("facet | tangential derivative of delivered value | delivered grad . t")
for k in range(4):
    print("  {:3d} | {: .6f}                                 | {: .6f}"
          .format(k, true_dt[k], delivered_dt[k]))
err = np.abs(true_dt - delivered_dt).max()
print("max difference over all {} facets: {:.3e}   (property: 0)"
      .format(len(true_dt), err))
if err > 1e-10:
    bad.append("mapped cells: delivered gradient is zero, the value is not "
               "constant along the facets")

print("\n=== duality and partition of unity at the DOF locations ===")
print("DOF locations of functions 0, 1 (facet 0):", elem.doflocs[0],
      elem.doflocs[1])
Xd = elem.doflocs[:2].T.copy()
for i in (0, 1):
    v = elem.lbasis(Xd, i)[0]
    want = np.eye(2)[i]
    print("function {} at the two DOF locations: delivered {}  demanded {}"
          .format(i, v, want))
    if not np.allclose(v, want):
        bad.append("function {} is {} at its own DOF location".format(i, v[i]))
# the same through the public quadrature option: a Lobatto (trapezoid/Simpson)
# rule on the facets has the end points among its nodes
fb2 = FacetBasis(m, elem, quadrature=(np.array([[0., .5, 1.]]),
                                      np.array([1., 4., 1.]) / 6.))
# local index of each boundary facet within its cell -> its own two functions
lf = np.argmax(m.t2f[:, fb2.tind] == fb2.find, axis=0)
own = np.array([np.array(fb2.basis[2 * lf[k]][0])[k]
                + np.array(fb2.basis[2 * lf[k] + 1][0])[k]
                for k in range(len(fb2.find))])
print("sum of the two value functions of a facet at its [start, mid, end], "
      "first three boundary facets:\n", own[:3],
      "  (property: 1 everywhere on the facet)")
if not np.allclose(own, 1.):
    bad.append("the value functions of a facet do not sum to one at its end "
               "points")

print()
if bad:
    print("VIOLATIONS:")
    for b in bad:
        print("  -", b)
    sys.exit(1)
print("ok")
