"""C03: on a periodic mesh with only two cells in the periodic direction the
lowest-order H(div) elements are not normal-continuous.

MeshQuad1DG / MeshTri1DG / MeshHex1DG.init_tensor(..., periodic=[0]) accept a
grid with two cells in the x-direction without complaint.  The two cells of a
row then have the same vertex *set* on their horizontal edges, and the mesh
identifies edges by their vertex sets, so distinct edges are merged (a "facet"
with four cells).  ElementHdiv.orient takes the sign of the normal DOF from
f2t, which can only hold two cells per facet.

The check is purely geometric and does not use the facet tables of the mesh:
a random coefficient vector is evaluated at the edge midpoints of every cell
(CellBasis with the edge midpoints as quadrature points); wherever two cells
have a midpoint in common, the normal components must agree.
"""
import sys
import logging

import numpy as np
from skfem import CellBasis
from skfem.mesh import MeshQuad1DG, MeshTri1DG
from skfem.element import ElementQuadRT1, ElementTriRT1

logging.disable(logging.WARNING)


def max_normal_jump(m, e, X, seed=0):
    cb = CellBasis(m, e, quadrature=(X, np.ones(X.shape[1])))
    y = np.random.default_rng(seed).standard_normal(cb.N)
    u = cb.interpolate(y).value            # 2 x ncells x nmid
    x = cb.global_coordinates().value      # 2 x ncells x nmid
    n = m.nelements
    worst, npairs = 0., 0
    for a in range(n):
        for i in range(X.shape[1]):
            for b in range(a + 1, n):
                for j in range(X.shape[1]):
                    if np.allclose(x[:, a, i], x[:, b, j], atol=1e-12):
                        # unit normal of the common edge, pointing out of a
                        d = x[:, a, i] - x[:, a].mean(axis=1)
                        nrm = edge_normal(m, a, x[:, a, i], d)
                        worst = max(worst,
                                    abs((u[:, a, i] - u[:, b, j]) @ nrm))
                        npairs += 1
    return worst / np.abs(u).max(), npairs


def edge_normal(m, cell, mid, guess):
    """Unit normal of the edge of `cell` whose midpoint is `mid`."""
    # corner coordinates of the cell through the public mapping
    refp = m.refdom.p
    corners = m.mapping().F(refp, tind=np.array([cell]))[:, 0, :]
    k = corners.shape[1]
    for a in range(k):
        for b in range(a + 1, k):
            if np.allclose(.5 * (corners[:, a] + corners[:, b]), mid):
                t = corners[:, b] - corners[:, a]
                nrm = np.array([t[1], -t[0]]) / np.linalg.norm(t)
                return nrm if nrm @ guess > 0 else -nrm
    raise RuntimeError


bad = False
Xq = np.array([[.5, 1., .5, 0.], [0., .5, 1., .5]])
Xt = np.array([[.5, .5, 0.], [0., .5, .5]])
for cls, elem, X, name in [(MeshQuad1DG, ElementQuadRT1, Xq, 'quadrilaterals'),
                           (MeshTri1DG, ElementTriRT1, Xt, 'triangles')]:
    for nx in (3, 2):
        try:
            m = cls.init_tensor(np.linspace(0, 1, nx + 1),
                                np.linspace(0, 1, 4),
                                periodic=[0])
        except ValueError as err:
            # a library that refuses the mesh does not violate the property
            print("%s, %d cells across: refused (%s)" % (name, nx, err))
            continue
        j, npairs = max_normal_jump(m, elem(), X)
        cnt = np.bincount(np.bincount(m.t2f.flatten()))
        print("%-14s %d x 3 cells, x-periodic, %s: %d coinciding edge "
              "midpoints, max jump of the normal component %.2e; facets "
              "with 1/2/3/4 cells: %s"
              % (name, nx, elem.__name__, npairs, j, [int(c) for c in cnt[1:]]))
        if j > 1e-10:
            bad = True

print()
print("demanded: jump of the normal component = 0 on every common edge")
if bad:
    print("FAIL: the two-cell periodic mesh is accepted, but H(div) "
          "functions on it are not normal-continuous")
    sys.exit(1)
print("OK")
