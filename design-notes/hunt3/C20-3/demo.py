"""C20 / finding 3: a NumPy operand on the left of an unknown breaks the form.

`np.sqrt(2.) * u`, `v.grad[0] * u`, `t.div * u`, `w['prev'] * u`,
`np.float64(1.) + u` ... all raise
"ValueError: object __array__ method not producing an array",
whereas the same products written the other way round work.
"""
import sys
import numpy as np

from skfem import MeshTri, Basis, ElementTriP2, BilinearForm
from skfem.autodiff import NonlinearForm

basis = Basis(MeshTri().refined(1), ElementTriP2())
rng = np.random.default_rng(0)
xk = rng.standard_normal(basis.N)
prev = rng.standard_normal(basis.N)

# every integrand below is LINEAR in u, so the property demands that the
# Jacobian equals the ordinary BilinearForm assembly of the same expression
# and the right-hand side equals -(J xk)
cases = [
    ("np.sqrt(2.) * u * v",
     lambda u, v, w: np.sqrt(2.) * u * v,
     lambda u, v, w: u * np.sqrt(2.) * v),
    ("v.grad[0] * u",
     lambda u, v, w: v.grad[0] * u,
     lambda u, v, w: u * v.grad[0]),
    ("w['prev'] * u * v",
     lambda u, v, w: w['prev'] * u * v,
     lambda u, v, w: u * w['prev'] * v),
    ("(np.float64(1.) + u) * v - v",
     lambda u, v, w: (np.float64(1.) + u) * v - v,
     lambda u, v, w: (u + np.float64(1.)) * v - v),
    ("w['prev'].grad[0] * u * v   [plain ndarray]",
     lambda u, v, w: w['prev'].grad[0] * u * v,
     lambda u, v, w: u * w['prev'].grad[0] * v),
]

bad = False
for name, f_left, f_right in cases:
    J_ref = BilinearForm(f_left).assemble(basis, prev=prev)
    print(name)
    for label, f in [("numpy operand on the left ", f_left),
                     ("same, unknown on the left", f_right)]:
        try:
            J, r = NonlinearForm(f).assemble(basis, x=xk, prev=prev)
        except Exception as e:
            print("   {}: raised {}: {}".format(label, type(e).__name__,
                                                str(e)[:70]))
            bad = True
            continue
        eJ = abs(J - J_ref).max()
        er = abs(r + J_ref @ xk).max()
        print("   {}: max |J - J_bilinear| = {:.1e}, max |r + J x| = {:.1e}"
              .format(label, eJ, er))
        if eJ > 1e-12 or er > 1e-12:
            bad = True

if bad:
    print("FAIL: admissible integrands are rejected depending on the order "
          "of the factors")
    sys.exit(1)
print("OK")
