"""C10-1: the orientation of an OrientedBoundary does not follow its facets.

The boundary of a sub-domain is obtained with Mesh.facets_around as an
OrientedBoundary (facet indices + per-facet orientation `ori`).  Handing the
same facets to FacetBasis in a different order (ob[perm], ob[::-1]), or as a
list of named oriented boundaries, must not change the normals: they have to
point out of the sub-domain, so that  int x.n ds = d * |sub-domain|.
"""
import sys
import numpy as np
from skfem import MeshTri1, CellBasis, FacetBasis, ElementTriP1, Functional
from skfem.helpers import dot

m = MeshTri1().refined(3)
els = m.elements_satisfying(lambda x: (x[0] - .5) ** 2 + (x[1] - .5) ** 2 < .1)
ob = m.facets_around(els)          # OrientedBoundary, outward w.r.t. `els`
d = m.dim()


def volume(mesh, elements):
    cb = CellBasis(mesh, ElementTriP1(), elements=elements)
    return Functional(lambda w: 1. + 0. * w.x[0]).assemble(cb)


def flux(mesh, facets):
    fb = FacetBasis(mesh, ElementTriP1(), facets=facets)
    return Functional(lambda w: dot(w.x, w.n)).assemble(fb)


vol = volume(m, els)
bad = []


def report(name, val, expected):
    ok = abs(val - expected) < 1e-10
    print("{:<55s} {: .6f}   expected {: .6f}   {}".format(
        name, val, expected, "ok" if ok else "WRONG"))
    if not ok:
        bad.append(name)


print("sub-domain of {} cells, {} oriented facets, ori = {}".format(
    len(els), len(ob), ob.ori))
report("int x.n / d, facets=ob", flux(m, ob) / d, vol)

rev = ob[::-1]
print("ob[::-1] is an", type(rev).__name__,
      "- facets:", np.asarray(rev)[:4], "...",
      "its ori:", rev.ori[:4], "...",
      "expected ori:", ob.ori[::-1][:4], "...")
report("int x.n / d, facets=ob[::-1]  (same facets)", flux(m, rev) / d, vol)

perm = np.random.default_rng(0).permutation(len(ob))
report("int x.n / d, facets=ob[perm]  (same facets)",
       flux(m, ob[perm]) / d, vol)

# a proper subset: the first five facets of `ob`
try:
    sub = ob[:5]
    fb = FacetBasis(m, ElementTriP1(), facets=sub)
    expected_cells = m.f2t[ob.ori[:5], np.asarray(ob)[:5]]
    n_ok = (len(fb.tind) == 5) and (fb.tind == expected_cells).all()
    print("facets=ob[:5]: cells used", fb.tind, "expected", expected_cells,
          "ok" if n_ok else "WRONG")
    if not n_ok:
        bad.append("subset ob[:5]")
except Exception as e:
    print("facets=ob[:5] raises {}: {}".format(type(e).__name__, e))
    bad.append("subset ob[:5] raises")

# two named oriented boundaries passed as a list
e1 = m.elements_satisfying(lambda x: (x[0] - .25) ** 2 + (x[1] - .25) ** 2 < .03)
e2 = m.elements_satisfying(lambda x: (x[0] - .75) ** 2 + (x[1] - .75) ** 2 < .03)
mm = m.with_boundaries({'a': m.facets_around(e1), 'b': m.facets_around(e2)})
report("int x.n / d, facets='a'", flux(mm, 'a') / d, volume(m, e1))
report("int x.n / d, facets='b'", flux(mm, 'b') / d, volume(m, e2))
report("int x.n / d, facets=['a']", flux(mm, ['a']) / d, volume(m, e1))
report("int x.n / d, facets=['a', 'b']", flux(mm, ['a', 'b']) / d,
       volume(m, e1) + volume(m, e2))

if bad:
    print("\nDEFECT: orientation lost or stale for:", bad)
    sys.exit(1)
print("\nall consistent")
