"""RefHex.on_facet(0, .) and RefHex.on_facet(5, .) do not bound the second
in-plane coordinate from above.

Out of the literal scope of C08 (quadrature exactness); it lives in
skfem/refdom.py and was noticed while auditing that file.
"""
import sys
import numpy as np
from skfem.refdom import RefHex
from skfem.element import ElementHexSkeleton0

# points in the planes x = 1 (facet 0) and x = 0 (facet 5) of the unit cube
#            inside facet   y above the cell   y below the cell
ys = np.array([0.5,          1.5,               -0.5])
zs = np.array([0.5,          0.5,                0.5])
expected = np.array([True, False, False])

bad = False
for i, x in [(0, 1.), (5, 0.)]:
    X = np.array([x + 0 * ys, ys, zs])
    got = np.asarray(RefHex.on_facet(i, X)).astype(bool)
    print("facet", i, "points", X.T.tolist())
    print("   on_facet ->", got.tolist(), " expected", expected.tolist())
    bad |= (got != expected).any()

# siblings: the four other facets bound both in-plane coordinates
for i, X in [(1, [[1.5], [.5], [1.]]), (2, [[1.5], [1.], [.5]]),
             (3, [[1.5], [0.], [.5]]), (4, [[1.5], [.5], [0.]])]:
    got = bool(np.asarray(RefHex.on_facet(i, np.array(X)))[0])
    print("facet", i, "point outside the cell ->", got, " expected False")
    bad |= got

# consequence for the element that uses the predicate
phi, _ = ElementHexSkeleton0().lbasis(np.array([[1.], [1.5], [.5]]), 0)
print("ElementHexSkeleton0.lbasis at (1, 1.5, .5), i=0 ->", phi,
      " expected [0.]")
bad |= phi[0] != 0.

sys.exit(1 if bad else 0)
