"""C15 (no hidden state): Mesh.trace() gives a result or raises depending on
the level of the 'skfem' logger, a piece of process-wide state that is not an
argument of the call.

docs/examples/ex01.py advertises

    logging.getLogger('skfem').setLevel(logging.DEBUG)

as the switch for "additional mesh validity checks".  The property demands
that the same call on the same (unchanged) mesh gives the same result before
and after that switch is flipped.
"""
import logging
import sys

import numpy as np

from skfem import MeshTri, MeshQuad, MeshTet, MeshHex

failures = 0
for cls in (MeshTri, MeshQuad, MeshTet, MeshHex):
    m = cls().refined(1).with_defaults()

    logging.getLogger('skfem').setLevel(logging.WARNING)
    mt1, facets1 = m.trace('left')
    print(f"{cls.__name__}: level WARNING -> trace mesh with "
          f"p{mt1.p.shape} t{mt1.t.shape}, facets {facets1}")

    # the documented switch for extra validation
    logging.getLogger('skfem').setLevel(logging.DEBUG)
    try:
        mt2, facets2 = m.trace('left')
        same = (np.array_equal(mt1.p, mt2.p) and np.array_equal(mt1.t, mt2.t)
                and np.array_equal(facets1, facets2))
        print(f"{cls.__name__}: level DEBUG   -> same result: {same}")
        if not same:
            failures += 1
    except Exception as e:
        print(f"{cls.__name__}: level DEBUG   -> raises {e!r}")
        failures += 1
    finally:
        logging.getLogger('skfem').setLevel(logging.WARNING)

print()
print("property demands: the result of m.trace('left') depends on m and "
      "'left' only")
if failures:
    print("VIOLATED: the same call raises once the logger level is DEBUG")
    sys.exit(1)
print("ok")
