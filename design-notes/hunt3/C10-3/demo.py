"""C10-3: the isoparametric mapping has no facet map in one dimension.

On a straight-sided simplicial mesh the affine and the isoparametric mapping
must return the same values.  For MeshLine1 this holds for F, invF, DF, invDF,
detDF and normals, but G and detDG of MappingIsoparametric raise, so that a
one-dimensional mesh with `affine=False` cannot carry a FacetBasis at all.
"""
import sys
from dataclasses import replace
import numpy as np
from skfem import (MeshLine1, FacetBasis, InteriorFacetBasis, CellBasis,
                   ElementLineP1, Functional)
from skfem.mapping import MappingAffine, MappingIsoparametric
from skfem.helpers import dot

p = np.array([[0., .2, .7, 1.5]])
t = np.array([[0, 1], [2, 1], [2, 3]]).T      # second cell reversed
m = MeshLine1(p, t)
A = MappingAffine(m)
I = MappingIsoparametric(m, ElementLineP1(), m.bndelem)

bad = []
X = np.array([[.1, .5, .9]])
for fn in ['F', 'DF', 'invDF', 'detDF']:
    a, b = getattr(A, fn)(X), getattr(I, fn)(X)
    print("{:6s} affine == isoparametric: {}".format(fn, np.allclose(a, b)))
    if not np.allclose(a, b):
        bad.append(fn)

Xf = np.zeros((0, 1))                          # the point quadrature rule
for fn in ['G', 'detDG']:
    a = getattr(A, fn)(Xf)
    try:
        b = getattr(I, fn)(Xf)
        ok = a.shape == b.shape and np.allclose(a, b)
        print("{:6s} affine == isoparametric: {}".format(fn, ok))
        if not ok:
            bad.append(fn)
    except Exception as e:
        print("{:6s} affine gives {}, isoparametric raises {}: {}".format(
            fn, a.ravel(), type(e).__name__, e))
        bad.append(fn)

for flag in (True, False):
    mm = replace(m, affine=flag)
    try:
        fb = FacetBasis(mm, ElementLineP1())
        flux = Functional(lambda w: dot(w.x, w.n)).assemble(fb)
        ifb = InteriorFacetBasis(mm, ElementLineP1())
        print("affine={}: int x.n = {} (length {}), {} interior facets"
              .format(flag, flux, 1.5, ifb.nelems))
        if abs(flux - 1.5) > 1e-12:
            bad.append("flux")
    except Exception as e:
        print("affine={}: FacetBasis raises {}: {}".format(
            flag, type(e).__name__, e))
        bad.append("FacetBasis affine={}".format(flag))

if bad:
    print("\nDEFECT:", bad)
    sys.exit(1)
print("\nall consistent")
