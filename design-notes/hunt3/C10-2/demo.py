"""C10-2: Mesh.facets_satisfying(..., normal=n) orients facets with a "normal"
that is not the normal of the facet.

The orientation is decided from mapping.normals evaluated at the reference
point (0, ..., 0) of the cell f2t[0].  That point does not lie on the facet in
general, and for a non-affine cell (any quadrilateral / hexahedron that is not
a parallelogram / parallelepiped, any curved second-order cell) the vector
DF^{-T} N_ref computed there is not orthogonal to the facet.  The resulting
OrientedBoundary then makes FacetBasis deliver normals that point AGAINST the
requested direction.
"""
import sys
import numpy as np
from skfem import MeshQuad1, MeshHex1, FacetBasis, ElementQuad1, ElementHex1

bad = []

# --- two well-shaped trapezoids sharing a facet inclined by 45 degrees -----
p = np.array([[0., 0.], [1., 0.], [1., 1.2], [0., .2], [1., 2.], [0., 2.]]).T
t = np.array([[0, 1, 2, 3],
              [5, 3, 2, 4]]).T       # both counterclockwise
m = MeshQuad1(p, t)
f = np.nonzero(m.f2t[1] >= 0)[0]     # the single interior facet
print("interior facet", f, "with vertices", m.facets[:, f].T,
      "between cells", m.f2t[:, f].T)
want = np.array([1., .2])
ob = m.facets_satisfying(lambda x: np.isin(np.arange(x.shape[1]), f),
                         normal=want)
fb = FacetBasis(m, ElementQuad1(), facets=ob)
n = fb.normals.value[:, 0, 0]
# unit normal of the facet, from its two end points
e = np.diff(m.p[:, m.facets[:, f[0]]], axis=1)[:, 0]
nu = np.array([e[1], -e[0]]) / np.linalg.norm(e)
nu *= np.sign(nu @ want)
print("requested direction      ", want)
print("normal delivered         ", n, " (taken from cell", fb.tind_normals, ")")
print("facet normal along `want`", nu)
print("delivered . requested =", n @ want, " -- must be positive")
if n @ want <= 0:
    bad.append("quad")

# --- the same in three dimensions: the trapezoids extruded ---------------
P = np.vstack((np.hstack((p, p)), np.repeat([0., 1.], p.shape[1])))
# RefHex numbering of the extruded cells
def hexcell(q):  # q: counterclockwise quad q0..q3 at z=0, +6 at z=1
    a, b, c, d = q
    A, B, C, D = (v + 6 for v in q)
    # RefHex vertices: (1,1,1),(1,1,0),(1,0,1),(0,1,1),(1,0,0),(0,1,0),(0,0,1),(0,0,0)
    # with (x,y) in the quad's reference square: a=(0,0), b=(1,0), c=(1,1), d=(0,1)
    return [C, c, B, D, b, d, A, a]
T = np.array([hexcell(t[:, 0]), hexcell(t[:, 1])]).T
M = MeshHex1(P, T)
F = np.nonzero(M.f2t[1] >= 0)[0]
want3 = np.array([1., .2, 0.])
OB = M.facets_satisfying(lambda x: np.isin(np.arange(x.shape[1]), F),
                         normal=want3)
FB = FacetBasis(M, ElementHex1(), facets=OB)
n3 = FB.normals.value[:, 0, 0]
print("\nhexahedra: delivered normal", n3, " delivered . requested =",
      n3 @ want3, " -- must be positive")
if n3 @ want3 <= 0:
    bad.append("hex")

if bad:
    print("\nDEFECT: facets oriented against the requested normal:", bad)
    sys.exit(1)
print("\nfacets are oriented along the requested normal")
