"""C10-4: the single-cell meshes MeshTet2.init_refdom() / MeshHex2.init_refdom()
have no mid-side nodes: every method of their mapping raises IndexError.

A mesh that consists of the reference cell is the simplest "single cell" input
of the property: F must be the identity, detDF = 1, the boundary integral of
x.n must equal d times the reference volume.
"""
import sys
import numpy as np
from skfem import (MeshTri2, MeshQuad2, MeshTet2, MeshHex2, CellBasis,
                   FacetBasis, Functional, ElementTetP2, ElementHex2)
from skfem.helpers import dot

bad = []
for cls in (MeshTri2, MeshQuad2, MeshTet2, MeshHex2):
    m = cls.init_refdom()
    d = m.dim()
    need = m.dofs.N
    print("{}.init_refdom() -> {} with {} points; its element {} needs {}"
          .format(cls.__name__, type(m).__name__, m.p.shape[1],
                  m.elem.__name__, need))
    X = m.refdom.p.mean(axis=1)[:, None]
    try:
        x = m.mapping().F(X)[:, 0, 0]
        det = m.mapping().detDF(X)[0, 0]
        vol = Functional(lambda w: 1. + 0. * w.x[0]).assemble(
            CellBasis(m, m.elem()))
        flux = Functional(lambda w: dot(w.x, w.n)).assemble(
            FacetBasis(m, m.elem()))
        ok = (np.allclose(x, X[:, 0]) and np.isclose(det, 1.)
              and np.isclose(flux, d * vol))
        print("   F(centroid) = {}, detDF = {}, volume = {:.4f}, "
              "int x.n = {:.4f} = d * volume: {}".format(x, det, vol, flux, ok))
        if not ok:
            bad.append(cls.__name__)
    except Exception as e:
        print("   mapping raises {}: {}".format(type(e).__name__, e))
        bad.append(cls.__name__)

# a consequence: refinterp (used by all the plotting helpers) of any basis on
# a 3-D second-order mesh starts from init_refdom
for cls, elem in ((MeshTet2, ElementTetP2()), (MeshHex2, ElementHex2())):
    basis = CellBasis(cls(), elem)
    try:
        M, w = basis.refinterp(basis.zeros(), 1)
        print("refinterp on {}: ok, {} cells".format(cls.__name__,
                                                    M.nelements))
    except Exception as e:
        print("refinterp on {} raises {}: {}".format(
            cls.__name__, type(e).__name__, e))
        bad.append("refinterp " + cls.__name__)

if bad:
    print("\nDEFECT:", bad)
    sys.exit(1)
print("\nall consistent")
