"""C20 / finding 2: fields cannot be unpacked or iterated in a NonlinearForm.

`x, y = w.x` - the idiom of docs/gettingstarted.rst - raises, and any
iteration (`f(*w.x)` as in docs/examples/ex33.py, `for c in u`, `zip(u, v)`,
`sum(...)`) never terminates.
"""
import sys
import numpy as np

from skfem import MeshTri, Basis, ElementTriP1, BilinearForm, LinearForm
from skfem.autodiff import NonlinearForm

basis = Basis(MeshTri().refined(1), ElementTriP1())
xk = np.random.default_rng(0).standard_normal(basis.N)


# the integrand  F(u; v) = x y u v - x v  is linear in u: the property demands
# J = assembly of (x y u v), rhs = -(J xk - assembly of (x v))
@BilinearForm
def a(u, v, w):
    x, y = w.x                       # fine for ordinary forms
    return x * y * u * v


@LinearForm
def l(v, w):
    x, y = w.x
    return x * v


J_ref = a.assemble(basis)
r_ref = -(J_ref @ xk - l.assemble(basis))


@NonlinearForm
def F_unpack(u, v, w):
    x, y = w.x                       # same idiom
    return x * y * u * v - x * v


LIMIT = 1000


@NonlinearForm
def F_iter(u, v, w):
    comps = []
    for c in w.x:                    # w.x has two components
        comps.append(c)
        if len(comps) > LIMIT:
            raise RuntimeError("iteration over w.x did not stop after {} "
                               "items (w.x has 2 components)".format(LIMIT))
    x, y = comps
    return x * y * u * v - x * v


bad = False
for name, form in [("x, y = w.x", F_unpack), ("for c in w.x", F_iter)]:
    print("integrand using `{}`:".format(name))
    try:
        J, r = form.assemble(basis, x=xk)
    except Exception as e:
        print("   raised {}: {}".format(type(e).__name__, e))
        print("   expected: Jacobian == BilinearForm assembly, "
              "rhs == -(J x - f)")
        bad = True
        continue
    eJ = abs(J - J_ref).max()
    er = abs(r - r_ref).max()
    print("   max |J - J_ref| = {:.2e}, max |r - r_ref| = {:.2e}"
          .format(eJ, er))
    if eJ > 1e-12 or er > 1e-12:
        bad = True

if bad:
    print("FAIL: fields of a NonlinearForm cannot be unpacked / iterated")
    sys.exit(1)
print("OK")
