"""F91: MeshTet1._adaptive_sort_mesh scaled its tie-breaking noise by the
largest absolute coordinate (repair F71).  Far from the origin the noise
reaches the size of the cells and the bisected edge is no longer the longest:
the refinement of a translated mesh differs from the translated refinement
and cell shapes degrade."""
import sys
import numpy as np
from skfem import MeshTet


def quality(m):
    p, t = m.p, m.t
    e = [np.linalg.norm(p[:, t[i]] - p[:, t[j]], axis=0)
         for i in range(4) for j in range(i + 1, 4)]
    vol = np.abs(np.linalg.det(
        np.stack([p[:, t[k]] - p[:, t[0]] for k in (1, 2, 3)]).transpose(
            2, 0, 1))) / 6
    return (vol / np.max(e, axis=0) ** 3).min()


def run(shift):
    m = MeshTet().refined(1).translated((shift, 0., 0.))
    for k in range(10):
        # refine the cells touching the corner (shift, 0, 0)
        d = np.linalg.norm(m.p - np.array([[shift], [0.], [0.]]), axis=0)
        corner = np.argmin(d)
        m = m.refined(np.nonzero((m.t == corner).any(axis=0))[0])
    return m


a, b = run(0.), run(2.**33)
print("cells:", a.nelements, b.nelements)
print("worst shape (vol / hmax^3): at the origin %.3e, translated %.3e"
      % (quality(a), quality(b)))
ok = a.nelements == b.nelements and abs(
    quality(a) - quality(b)) < 1e-6 * quality(a)
print("OK" if ok else "DEFECT: refinement depends on the position of the mesh")
sys.exit(0 if ok else 1)
