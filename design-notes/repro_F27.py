"""Scratch artefact (not a registered check): failing inputs of F27a-c
against whatever skfem is on PYTHONPATH.  A mesh with one trailing unused
vertex (an admissible state: cf. Mesh.remove_unused_nodes) is refined /
split / extruded; the measure must stay 1."""
import numpy as np
from skfem import (MeshTri, MeshLine, MeshQuad, Basis, ElementLineP1,
                   ElementTriP1, ElementWedge1, Functional)


@Functional
def one(w):
    return 1. + 0 * w.x[0]


def measure(m, e):
    try:
        return float(one.assemble(Basis(m, e)))
    except Exception as ex:            # zero Jacobian etc.
        return float("nan")


ml = MeshLine(np.linspace(0, 1, 4))
mu = type(ml)(np.hstack((ml.p, [[9.]])), ml.t, validate=False)
a = measure(mu.refined(np.array([1])), ElementLineP1())
mq = MeshQuad().refined(1)
mqu = type(mq)(np.hstack((mq.p, [[7.], [7.]])), mq.t, validate=False)
b = measure(mqu.to_meshtri(style='x'), ElementTriP1())
m = MeshTri()
mtu = MeshTri(np.hstack((m.p, [[5.], [5.]])), m.t, validate=False)
c = measure(mtu * MeshLine(np.linspace(0, 1, 3)), ElementWedge1())
for k, v in (("F27a 1-D adaptive", a), ("F27b quad 'x' split", b),
             ("F27c extrusion", c)):
    print(k, "ok" if abs(v - 1) < 1e-9 else f"DEFECT PRESENT ({v})")
