"""Scratch artefact (not a registered check): failing input of F29.
MeshTet2.refined() with named subdomains: the children of a tetrahedron are
not stored in whole-mesh blocks (the interior diagonal is chosen per cell),
but MeshTet2._uniform dropped the tags on the way through MeshTet1 and so left
them to Mesh.refined's generic 'k + j*nt' propagation."""
import numpy as np
from skfem import MeshTet, MeshTet2

m = MeshTet.init_tensor(np.linspace(0, 1, 4) ** 1.7,
                        np.linspace(0, 1, 3) ** .6,
                        np.linspace(0, 1, 4) ** 1.3)
mm = MeshTet2.from_mesh(m).with_subdomains({'left': lambda x: x[0] < 0.3})
old = mm.subdomains['left']
r = mm.refined()
ix = r.subdomains['left']
mid = r.p[:, r.t[:4, ix]].mean(axis=1)
par = m.element_finder()(*mid)
bad = int((~np.isin(par, old)).sum())
print("F29", "ok" if bad == 0 else
      f"DEFECT PRESENT ({bad} of {len(ix)} cells of the refined subdomain "
      f"lie outside the original one)")
