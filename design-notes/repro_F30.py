"""Scratch artefact (not a registered check): failing input of F30.
NonlinearForm stored the Jacobian slot of (test i, trial j) as data[j, i]:
the global matrix is right (rows/cols follow), but the per-cell matrices
COOData.tolocal() hands out are the transposes of its blocks."""
import numpy as np
from skfem import MeshTri, Basis, ElementTriP1, BilinearForm
from skfem.autodiff import NonlinearForm

b = Basis(MeshTri().refined(1), ElementTriP1())


@BilinearForm
def a(u, v, w):
    return u.grad[0] * v          # nonsymmetric


@NonlinearForm
def F(u, v, w):
    return u.grad[0] * v


A = a.elemental(b)
J, _ = F.elemental(b)
dg = abs(A.tocsr() - J.tocsr()).max()
dl = np.abs(A.tolocal() - J.tolocal()).max()
print("F30", "ok" if dl < 1e-14 else
      f"DEFECT PRESENT (global matrices differ by {dg:.1e}, local matrices "
      f"by {dl:.3f})")
