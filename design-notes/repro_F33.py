"""Scratch artefact (not a registered check): failing input of F33.
CellBasis.interpolator with points carrying trailing axes (the form in which
Basis.project calls it) reshaped the result to the trailing shape alone: for
vector- and tensor-valued elements that raised ValueError."""
import numpy as np
from skfem import MeshTri, Basis, ElementVector, ElementTriP1

m = MeshTri().refined(2)
b = Basis(m, ElementVector(ElementTriP1()))
y = b.project(lambda x: np.array([x[0], 2 * x[1]]))
x = np.random.default_rng(0).random((2, 3, 4))
try:
    out = b.interpolator(y)(x)
    ok = out.shape == (2, 3, 4) and abs(out[0] - x[0]).max() < 1e-12 \
        and abs(out[1] - 2 * x[1]).max() < 1e-12
    print("F33", "ok" if ok else "DEFECT PRESENT (wrong values)")
except ValueError as e:
    print("F33 DEFECT PRESENT:", e)
