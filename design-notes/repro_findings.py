"""Scratch artefact, NOT part of the verification machinery (no registered
check runs it; the checks are static and never import skfem).

Runs the failing inputs of DESIGN.md section 4 against whatever `skfem` is on
PYTHONPATH, one block per finding, each in its own try/except, and prints
'defect present' / 'ok'.  Used to confirm each defect against the real code
before its `fix:` commit and to confirm the repair afterwards.
"""
import re, sys, traceback
src = open(__file__.replace('repro_findings.py', 'verify_candidate_fixes.py')).read()
head, *blocks = re.split(r'(?m)^# (F\d\d[^\n]*)\n', src.split("for k in sorted(R)")[0])
ns = {}
exec(head, ns)
names = blocks[0::2]; bodies = blocks[1::2]
for n, b in zip(names, bodies):
    try:
        exec(b, ns)
    except Exception as e:
        for k in re.findall(r"R\['(F\d\d)'\]", b):
            ns['R'].setdefault(k, False)
        print('  ', n, 'raised', type(e).__name__, str(e)[:80])
for k in sorted(ns['R']):
    print(k, 'ok' if ns['R'][k] else 'DEFECT PRESENT')
