"""The order of the two rows of Mesh.f2t depends on the *local* numbering of
the vertices inside the cells.  MeshTri/MeshTet.oriented() renumbers cells
locally (swaps t[0] and t[1] of the cells with negative Jacobian; the cells,
their order and the facet numbering stay the same) and keeps the named
boundaries, including the `ori` array of an OrientedBoundary - which is an
index into the rows of f2t.  After oriented() about a quarter of the facets of
an oriented boundary name the cell on the other side.

Exits non-zero on the unmodified library.
"""
import sys
import numpy as np
from skfem import MeshTri, MeshTet, FacetBasis, ElementTriP0, ElementTetP0
from skfem.generic_utils import OrientedBoundary

bad = 0
for name, m, elem in (
        ('MeshTri().refined(3)', MeshTri().refined(3), ElementTriP0()),
        ('MeshTri.init_circle(2)', MeshTri.init_circle(2), ElementTriP0()),
        ('MeshTet().refined(2)', MeshTet().refined(2), ElementTetP0()),
        ('MeshTet.init_ball(2)', MeshTet.init_ball(2), ElementTetP0()),
):
    # all interior facets that are not parallel to e_x, oriented such that
    # the normal has a positive x component
    ex = np.eye(m.dim())[0]
    ob = m.facets_satisfying(lambda x: x[0] == x[0], normal=ex)
    nx = FacetBasis(m, elem, facets=ob).normals.value[0][:, 0]
    keep = (m.f2t[1, ob] != -1) & (np.abs(nx) > 1e-8)
    g = OrientedBoundary(np.asarray(ob)[keep], ob.ori[keep])
    m = m.with_boundaries({'g': g})
    nx = FacetBasis(m, elem, facets='g').normals.value[0][:, 0]
    assert (nx > 0).all()
    inner_before = m.f2t[g.ori, g]

    o = m.oriented()
    # nothing but the local numbering has changed
    assert (np.sort(o.t, axis=0) == np.sort(m.t, axis=0)).all()
    assert (o.facets == m.facets).all()

    swapped = int(((m.f2t[0] != o.f2t[0]) & (m.f2t[1] != -1)).sum())
    g2 = o.boundaries['g']
    inner_after = o.f2t[g2.ori, g2]
    nflip = int((inner_before != inner_after).sum())
    nx2 = FacetBasis(o, elem, facets='g').normals.value[0][:, 0]
    print('{:24s} interior facets: {:4d}, f2t rows swapped by oriented(): '
          '{:4d}'.format(name, int((m.f2t[1] != -1).sum()), swapped))
    print('{:24s} oriented boundary of {} facets, n.e_x > 0 on all of them; '
          'after oriented(): inner cell differs on {}, n.e_x > 0 on {}'
          .format('', len(g), nflip, int((nx2 > 0).sum())))
    if nflip:
        bad += 1

if bad:
    print('\nDEFECT: same cells, same cell order, same facets - but the '
          'oriented boundary now names the cell on the other side for some '
          'facets (expected: 0 differences)')
    sys.exit(1)
print('\nall fine')
