"""``MeshQuad1.to_meshtri`` turns an empty named boundary into a float array.

A named boundary that has lost all its facets (``restrict`` /
``remove_elements`` keep the name with an empty int32 index array) must
survive the split into triangles as what it is: a set of no facets.  The split
returns ``array([], dtype=float64)`` instead, and every later operation that
touches the tags of the triangle mesh raises ``IndexError``.
"""
import sys
import traceback

import numpy as np

from skfem import MeshQuad, FacetBasis, ElementTriP1

m = MeshQuad().refined(2).with_boundaries({
    'left': lambda x: x[0] == 0.,
    'right': lambda x: x[0] == 1.,
})
r = m.restrict(lambda x: x[0] > .5)      # the facets of 'left' are removed
print("after restrict :", {k: (v.dtype, len(v)) for k, v in r.boundaries.items()})

bad = 0
for style in (None, 'x'):
    tri = r.to_meshtri(style=style)
    print(f"to_meshtri(style={style!r}):",
          {k: (v.dtype, len(v)) for k, v in tri.boundaries.items()})
    for k, v in tri.boundaries.items():
        if not np.issubdtype(v.dtype, np.integer):
            print(f"   boundary {k!r} is not an index array: dtype {v.dtype}"
                  "  (property: the same - empty - set of facets)")
            bad += 1

    followups = {
        "restrict": lambda: tri.restrict(lambda x: x[1] < .5),
        "remove_elements": lambda: tri.remove_elements(np.array([0])),
        "refined": lambda: tri.refined(),
        "FacetBasis(facets='left')":
            lambda: FacetBasis(tri, ElementTriP1(), facets='left'),
        "facets[:, boundaries['left']]":
            lambda: tri.facets[:, tri.boundaries['left']],
    }
    for name, f in followups.items():
        try:
            f()
            print(f"   {name}: ok")
        except Exception as e:
            print(f"   {name}: raises {type(e).__name__}: {e}")
            bad += 1

# the same without restrict: a tag that selects nothing
tri = MeshQuad().with_boundaries({'none': lambda x: x[0] > 5.}).to_meshtri()
print("tag selecting nothing:", tri.boundaries)
bad += not np.issubdtype(tri.boundaries['none'].dtype, np.integer)

print()
if bad:
    print(f"{bad} violations: empty named boundaries do not survive to_meshtri")
    sys.exit(1)
print("empty named boundaries survive to_meshtri")
