"""C19 / finding 3: a product of three bases, ``b1 * b2 * b3``, cannot be built.

``AbstractBasis.__mul__`` returns a ``CompositeBasis`` ("A combination of two
or more Basis objects"), which itself inherits ``__mul__``.  The composite of
three component bases must assemble a coupled form into the 3x3 block matrix
of the separately assembled component forms - the element-level sibling
``e1 * e2 * e3`` does exactly that.
"""
import sys
import traceback

import numpy as np
from skfem import (MeshTri, Basis, ElementTriP2, ElementTriP1, ElementTriP0,
                   BilinearForm)

m = MeshTri().refined(1)
b1 = Basis(m, ElementTriP2())
b2 = b1.with_element(ElementTriP1())
b3 = b1.with_element(ElementTriP0())
bs = [b1, b2, b3]
C = np.arange(1., 10.).reshape(3, 3)


@BilinearForm
def coupled(u1, u2, u3, v1, v2, v3, w):
    us, vs = (u1, u2, u3), (v1, v2, v3)
    return sum(C[i, j] * us[j] * vs[i] for i in range(3) for j in range(3))


# what the property demands: the block matrix of the component forms
ref = np.block([[BilinearForm(lambda u, v, w: C[i, j] * u * v)
                 .assemble(bs[j], bs[i]).toarray()
                 for j in range(3)] for i in range(3)])
print("reference block matrix :", ref.shape)

# the element-level sibling works
eb = Basis(m, ElementTriP2() * ElementTriP1() * ElementTriP0(),
           quadrature=b1.quadrature)
ix = np.concatenate(eb.split_indices())
A_elem = coupled.assemble(eb).toarray()[np.ix_(ix, ix)]
print("e1 * e2 * e3           : max diff to reference",
      np.abs(A_elem - ref).max())

ok = True
for label, build in [("(b1 * b2) * b3", lambda: b1 * b2 * b3),
                     ("b1 * (b2 * b3)", lambda: b1 * (b2 * b3))]:
    try:
        cb = build()
        A = coupled.assemble(cb).toarray()
        diff = np.abs(A - ref).max()
        print("{}         : N = {}, max diff to reference {}"
              .format(label, cb.N, diff))
        ok = ok and diff < 1e-12
        x = np.random.default_rng(0).random(cb.N)
        for (xk, bk), fk in zip(cb.split(x), cb.interpolate(x)):
            ok = ok and np.allclose(bk.interpolate(xk), fk)
    except Exception:
        print("{}         : raised".format(label))
        traceback.print_exc(limit=1, file=sys.stdout)
        ok = False

if not ok:
    print("FAIL: the product of three bases is not available / does not "
          "reproduce the block matrix")
    sys.exit(1)
print("OK")
