"""C02 hunt 2, finding 1: the default boundary tags ('left', 'right', ...)
of a translated mesh contain interior facets, so that the integral over a
tagged boundary depends on where the mesh is placed.

Property clause: "functionals of polynomials equal their closed-form
integrals over ... any set of facets ... The result does not depend on ...
rigid motion of the mesh".

Exits 0 iff the integrals over the default tags are the same (and correct)
before and after a translation of the mesh.
"""
import sys
from fractions import Fraction

import numpy as np
from skfem import (MeshTri, MeshTet, ElementTriP1, ElementTetP1, FacetBasis,
                   Functional)


@Functional
def one(w):
    return 1. + 0. * w.x[0]


@Functional
def poly(w):
    # a polynomial in coordinates relative to the moved origin is supplied
    # through the parameter 'o' so that the exact value does not change
    y = w.x[-1] - w.o
    return 3. * y ** 2


def integrals(m, elem, origin):
    m = m.with_defaults()
    out = {}
    for name in sorted(m.boundaries):
        fb = FacetBasis(m, elem, facets=name, intorder=2)
        out[name] = (len(m.boundaries[name]),
                     float(one.assemble(fb)),
                     float(poly.assemble(fb, o=origin)))
    return out


bad = False
shift = float(Fraction(100000, 3))   # 33333.33..., a rational translation

for mesh, elem, label, measure in [
        (MeshTri().refined(3), ElementTriP1(), 'unit square, h = 1/8', 1.),
        (MeshTet().refined(2), ElementTetP1(), 'unit cube,   h = 1/4', 1.),
]:
    d = mesh.dim()
    ref = integrals(mesh, elem, 0.)
    moved = integrals(mesh.translated((shift,) * d), elem, shift)
    print(label, '- translated by', shift, 'in every direction')
    print('  {:8s} {:>28s}   {:>28s}'.format(
        'tag', 'at the origin (n, |S|, int)', 'translated (n, |S|, int)'))
    for name in ref:
        r, t = ref[name], moved.get(name)
        # exact: every side of the unit square / cube has measure 1 and the
        # integral of the polynomial (written in coordinates that move with
        # the mesh) is what it was before the translation
        ok = (t is not None
              and t[0] == r[0]
              and abs(t[1] - measure) < 1e-8
              and abs(t[2] - r[2]) < 1e-6)
        bad |= not ok
        print('  {:8s} {:>28s}   {:>28s}   {}'.format(
            name,
            '({}, {:.6f}, {:.6f})'.format(*r),
            'missing' if t is None else '({}, {:.6f}, {:.6f})'.format(*t),
            'ok' if ok else 'WRONG'))
    print('  the property demands |S| = {} for every side, wherever the '
          'mesh is'.format(measure))

if bad:
    print('\nDEFECT: the integral over a default boundary tag changes under '
          'a translation of the mesh.')
    sys.exit(1)
print('\nno defect observed')
sys.exit(0)
