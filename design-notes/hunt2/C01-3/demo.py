"""C01 hunt 2, finding 3.

Form.assemble() formats a log message with `self.form.__name__` before doing
any work.  A perfectly valid integrand that is a callable without a
`__name__` attribute - a functools.partial object (the standard way of binding
a coefficient) or an instance of a class with __call__ - therefore cannot be
assembled by BilinearForm, LinearForm or Functional, although the elemental
data (Form.elemental / Form.coo_data, which do not log) are computed without
any problem and are correct.
"""
import sys
import functools
import numpy as np
from skfem import (MeshTri, ElementTriP2, Basis, FacetBasis, BilinearForm,
                   LinearForm, Functional, asm)

m = MeshTri.init_sqsymmetric().refined(1)
basis = Basis(m, ElementTriP2())
rng = np.random.default_rng(0)
u, v = rng.random(basis.N), rng.random(basis.N)
U, V = basis.interpolate(u), basis.interpolate(v)
x = basis.global_coordinates()


def a(u, v, w, kappa):
    return kappa * u.grad[0] * v * (1. + w.x[1])


def l(v, w, kappa):
    return kappa * v.grad[1] * w.x[0]


def J(w, kappa):
    return kappa * w.uh * w.x[0]


class Integrand:
    """A parametrised integrand as a callable object."""

    def __init__(self, kappa):
        self.kappa = kappa

    def __call__(self, u, v, w):
        return a(u, v, w, self.kappa)


kappa = 3.
ref_a = (kappa * U.grad[0] * V * (1. + x[1]) * basis.dx).sum()
ref_l = (kappa * V.grad[1] * x[0] * basis.dx).sum()
ref_J = (kappa * U * x[0] * basis.dx).sum()

cases = [
    ("BilinearForm(functools.partial)",
     lambda: v @ BilinearForm(functools.partial(a, kappa=kappa))
     .assemble(basis) @ u, ref_a),
    ("BilinearForm(callable object)  ",
     lambda: v @ BilinearForm(Integrand(kappa)).assemble(basis) @ u, ref_a),
    ("LinearForm(functools.partial)  ",
     lambda: LinearForm(functools.partial(l, kappa=kappa))
     .assemble(basis) @ v, ref_l),
    ("Functional(functools.partial)  ",
     lambda: Functional(functools.partial(J, kappa=kappa))
     .assemble(basis, uh=u), ref_J),
    ("asm(BilinearForm(partial))     ",
     lambda: v @ asm(BilinearForm(functools.partial(a, kappa=kappa)),
                     basis) @ u, ref_a),
]

# the integrands themselves are fine: the non-logging entry point works
A = BilinearForm(functools.partial(a, kappa=kappa)).elemental(basis).tocsr()
print("via .elemental(basis).tocsr(): v^T A u = {:.12f}, a(u_h, v_h) = {:.12f}"
      .format(v @ A @ u, ref_a))
assert abs(v @ A @ u - ref_a) < 1e-10
# and so does the library's own wrapper, which patches __name__ by hand
A = BilinearForm(a).partial(kappa=kappa).assemble(basis)
assert abs(v @ A @ u - ref_a) < 1e-10

fail = False
for name, fun, ref in cases:
    try:
        got = fun()
        ok = abs(got - ref) < 1e-10
        print("{}: {:.12f}  expected {:.12f}  {}".format(
            name, got, ref, "ok" if ok else "WRONG"))
        fail |= not ok
    except Exception as exc:
        print("{}: raised {!r}  expected {:.12f}".format(name, exc, ref))
        fail = True

print("DEFECT PRESENT" if fail else "all consistent")
sys.exit(1 if fail else 0)
