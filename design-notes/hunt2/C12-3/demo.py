"""C12 / the single-cell second-order 3-D meshes the library builds itself
(MeshTet2.init_refdom(), MeshHex2.init_refdom()) cannot be refined; neither
can the second-order meshes returned by the inherited init_* constructors.

Property: uniformly refining any straight-sided mesh of any cell type
(second-order classes included, a single cell included) k times gives
2^(d*k) times as many cells whose union is the original domain.
"""
import sys
import numpy as np
from skfem import (MeshTri2, MeshQuad2, MeshTet2, MeshHex2, CellBasis,
                   ElementTetP2, ElementHex2)

failures = 0


def volume(m):
    """Sum of the cell volumes computed from the vertices alone."""
    p, t = m.p, m.t
    if t.shape[0] == 3:
        a, b, c = p[:, t[0]], p[:, t[1]], p[:, t[2]]
        return .5 * np.abs((b - a)[0] * (c - a)[1]
                           - (b - a)[1] * (c - a)[0]).sum()
    if t.shape[0] == 4 and p.shape[0] == 3:
        a, b, c, d = (p[:, t[i]] for i in range(4))
        return np.abs(np.einsum('ij,ij->j', np.cross((b - a).T, (c - a).T).T,
                                d - a)).sum() / 6.
    # axis-parallel boxes are all this demo feeds in
    return np.prod(np.ptp(p[:, t], axis=1), axis=0).sum()


def attempt(label, make, ncells, vol, k=1):
    global failures
    try:
        m = make()
        M = m.refined(k)
        ok = (M.nelements == ncells) and np.isclose(volume(M), vol)
        print(f"{label}: {type(m).__name__} with {m.p.shape[1]} points -> "
              f"{M.nelements} cells, volume {volume(M):.4f}  "
              f"(expected {ncells} cells, volume {vol:.4f})  ok={ok}")
        failures += not ok
    except Exception as e:
        print(f"{label}: expected {ncells} cells of total volume {vol:.4f}, "
              f"got {type(e).__name__}: {e}")
        failures += 1


x = np.linspace(0, 1, 3)
# the 2-D second-order classes override init_refdom and work
attempt("MeshTri2.init_refdom().refined()   ", MeshTri2.init_refdom, 4, .5)
attempt("MeshQuad2.init_refdom().refined()  ", MeshQuad2.init_refdom, 4, 1.)
# the 3-D ones do not
attempt("MeshTet2.init_refdom().refined()   ", MeshTet2.init_refdom, 8, 1 / 6)
attempt("MeshHex2.init_refdom().refined()   ", MeshHex2.init_refdom, 8, 1.)
# inherited tensor-product constructors
attempt("MeshTri2.init_tensor(x, x).refined()",
        lambda: MeshTri2.init_tensor(x, x), 32, 1.)
attempt("MeshQuad2.init_tensor(x, x).refined()",
        lambda: MeshQuad2.init_tensor(x, x), 16, 1.)
attempt("MeshHex2.init_tensor(x, x, x).refined()",
        lambda: MeshHex2.init_tensor(x, x, x), 64, 1.)

# consequence: refine-and-interpolate of *any* MeshTet2 / MeshHex2
for mesh, elem in [(MeshTet2(), ElementTetP2()), (MeshHex2(), ElementHex2())]:
    basis = CellBasis(mesh, elem)
    try:
        M, w = basis.refinterp(basis.zeros() + 1., 1)
        print(f"refinterp on {type(mesh).__name__}: {M.nelements} cells "
              f"(expected {8 * mesh.nelements})")
        failures += M.nelements != 8 * mesh.nelements
    except Exception as e:
        print(f"refinterp on {type(mesh).__name__}: expected "
              f"{8 * mesh.nelements} cells, got {type(e).__name__}: {e}")
        failures += 1

if failures:
    print(f"FAIL: {failures}")
    sys.exit(1)
print("PASS")
