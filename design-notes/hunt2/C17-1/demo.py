"""Mesh.load of a Gmsh 4.1 file invents a named subdomain 'gmsh:bounding_entities'.

The file below is a minimal, valid MSH 4.1 file as Gmsh itself writes it: the
unit square, two triangles, one physical surface "dom" and one physical curve
"left".  Like every file written by Gmsh it has an $Entities section in which
each curve / surface lists the tags of the entities that bound it.
"""
import os
import sys
import tempfile

import numpy as np
from skfem import Mesh

MSH41 = """$MeshFormat
4.1 0 8
$EndMeshFormat
$PhysicalNames
2
1 1 "left"
2 2 "dom"
$EndPhysicalNames
$Entities
4 4 1 0
1 0 0 0 0
2 1 0 0 0
3 1 1 0 0
4 0 1 0 0
1 0 0 0 1 0 0 0 2 1 -2
2 1 0 0 1 1 0 0 2 2 -3
3 0 1 0 1 1 0 0 2 3 -4
4 0 0 0 0 1 0 1 1 2 4 -1
1 0 0 0 1 1 0 1 2 4 1 2 3 4
$EndEntities
$Nodes
1 4 1 4
2 1 0 4
1
2
3
4
0 0 0
1 0 0
1 1 0
0 1 0
$EndNodes
$Elements
2 3 1 3
1 4 1 1
1 4 1
2 1 2 2
2 1 2 3
3 1 3 4
$EndElements
"""

tmp = tempfile.mkdtemp()
fn = os.path.join(tmp, 'square41.msh')
with open(fn, 'w') as fh:
    fh.write(MSH41)

m = Mesh.load(fn)
print(m)
subs = {k: np.asarray(v).tolist() for k, v in (m.subdomains or {}).items()}
bnds = {k: np.asarray(v).tolist() for k, v in (m.boundaries or {}).items()}
print("named subdomains loaded :", subs)
print("named boundaries loaded :", bnds)
print("the file defines        : subdomains {'dom'}, boundaries {'left'};"
      " the mesh has", m.nelements, "cells")

ok = True
if set(subs) != {'dom'}:
    print("FAIL: tag names of the subdomains are", sorted(subs),
          "- expected ['dom']")
    ok = False
for k, v in subs.items():
    if len(v) and (min(v) < 0 or max(v) >= m.nelements):
        print(f"FAIL: subdomain {k!r} holds {v}, which are not cell indices "
              f"of a mesh with {m.nelements} cells")
        ok = False

# consequence for the round trip: the invented tag does not even survive
# another save -> load unchanged
fn2 = os.path.join(tmp, 'again.vtk')
m.save(fn2)
m2 = Mesh.load(fn2)
subs2 = {k: np.asarray(v).tolist() for k, v in (m2.subdomains or {}).items()}
print("after save -> load      :", subs2)
if subs2 != subs:
    print("FAIL: named subdomains differ after save -> load")
    ok = False

sys.exit(0 if ok else 1)
