"""C12 / the refusal to refine DG (periodic) meshes also hits the single-cell,
perfectly ordinary reference mesh of the DG classes -- and through it
CellBasis.refinterp(), plot(basis, x) and mesh.draw() on every periodic mesh.

Property: uniformly refining any straight-sided mesh (a single cell included)
gives 2^(d*k) times as many cells covering the same domain.
"""
import sys
import numpy as np
from skfem import (MeshLine1DG, MeshTri1DG, MeshQuad1DG, MeshHex1DG, Basis,
                   ElementLineP1, ElementTriP1, ElementQuad1, ElementHex1)

failures = 0
x = np.linspace(0, 1, 4)
cases = [
    (MeshLine1DG, (x,), ElementLineP1()),
    (MeshTri1DG, (x, x), ElementTriP1()),
    (MeshQuad1DG, (x, x), ElementQuad1()),
    (MeshHex1DG, (x, x, x), ElementHex1()),
]
for cls, args, elem in cases:
    d = len(args)
    # (a) the reference cell: one cell, nothing periodic about it
    try:
        m = cls.init_refdom()
        M = m.refined()
        ok = M.nelements == 2 ** d
        print(f"{cls.__name__}.init_refdom().refined(): {M.nelements} cells "
              f"(expected {2 ** d})")
        failures += not ok
    except Exception as e:
        print(f"{cls.__name__}.init_refdom().refined(): expected {2 ** d} "
              f"cells, got {type(e).__name__}")
        failures += 1
    # (b) refine-and-interpolate on a periodic mesh (what plot(basis, u) and
    #     mesh.draw() do); the last coordinate is not periodic, so u = x_last
    #     is in the P1/Q1 space and must be reproduced exactly
    mesh = cls.init_tensor(*args, periodic=[0] if d > 1 else [])
    basis = Basis(mesh, elem)
    u = basis.project(lambda x: x[-1])
    try:
        M, w = basis.refinterp(u, 1)
        err = np.abs(w - M.p[-1]).max()
        ok = M.nelements == 2 ** d * mesh.nelements and err < 1e-10
        print(f"  refinterp on periodic {cls.__name__}: {M.nelements} cells "
              f"(expected {2 ** d * mesh.nelements}), error {err:.1e}")
        failures += not ok
    except Exception as e:
        print(f"  refinterp on periodic {cls.__name__}: expected "
              f"{2 ** d * mesh.nelements} cells, got {type(e).__name__}")
        failures += 1

if failures:
    print(f"FAIL: {failures}")
    sys.exit(1)
print("PASS")
