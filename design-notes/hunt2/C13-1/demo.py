"""Uniform refinement of tetrahedra: the interior octahedron of every cell is
cut along the diagonal that is shortest IN THE x-y PROJECTION (z is ignored),
not along the shortest diagonal.  Repeated uniform refinement therefore gives
a degenerating family of meshes: the cells get flatter at every level, and
the result depends on how the domain is rotated w.r.t. the coordinate axes."""
import sys

import numpy as np
from scipy.spatial import cKDTree
from skfem import MeshTet1, MeshTet2


def chunkiness(m):
    """min over the cells of (radius of inscribed ball) / (diameter)."""
    p, t = m.p, m.t[:4]
    e = p[:, t[1:]] - p[:, t[0]][:, None, :]
    vol = np.abs(np.linalg.det(np.transpose(e, (2, 0, 1)))) / 6.
    area = 0.
    for i, j, k in [(0, 1, 2), (0, 1, 3), (0, 2, 3), (1, 2, 3)]:
        a = (p[:, t[j]] - p[:, t[i]]).T
        b = (p[:, t[k]] - p[:, t[i]]).T
        area = area + .5 * np.linalg.norm(np.cross(a, b), axis=1)
    diam = np.zeros(t.shape[1])
    for i in range(4):
        for j in range(i + 1, 4):
            diam = np.maximum(diam,
                              np.linalg.norm(p[:, t[i]] - p[:, t[j]], axis=0))
    return (3. * vol / area / diam).min()


def wrong_diagonals(m, M):
    """Number of cells of m whose interior octahedron was NOT cut along its
    shortest diagonal in M = m.refined()."""
    tree = cKDTree(M.p.T)   # index of a point of M from its coordinates
    edges = set(map(tuple, np.sort(M.edges, axis=0).T))
    mid = lambda a, b: .5 * (m.p[:, m.t[a]] + m.p[:, m.t[b]])
    # the three diagonals join the midpoints of opposite edges
    diags = [(mid(0, 1), mid(2, 3)), (mid(0, 2), mid(1, 3)),
             (mid(0, 3), mid(1, 2))]
    wrong = 0
    for k in range(m.t.shape[1]):
        length, used = [], []
        for a, b in diags:
            (da, db), (ia, ib) = tree.query(np.array([a[:, k], b[:, k]]))
            assert max(da, db) < 1e-12
            length.append(np.linalg.norm(a[:, k] - b[:, k]))
            used.append((min(ia, ib), max(ia, ib)) in edges)
        assert sum(used) == 1
        if length[used.index(True)] > min(length) * (1 + 1e-9):
            wrong += 1
    return wrong


# the default mesh of the unit cube and the SAME mesh after a rigid rotation
a, b = .7, .4
R = (np.array([[1, 0, 0],
               [0, np.cos(a), -np.sin(a)],
               [0, np.sin(a), np.cos(a)]])
     @ np.array([[np.cos(b), 0, np.sin(b)],
                 [0, 1, 0],
                 [-np.sin(b), 0, np.cos(b)]]))
cube = MeshTet1()
meshes = {
    'unit cube, MeshTet1()': cube,
    'same mesh rotated': MeshTet1(R @ cube.p, cube.t),
    'one tetrahedron': MeshTet1(np.array([[0., 1., .2, .3],
                                          [0., .1, 1., .4],
                                          [0., .2, .1, 1.]]),
                                np.array([[0, 1, 2, 3]]).T),
    'rotated, MeshTet2': MeshTet2.from_mesh(MeshTet1(R @ cube.p, cube.t)),
}
nlevels = 4
fail = False
print('min over cells of inradius / diameter (0.204 for the regular '
      'tetrahedron, -> 0 for a degenerate cell)\n')
print('%-24s' % 'level' + ''.join('%9d' % k for k in range(nlevels + 1))
      + '   cells cut along a diagonal that is not the shortest')
for name, m in meshes.items():
    q = [chunkiness(m)]
    nwrong, ncells = 0, 0
    for k in range(nlevels):
        M = m.refined()
        if k < 3:
            nwrong += wrong_diagonals(m, M)
            ncells += m.t.shape[1]
        m = M
        q.append(chunkiness(m))
    print('%-24s' % name + ''.join('%9.4f' % x for x in q)
          + '   %d of %d' % (nwrong, ncells))
    # red refinement with the shortest diagonal reproduces the shapes of
    # level 1 at all later levels for these meshes
    if nwrong > 0 or q[-1] < .75 * q[1]:
        fail = True

print()
print('expected: a non-degenerate family - the minimum stays at its level-1 '
      'value (0.1038 for all three cube meshes,\nwhich are congruent) and '
      'every octahedron is cut along its shortest diagonal, as the comment '
      'in the source says')
print('DEFECT' if fail else 'ok')
sys.exit(1 if fail else 0)
