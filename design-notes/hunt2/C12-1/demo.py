"""C12 / second-order triangles and quadrilaterals lose their named boundaries
under uniform refinement although the first-order siblings carry them over.

Property: after m.refined(k) the named boundaries of segment, triangle and
quadrilateral meshes (second-order classes with straight facets included)
cover exactly the same point sets as before.
"""
import sys
import numpy as np
from skfem import MeshTri, MeshQuad, MeshTri2, MeshQuad2


def on_tagged(m, name, x, tol=1e-12):
    """True for the points x (2 x N) lying on a facet of m named `name`."""
    out = np.zeros(x.shape[1], dtype=bool)
    for a, b in m.p[:, m.facets[:, m.boundaries[name]]].transpose(2, 1, 0):
        d = b - a
        s = ((x - a[:, None]) * d[:, None]).sum(0) / d.dot(d)
        dist = np.linalg.norm(x - a[:, None] - np.outer(d, s), axis=0)
        out |= (dist < tol) & (s > -tol) & (s < 1 + tol)
    return out


def expected(m, M, name):
    """Facets of the refined mesh M lying on the facets of m named `name`."""
    mid = M.p[:, M.facets].mean(axis=1)
    ends = M.p[:, M.facets]
    ok = on_tagged(m, name, mid)
    for i in range(2):
        ok &= on_tagged(m, name, ends[:, i])
    return np.nonzero(ok)[0]


x = np.array([0., .3, 1.])
y = np.array([0., .5, .8, 2.])
tags = {
    'left': lambda x: x[0] == 0.,          # part of the boundary
    'mid': lambda x: x[0] == .3,           # interior facets
}

failures = 0
for first, second in [(MeshTri, MeshTri2), (MeshQuad, MeshQuad2)]:
    m1 = first.init_tensor(x, y).with_boundaries(tags, boundaries_only=False)
    m2 = second.from_mesh(first.init_tensor(x, y))
    m2 = m2.with_boundaries(tags, boundaries_only=False)
    # both classes number the facets identically
    assert np.array_equal(m1.facets, m2.facets)
    assert all(np.array_equal(m1.boundaries[k], m2.boundaries[k])
               for k in tags)
    for k in (1, 2):
        M1 = m1.refined(k)
        M2 = m2.refined(k)
        for name in tags:
            want = expected(m1, M1, name)
            got1 = np.sort(M1.boundaries[name])
            got2 = (None if M2.boundaries is None
                    else np.sort(M2.boundaries[name]))
            ok1 = np.array_equal(got1, want)
            ok2 = got2 is not None and np.array_equal(got2, want)
            print(f"{second.__name__}.refined({k}) '{name}': "
                  f"expected {len(want)} facets "
                  f"({first.__name__}: {'ok' if ok1 else 'WRONG'}), "
                  f"got {'no boundaries at all' if got2 is None else got2}")
            failures += (not ok1) + (not ok2)

if failures:
    print(f"FAIL: {failures} named boundaries were not carried over")
    sys.exit(1)
print("PASS")
