"""Mesh.save(..., encode_point_data=True) fails for every second-order mesh
(and for a first-order mesh whose point array has unused trailing points)."""
import os
import sys
import tempfile

import numpy as np
from skfem import (Mesh, MeshTri1, MeshTri2, MeshQuad1, MeshQuad2, MeshTet1,
                   MeshTet2, MeshHex1, MeshHex2)

tmp = tempfile.mkdtemp()
ok = True


def roundtrip(label, m):
    global ok
    fn = os.path.join(tmp, 'mesh.vtu')
    try:
        m.save(fn, encode_point_data=True)
    except Exception as e:
        print(f"{label:28s} save(encode_point_data=True) raised "
              f"{type(e).__name__}: {e}")
        ok = False
        return
    out = ['point_data']
    m2 = Mesh.load(fn, out=out)
    same = (type(m2) is type(m)
            and np.array_equal(m.p, m2.p)
            and np.array_equal(m.t, m2.t)
            and set(m2.boundaries) == set(m.boundaries)
            and set(m2.subdomains) == set(m.subdomains)
            and all(np.array_equal(np.sort(m.boundaries[k]),
                                   np.sort(m2.boundaries[k]))
                    for k in m.boundaries)
            and all(np.array_equal(np.sort(m.subdomains[k]),
                                   np.sort(m2.subdomains[k]))
                    for k in m.subdomains))
    lens = {k: len(v) for k, v in out[0].items()}
    print(f"{label:28s} saved; round trip identical: {same}; "
          f"{m.p.shape[1]} points, encoded point data lengths {lens}")
    if not same or any(n != m.p.shape[1] for n in lens.values()):
        ok = False


def tagged(m):
    return (m.with_boundaries({'left': lambda x: x[0] == 0})
            .with_subdomains({'lower': lambda x: x[1] < .5}))


print("expected: every supported mesh can be saved with the option and "
      "loads back unchanged\n")
for first, second in ((MeshTri1, MeshTri2), (MeshQuad1, MeshQuad2),
                      (MeshTet1, MeshTet2), (MeshHex1, MeshHex2)):
    m1 = first().refined(1)
    roundtrip(first.__name__, tagged(m1))
    roundtrip(second.__name__, tagged(second.from_mesh(m1)))

# first-order mesh in a valid but unusual state: two points no cell refers to
m1 = MeshTri1().refined(1)
p = np.hstack((m1.p, np.array([[2., 3.], [2., 3.]])))
roundtrip('MeshTri1 + 2 unused points', tagged(MeshTri1(p, m1.t)))

sys.exit(0 if ok else 1)
