"""C14 / hunt2 finding 4

Zero query points: MeshLine1.element_finder returns an empty index array and
probes() a (0, N) matrix, but the finders of all 2-D and 3-D meshes raise
"zero-size array to reduction operation maximum which has no identity".
An empty set of query points is the natural result of masking
(``interp(x[:, mask])`` with nothing selected) and "any number of query
points" includes none.
"""
import sys
import warnings

import numpy as np
from skfem import (Basis, ElementHex1, ElementLineP1, ElementQuad1,
                   ElementTetP1, ElementTriP1, ElementWedge1, MeshHex,
                   MeshLine, MeshQuad, MeshTet, MeshTri)

warnings.filterwarnings('ignore')
failed = False

cases = [(MeshLine().refined(2), ElementLineP1()),
         (MeshTri().refined(2), ElementTriP1()),
         (MeshQuad().refined(2), ElementQuad1()),
         (MeshTet().refined(1), ElementTetP1()),
         (MeshHex().refined(1), ElementHex1()),
         (MeshTri().refined(1) * MeshLine().refined(1), ElementWedge1())]

for m, e in cases:
    basis = Basis(m, e)
    y = np.arange(basis.N, dtype=float)
    x = np.zeros((m.dim(), 5)) + 0.3
    mask = x[0] > 1.                        # selects nothing
    name = type(m).__name__
    try:
        cells = m.element_finder()(*x[:, mask])
        P = basis.probes(x[:, mask])
        vals = basis.interpolator(y)(x[:, mask])
        ok = (len(cells) == 0 and P.shape == (0, basis.N)
              and vals.shape == (0,))
        print("%-11s finder -> %d cells, probes -> %s matrix, interpolator -> "
              "shape %s" % (name, len(cells), P.shape, vals.shape))
        failed |= not ok
    except Exception as exc:
        print("%-11s RAISES %s: %s" % (name, type(exc).__name__, exc))
        failed = True

print("property: holds for any number of query points; demanded here: no "
      "cells, a (0, N) probing matrix, an empty value array")
sys.exit(1 if failed else 0)
