"""Mesh.is_valid() declares every second-order mesh (and every periodic mesh)
invalid: it takes every column of the point array for a vertex and then
complains that the mid-side / interior nodes are "vertices not belonging to
any element".

Exits non-zero on the unmodified library.
"""
import sys
import numpy as np
from skfem.mesh import (MeshTri1, MeshTri2, MeshQuad2, MeshTet2, MeshHex2,
                        MeshTet1, MeshQuad1DG, MeshLine1DG)


def independently_valid(m):
    """The same two questions is_valid() asks, answered with the node
    numbering the library itself uses for the mesh (m.dofs.element_dofs):
    is every point referenced by some cell, and are the referenced points
    pairwise distinct (for meshes with a continuous topology)?"""
    nodes = m.dofs.element_dofs          # all nodes of all cells
    all_used = len(np.setdiff1d(np.arange(m.p.shape[1]),
                                np.unique(nodes))) == 0
    vert_ok = len(np.setdiff1d(np.arange(m.nvertices), np.unique(m.t))) == 0
    pts = np.round(m.p.T, 12)
    distinct = len(np.unique(pts, axis=0)) == m.p.shape[1]
    return all_used and vert_ok, distinct


cases = {
    'MeshTri1() (control)': MeshTri1(),
    'MeshTet1().refined() (control)': MeshTet1().refined(),
    'MeshTri2()': MeshTri2(),
    'MeshTri2.init_circle(2)': MeshTri2.init_circle(2),
    'MeshQuad2().refined(2)': MeshQuad2().refined(2),
    'MeshTet2()': MeshTet2(),
    'MeshTet2.init_ball(1)': MeshTet2.init_ball(1),
    'MeshHex2().refined()': MeshHex2().refined(),
    'MeshTri2.from_mesh(MeshTri1().refined(2))':
        MeshTri2.from_mesh(MeshTri1().refined(2)),
}

bad = 0
for name, m in cases.items():
    used, distinct = independently_valid(m)
    got = m.is_valid()
    try:
        m.is_valid(raise_=True)
        msg = ''
    except ValueError as e:
        msg = ' -> raise_=True: ValueError("{}")'.format(e)
    want = used and distinct
    flag = 'ok ' if got == want else 'BAD'
    if got != want:
        bad += 1
    print('{} {:45s} every point used: {}, points distinct: {}, '
          'is_valid() = {} (expected {}){}'
          .format(flag, name, used, distinct, got, want, msg))

# periodic meshes: informational only (their point array holds one copy of a
# point per cell by design, so the duplicate test can never pass either)
for name, m in {
    'MeshQuad1DG periodic 4x4':
        MeshQuad1DG.init_tensor(np.linspace(0, 1, 5), np.linspace(0, 1, 5),
                                periodic=[0]),
    'MeshLine1DG periodic 4':
        MeshLine1DG.init_tensor(np.linspace(0, 1, 5), periodic=[0]),
}.items():
    print('info {:44s} is_valid() = {}'.format(name, m.is_valid()))

if bad:
    print('\nDEFECT: is_valid() rejects {} valid second-order meshes'
          .format(bad))
    sys.exit(1)
print('\nall fine')
