"""C04-4: the "interior" element returned by Element.condensed() keeps the
DOF location table and the DOF names of the *whole* element: its cell-interior
DOFs are located at the vertices and carry the names of the vertex DOFs.

Property C04: "... the per-cell DOF tables, the per-cell numbering and the DOF
location table agree with each other ..." for all elements.
"""
import sys

import numpy as np

from skfem import (MeshTri, MeshQuad, CellBasis, ElementTriP4, ElementTriMini,
                   ElementQuad2, ElementVector)

failed = False

cases = [
    (MeshTri().refined(1), ElementTriP4()),
    (MeshQuad().refined(1), ElementQuad2()),
    (MeshTri().refined(1), ElementVector(ElementTriMini())),
]

for m, elem in cases:
    ei, eo = elem.condensed()          # interior DOFs / all other DOFs
    full = CellBasis(m, elem)
    bi = CellBasis(m, ei)
    bo = CellBasis(m, eo)
    name = type(elem).__name__
    print("{}: N = {} = {} (interior part) + {} (rest)"
          .format(name, full.N, bi.N, bo.N))

    # DOF k of the interior part is the k'th interior DOF of the full basis
    # (both number them cell by cell): same basis function ...
    ix = full.interior_dofs.flatten('F')
    same = all(
        np.allclose(bi.basis[j][0].value,
                    full.basis[full.Nbfun - bi.Nbfun + j][0].value)
        for j in range(bi.Nbfun)
    ) and np.array_equal(bi.element_dofs,
                         np.searchsorted(ix, full.element_dofs[-bi.Nbfun:]))
    print("  interior part has the basis functions/numbering of the interior "
          "DOFs of the full basis: {}".format(same))

    # ... hence the same location is demanded
    demanded = full.doflocs[:, ix]
    got = bi.doflocs
    bad = int((~np.isclose(got, demanded, equal_nan=True)).any(axis=0).sum())
    print("  locations of the first three DOFs : {}".format(
        got[:, :3].T.tolist()))
    print("  demanded (those of the full basis): {}".format(
        demanded[:, :3].T.tolist()))
    print("  wrong entries in the location table: {} of {}   (demanded: 0)"
          .format(bad, bi.N))

    # ... and the same names
    names_full = sorted(full.get_dofs(elements=[0]).interior.keys())
    names_int = sorted(bi.get_dofs(elements=[0]).interior.keys())
    print("  names of the interior DOFs: {}, demanded {}"
          .format(names_int, names_full))

    if not same or bad > 0 or names_int != names_full:
        failed = True

if failed:
    print("FAIL")
    sys.exit(1)
print("OK")
