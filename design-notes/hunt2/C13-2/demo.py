"""MeshTet1 adaptive refinement aborts (AssertionError) whenever the point
array contains two columns with equal coordinates - e.g. unused trailing
points (mid-side nodes) or the two lips of a crack.  MeshTri1 accepts the
same inputs."""
import math
import sys

import numpy as np
from skfem import MeshTet1, MeshTet2, MeshTri1, MeshTri2


def volumes(m):
    d = m.p.shape[0]
    A = np.transpose(m.p[:, m.t[1:]] - m.p[:, m.t[0]][:, None, :], (2, 0, 1))
    return np.abs(np.linalg.det(A)) / math.factorial(d)


def bnd_measure(m):
    f = m.facets[:, m.boundary_facets()]
    if m.p.shape[0] == 2:
        return np.linalg.norm(m.p[:, f[1]] - m.p[:, f[0]], axis=0).sum()
    a = (m.p[:, f[1]] - m.p[:, f[0]]).T
    b = (m.p[:, f[2]] - m.p[:, f[0]]).T
    return .5 * np.linalg.norm(np.cross(a, b), axis=1).sum()


def attempt(label, m, marked):
    """Return True if refined(marked) gives a conforming refinement."""
    try:
        M = m.refined(marked)
    except Exception as e:  # the property promises a result
        print("  %-34s -> %s raised" % (label, type(e).__name__))
        return False
    used = np.unique(m.t)   # the vertices of the old mesh keep their index
    ok = (M.t.shape[1] > m.t.shape[1]
          and np.array_equal(M.p[:, used], m.p[:, used])
          and abs(volumes(M).sum() - volumes(m).sum()) < 1e-12
          and abs(bnd_measure(M) - bnd_measure(m)) < 1e-12
          and volumes(M).min() > 0)
    print("  %-34s -> %d cells, conforming refinement: %s"
          % (label, M.t.shape[1], ok))
    return ok


fails = 0

print("A. first-order mesh whose point array has unused trailing points "
      "(the mid-side nodes of the quadratic mesh)")
q3 = MeshTet2()
tet = MeshTet1(q3.p, q3.t)          # 8 vertices + 18 points not used by t
q2 = MeshTri2()
tri = MeshTri1(q2.p, q2.t)          # 4 vertices + 5 points not used by t
print("  tet: %d points, %d vertices; tri: %d points, %d vertices"
      % (tet.p.shape[1], tet.nvertices, tri.p.shape[1], tri.nvertices))
attempt("MeshTri1.refined([0])   (sibling)", tri, [0])
attempt("MeshTet1.refined()      (uniform)", tet, 1)
fails += not attempt("MeshTet1.refined([0])", tet, [0])

print("B. two blocks in contact whose common vertices are not merged "
      "(a crack / slit along x = 1)")
a, b = MeshTet1(), MeshTet1().translated((1., 0., 0.))
tet = MeshTet1(np.hstack((a.p, b.p)), np.hstack((a.t, b.t + a.p.shape[1])))
a, b = MeshTri1(), MeshTri1().translated((1., 0.))
tri = MeshTri1(np.hstack((a.p, b.p)), np.hstack((a.t, b.t + a.p.shape[1])))
attempt("MeshTri1.refined([0])   (sibling)", tri, [0])
fails += not attempt("MeshTet1.refined([0])", tet, [0])

print("C. quadratic mesh with one unused point in the middle of the point "
      "array (as in files written by mesh generators) and a vertex at 0")
a = MeshTet1()
p = np.hstack((a.p[:, :4], np.array([[.3], [.2], [.1]]), a.p[:, 4:]))
t = a.t + (a.t >= 4)
tet2 = MeshTet2.from_mesh(MeshTet1(p, t))
a = MeshTri1()
p = np.hstack((a.p[:, :2], np.array([[.3], [.2]]), a.p[:, 2:]))
t = a.t + (a.t >= 2)
tri2 = MeshTri2.from_mesh(MeshTri1(p, t))
attempt("MeshTri2.refined([0])   (sibling)", tri2, [0])
attempt("MeshTet2.refined()      (uniform)", tet2, 1)
fails += not attempt("MeshTet2.refined([0])", tet2, [0])

print()
print("property C13: adaptive refinement returns a conforming refinement for"
      " ANY marked set of ANY straight-sided tetrahedral mesh")
print("failures:", fails)
sys.exit(1 if fails else 0)
