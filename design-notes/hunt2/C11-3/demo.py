"""Uniform refinement of MeshTri / MeshQuad carries named boundaries over to
the refined mesh, but an OrientedBoundary comes out as a plain index array:
the orientation is dropped without a word, and FacetBasis then takes the
trace from whichever cell happens to be f2t[0].

Exits non-zero on the unmodified library.
"""
import sys
import numpy as np
from skfem import (MeshTri, MeshQuad, FacetBasis, ElementTriP0, ElementQuad0)
from skfem.generic_utils import OrientedBoundary

bad = 0
for name, m0, elem in (
        ('MeshTri().refined(2)', MeshTri().refined(2), ElementTriP0()),
        ('MeshTri.init_sqsymmetric().refined()',
         MeshTri.init_sqsymmetric().refined(), ElementTriP0()),
        ('MeshQuad().refined(2)', MeshQuad().refined(2), ElementQuad0()),
):
    m = m0.with_subdomains({'L': lambda x: x[0] < .5,
                            'R': lambda x: x[0] > .5})
    bnd = {}
    for s in ('L', 'R'):
        ob = m.facets_around(s)                    # traces inside s
        interface = m.f2t[1, ob] != -1
        bnd[s] = OrientedBoundary(np.asarray(ob)[interface],
                                  ob.ori[interface])
    m = m.with_boundaries(bnd)
    r = m.refined()

    for s, inside in (('L', lambda x: x < .5), ('R', lambda x: x > .5)):
        fb = FacetBasis(m, elem, facets=s)
        xin = m.p[0, m.t[:, fb.tind]].mean(axis=0)
        print('{:37s} around {}: before: {:16s} {} facets, trace cell in {}:'
              ' {}, n.e_x: {}'
              .format(name, s, type(m.boundaries[s]).__name__,
                      len(m.boundaries[s]), s, int(inside(xin).sum()),
                      np.unique(np.round(fb.normals.value[0], 12)).tolist()))
        g2 = r.boundaries[s]
        fb = FacetBasis(r, elem, facets=s)
        xin = r.p[0, r.t[:, fb.tind]].mean(axis=0)
        nin = int(inside(xin).sum())
        print('{:37s}           after : {:16s} {} facets, trace cell in {}:'
              ' {}, n.e_x: {}'
              .format('', type(g2).__name__, len(g2), s, nin,
                      np.unique(np.round(fb.normals.value[0], 12)).tolist()))
        if nin != len(g2):
            bad += 1

if bad:
    print('\nDEFECT: expected the refined boundaries to stay oriented - all '
          'traces taken inside the subdomain, one normal direction')
    sys.exit(1)
print('\nall fine')
