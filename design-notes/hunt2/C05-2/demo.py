"""C05 (hunt 2) finding 2: enforce(..., diag=d) with d != 1 changes the solution.

enforce sets the constrained rows to d * e_i but leaves the right-hand side
at x_i, so the solution of the returned system is x_i / d on the constrained
indices (and, through the coupling, wrong everywhere else).
"""
import sys

import numpy as np

from skfem import (MeshTri, Basis, ElementTriP1, BilinearForm, condense,
                   enforce, solve)
from skfem.helpers import dot, grad


@BilinearForm
def laplace(u, v, _):
    return dot(grad(u), grad(v))


mesh = MeshTri().refined(3)
basis = Basis(mesh, ElementTriP1())
A = laplace.assemble(basis)
b = basis.zeros()
D = basis.get_dofs()
Dix = D.flatten()

# prescribed values: the harmonic function x^2 - y^2 on the boundary
x = basis.zeros()
x[Dix] = basis.doflocs[0, Dix] ** 2 - basis.doflocs[1, Dix] ** 2

ref = solve(*condense(A, b, x=x, D=D))

failed = False
for diag in (1., 2., 1e3, A.diagonal().max()):
    Ae, be = enforce(A, b, x=x, D=D, diag=diag)
    u = solve(Ae, be)
    errD = np.abs(u[Dix] - x[Dix]).max()
    err = np.abs(u - ref).max()
    print("diag = {:<8g}: rows D are diag*e_i: {},  rhs on D is {}"
          .format(diag,
                  np.array_equal(Ae[Dix].toarray(),
                                 diag * np.eye(basis.N)[Dix]),
                  "x" if np.array_equal(be[Dix], x[Dix]) else
                  "diag*x" if np.allclose(be[Dix], diag * x[Dix]) else "?"))
    print("    max |u - x| on the constrained DOFs : {:.3e}   (property: 0)"
          .format(errD))
    print("    max |u - u_condense| everywhere     : {:.3e}   (property: 0)"
          .format(err))
    if errD > 1e-10 or err > 1e-10:
        print("    --> VIOLATION: the solution on D is x / diag:",
              np.allclose(u[Dix], x[Dix] / diag))
        failed = True

sys.exit(1 if failed else 0)
