"""C01 hunt 2, finding 4.

Form.block(i, j) turns the integrand of a multi-field form into the integrand
of one of its blocks by feeding zero fields to the other components.  The
zero fields are copies of the SELECTED component (`arg[k].zeros()`), so they
have the tensor order of the wrong field as soon as the components differ in
kind (vector velocity / scalar pressure).  For the library's own test form
(Stokes, tests/test_basis.py) only the block (1, 1) that the test happens to
use can be assembled; the three sibling blocks raise.
"""
import sys
import numpy as np
from skfem import (MeshTri, ElementTriP1, ElementTriP2, ElementVector, Basis,
                   BilinearForm, LinearForm)
from skfem.helpers import grad, ddot, div, dot

m = MeshTri.init_sqsymmetric().refined(1)
e = ElementVector(ElementTriP2()) * ElementTriP1()
basis = Basis(m, e)


@BilinearForm
def stokes(u, p, v, q, w):
    # deliberately non-symmetric so that a swapped block would be noticed
    return (ddot(grad(u), grad(v)) - div(u) * q - 2. * div(v) * p
            - 1e-2 * p * q) * (1. + w.x[0])


@LinearForm
def load(v, q, w):
    return dot(w.x, v) + 3. * q * w.x[1]


S = stokes.assemble(basis)
f = load.assemble(basis)
ix = basis.split_indices()
bases = basis.split_bases()        # [vector P2 basis, P1 basis]
rng = np.random.default_rng(0)

fail = False
names = {0: 'velocity', 1: 'pressure'}
for i in [0, 1]:          # trial component
    for j in [0, 1]:      # test component
        ref = S[ix[j]][:, ix[i]]
        u = rng.random(bases[i].N)
        v = rng.random(bases[j].N)
        label = "block(trial={}, test={})".format(names[i], names[j])
        try:
            B = stokes.block(i, j).assemble(bases[i], bases[j])
            err = abs(B - ref).max()
            print("{}: v^T B u = {:.10f}, expected {:.10f}, max |B - S_ji| = "
                  "{:.1e}".format(label, v @ B @ u, v @ ref @ u, err))
            fail |= err > 1e-10
        except Exception as exc:
            print("{}: raised {}: {}".format(label, type(exc).__name__,
                                             str(exc)[:90]))
            print("{}  expected v^T S_ji u = {:.10f}".format(
                " " * len(label), v @ ref @ u))
            fail = True

for j in [0, 1]:
    label = "load.block(test={})".format(names[j])
    try:
        b = load.block(j).assemble(bases[j])
        err = abs(b - f[ix[j]]).max()
        print("{}: max |b - f_j| = {:.1e}".format(label, err))
        fail |= err > 1e-10
    except Exception as exc:
        print("{}: raised {}: {}".format(label, type(exc).__name__,
                                         str(exc)[:90]))
        fail = True

print("DEFECT PRESENT" if fail else "all consistent")
sys.exit(1 if fail else 0)
