"""C01 hunt 2, finding 1.

`basis0 @ basis1` (CompositeBasis(..., equal_dofnum=True)) is the library's
way of putting the two traces of ONE finite element function on an interior
facet into one form (u0 = trace from side 0, u1 = trace from side 1, both
driven by the same coefficient vector of length N).  The bilinear form
assembles fine, but the interpolation of a coefficient vector - and hence every
coefficient-vector parameter of BilinearForm / LinearForm / Functional - slices
the vector as if the DOFs of the two bases were concatenated.
"""
import sys
import numpy as np
from skfem import (MeshTri, ElementTriP1, ElementTriDG, InteriorFacetBasis,
                   BilinearForm, LinearForm, Functional, asm)

m = MeshTri.init_sqsymmetric().refined(1)
e = ElementTriDG(ElementTriP1())
fb0 = InteriorFacetBasis(m, e, side=0)
fb1 = InteriorFacetBasis(m, e, side=1)
cb = fb0 @ fb1                      # one DOF vector, two traces
rng = np.random.default_rng(0)
u = rng.random(cb.N)
v = rng.random(cb.N)
z = rng.random(cb.N)
print("cb.N =", cb.N, " fb0.N =", fb0.N, " fb1.N =", fb1.N)

fail = False

# --- (0) sanity: the matrix itself is right ------------------------------
@BilinearForm
def a(u0, u1, v0, v1, w):
    return (u0 - u1) * (v0 - 2. * v1) * (1. + w.x[0])

A = a.assemble(cb)
U0, U1 = fb0.interpolate(u), fb1.interpolate(u)
V0, V1 = fb0.interpolate(v), fb1.interpolate(v)
x = fb0.global_coordinates()
ref = ((U0 - U1) * (V0 - 2. * V1) * (1. + x[0]) * fb0.dx).sum()
print("v^T A u = {:.12f}   a(u_h, v_h) = {:.12f}".format(v @ A @ u, ref))
assert abs(v @ A @ u - ref) < 1e-10

# --- (1) interpolation of a coefficient vector ---------------------------
print("\n(1) cb.interpolate(z): the property demands the pair "
      "(fb0.interpolate(z), fb1.interpolate(z))")
try:
    Z = cb.interpolate(z)
    ok = (len(Z) == 2
          and np.allclose(Z[0], fb0.interpolate(z))
          and np.allclose(Z[1], fb1.interpolate(z)))
    print("    returned", len(Z), "fields, correct:", ok)
    fail |= not ok
except Exception as exc:
    print("    raised", repr(exc))
    fail = True

# --- (2) the same vector as an extra parameter of the three form types ---
Z0, Z1 = fb0.interpolate(z), fb1.interpolate(z)


@Functional
def J(w):
    return (w.z[0] - w.z[1]) ** 2 * (1. + w.x[1])


@LinearForm
def l(v0, v1, w):
    return (w.z[0] - w.z[1]) * (v0 - v1)


@BilinearForm
def az(u0, u1, v0, v1, w):
    return (w.z[0] + w.z[1]) * (u0 - u1) * (v0 - v1)


expected = {
    'Functional': ((Z0 - Z1) ** 2 * (1. + x[1]) * fb0.dx).sum(),
    'LinearForm': ((Z0 - Z1) * (V0 - V1) * fb0.dx).sum(),
    'BilinearForm': ((Z0 + Z1) * (U0 - U1) * (V0 - V1) * fb0.dx).sum(),
}
for name, fun in [('Functional', lambda **kw: J.assemble(cb, **kw)),
                  ('LinearForm', lambda **kw: l.assemble(cb, **kw) @ v),
                  ('BilinearForm', lambda **kw: v @ az.assemble(cb, **kw) @ u)]:
    # pre-interpolated fields work ...
    pre = fun(z=(Z0, Z1))
    print("\n(2) {:12s} expected {:.12f}".format(name, expected[name]))
    print("    with z=(Z0, Z1) pre-interpolated : {:.12f}".format(pre))
    assert abs(pre - expected[name]) < 1e-10
    # ... the coefficient vector must give the same number
    try:
        got = fun(z=z)
        print("    with z=coefficient vector        : {:.12f}".format(got))
        fail |= abs(got - expected[name]) > 1e-10
    except Exception as exc:
        print("    with z=coefficient vector        : raised", repr(exc))
        fail = True

# --- (3) split() : silent ------------------------------------------------
print("\n(3) cb.split(z): both traces belong to the SAME vector z, so the "
      "property demands [(z, fb0), (z, fb1)]")
parts = cb.split(z)
for k, (zk, bk) in enumerate(parts):
    print("    part", k, ": vector of length", len(zk),
          "for a basis with N =", bk.N)
    if len(zk) != bk.N or not np.allclose(zk, z):
        fail = True

print("\nDEFECT PRESENT" if fail else "\nall consistent")
sys.exit(1 if fail else 0)
