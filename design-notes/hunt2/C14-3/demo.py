"""C14 / hunt2 finding 3

CellBasis.point_source on a vector- or tensor-valued basis silently keeps only
the first component: it returns row 0 of the probing matrix, whose rows are
ordered component-major.  The entries that belong to the other components are
identically zero, so ``point_source(x) @ y`` is u_0(x) and u_1(x), ... are lost
without any warning.
"""
import sys
import warnings

import numpy as np
from skfem import (Basis, ElementTriHHJ1, ElementTriP1, ElementTriP2,
                   ElementTriRT1, ElementVector, MeshTri)

warnings.filterwarnings('ignore')
rng = np.random.default_rng(0)
failed = False

m = MeshTri().refined(2)
x0 = np.array([0.3, 0.2])

for e in [ElementTriP2(),                       # control, scalar
          ElementVector(ElementTriP1()),
          ElementTriRT1(),
          ElementTriHHJ1()]:
    basis = Basis(m, e)
    y = rng.standard_normal(basis.N)
    u = basis.interpolator(y)(x0[:, None])[..., 0]   # u(x0), all components
    label = type(e).__name__ + ("(%s)" % type(e.elem).__name__
                                if isinstance(e, ElementVector) else "")
    try:
        b = basis.point_source(x0)
    except (NotImplementedError, ValueError) as exc:
        # refusing is acceptable, silently dropping components is not
        print(label, ": point_source refuses:", exc)
        continue
    got = np.atleast_2d(b) @ y
    print("%s: u(x0) = %s" % (label, np.array2string(u.ravel(), precision=4)))
    print("    point_source(x0) has shape %s; point_source(x0) @ y = %s"
          % (b.shape, np.array2string(got, precision=4)))
    if got.size != u.size or not np.allclose(got.ravel(), u.ravel()):
        print("    -> only %d of %d components are represented"
              % (got.size, u.size), "(silently)")
        failed = True

# consequence for a vector basis: no unit load can be put on component 2
basis = Basis(m, ElementVector(ElementTriP1()))
b = basis.point_source(x0)
if b.ndim == 1:
    comp2 = basis.nodal_dofs[1]
    print("vector P1: largest |entry| of point_source on the DOFs of component"
          " 2:", np.abs(b[comp2]).max())

print("property: the point-source vector evaluates the discrete function at "
      "the point for scalar, vector- and tensor-valued elements")
sys.exit(1 if failed else 0)
