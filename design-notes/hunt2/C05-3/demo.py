"""C05 (hunt 2) finding 3: penalize() with integer prescribed values.

The right-hand side penalize returns has the dtype result_type(b, x).  When
the prescribed values are integers and b is omitted ("zero if x is given") or
integer as well, that dtype is an integer one, and the penalised entries
x_i / epsilon (floating point numbers of size 1e10 * |A_ii| * x_i) are cast
into it: they overflow for stiff matrices and are truncated to 0 for matrices
with small entries.
"""
import sys
import warnings

import numpy as np

from skfem import (MeshTri, Basis, ElementTriP1, BilinearForm, condense,
                   enforce, penalize, solve)
from skfem.helpers import dot, grad

warnings.simplefilter('ignore')


@BilinearForm
def laplace(u, v, _):
    return dot(grad(u), grad(v))


mesh = MeshTri().refined(3)
basis = Basis(mesh, ElementTriP1())
L = laplace.assemble(basis)
left = basis.get_dofs(lambda x: x[0] == 0.).flatten()
right = basis.get_dofs(lambda x: x[0] == 1.).flatten()
D = np.concatenate((left, right))

# u = 0 on the left, u = 3 on the right, written the obvious way
x = np.zeros(basis.N, dtype=int)
x[right] = 3
print("dtype of the prescribed values:", x.dtype)
exact = 3. * basis.doflocs[0]          # the solution is u = 3 x

failed = False
# Young's modulus in Pa, unit scaling, a conductance in SI units
for scale in (2e11, 1., 1e-12):
    A = (scale * L).tocsr()
    print("=" * 70)
    print("matrix entries of size {:g}".format(scale))
    for f in (condense, enforce, penalize):
        out = f(A, x=x, D=D)           # b omitted: "zero if x is given"
        u = solve(*out)
        err = np.abs(u - exact).max()
        print("  {:9s}: rhs dtype {},  max |u - 3x| = {:.3e}"
              .format(f.__name__, out[1].dtype, err))
        if f is penalize:
            print("             rhs on the right edge:", out[1][right][:3],
                  " expected x/epsilon = {:.3g}"
                  .format(3 * 1e10 * np.abs(A.diagonal()[D]).max()))
        if err > 1e-6:
            print("             --> VIOLATION (property: penalize agrees "
                  "with condense up to the penalty parameter)")
            failed = True

# the same with an explicit integer load vector
print("=" * 70)
b = np.zeros(basis.N, dtype=int)
A = (2e11 * L).tocsr()
u = solve(*penalize(A, b, x=x, D=D))
print("integer b, integer x, stiff A: max |u - 3x| = {:.3e}"
      .format(np.abs(u - exact).max()))
if np.abs(u - exact).max() > 1e-6:
    failed = True

sys.exit(1 if failed else 0)
