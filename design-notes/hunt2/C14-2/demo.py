"""C14 / hunt2 finding 2

probes / interpolator / point_source fail for ElementVector(elem, dim=k) when
the number of components k differs from the dimension of the mesh (e.g. a
3-component field on a 2-D mesh).  Assembly and Basis.interpolate handle these
elements; only the point evaluation breaks, because
CellBasis._base_tensor_order builds its dummy reference point with
``self.elem.dim`` rows - for ElementVector that attribute is the number of
components, not the spatial dimension.
"""
import sys
import warnings

import numpy as np
from skfem import (Basis, BilinearForm, ElementQuad1, ElementTetP1,
                   ElementTriP1, ElementTriP2, ElementVector, MeshQuad,
                   MeshTet, MeshTri, asm)
from skfem.helpers import dot

warnings.filterwarnings('ignore')
rng = np.random.default_rng(0)
failed = False


@BilinearForm
def mass(u, v, _):
    return dot(u, v)


def refpoints(m, n):
    if m.refdom.__name__ in ('RefTri', 'RefTet'):
        return rng.dirichlet(np.ones(m.dim() + 1), size=n).T[1:]
    return rng.uniform(0, 1, (m.dim(), n))


cases = [
    (MeshTri().refined(2), ElementVector(ElementTriP2(), 3)),
    (MeshTri().refined(2), ElementVector(ElementTriP1(), 1)),
    (MeshQuad().refined(2), ElementVector(ElementQuad1(), 3)),
    (MeshTet().refined(1), ElementVector(ElementTetP1(), 2)),
    # control: number of components == dimension of the mesh
    (MeshTri().refined(2), ElementVector(ElementTriP2())),
]
for m, e in cases:
    label = "%s, ElementVector(%s, dim=%d)" % (type(m).__name__,
                                               type(e.elem).__name__, e.dim)
    X = refpoints(m, 3)
    basis = Basis(m, e, quadrature=(X, np.ones(3)))
    M = asm(mass, Basis(m, e))           # the element is usable in assembly
    y = rng.standard_normal(basis.N)
    ref = basis.interpolate(y).value     # (k, ncells, 3): expansion of each cell
    x = basis.global_coordinates().value  # at interior points of that cell
    print(label, "| mass matrix", M.shape, "| interpolate ->", ref.shape)
    try:
        got = basis.interpolator(y)(x)
        err = np.abs(got - ref).max()
        print("    interpolator at the same points: max deviation %.1e" % err)
        if err > 1e-10:
            failed = True
        b = basis.point_source(x[:, 0, 0])
        print("    point_source: vector of length", b.shape)
    except Exception as exc:
        print("    interpolator at the same points RAISES %s: %s"
              % (type(exc).__name__, exc))
        failed = True

print("property: probes/interpolator evaluate vector-valued elements exactly "
      "(= Basis.interpolate at the same points)")
sys.exit(1 if failed else 0)
