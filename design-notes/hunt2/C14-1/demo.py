"""C14 / hunt2 finding 1

Wedge and hexahedral meshes: the element finder splits every cell into
tetrahedra (MeshWedge1.to_meshtet / MeshHex1.to_meshtet) and returns the cell
of the tetrahedron that contains the query point.  The flat triangles of the
tetrahedra do not coincide with a bilinear (non-planar) quadrilateral face, so
points next to such a face are attributed to the NEIGHBOURING cell.

* hexahedra: the Newton inverse clips to [0, 1]^3, never converges and the
  probe raises "Newton iteration didn't converge" for a point of the domain;
* wedges: the reference cell is {x, y >= 0, x + y <= 1} x [0, 1] but the clip
  box is [0, 1]^3 - across the face x + y = 1 nothing is clipped, Newton
  converges to a local point OUTSIDE the reference wedge and probes /
  interpolator SILENTLY return the extrapolated expansion of the wrong cell.

The discrete functions below are continuous (ElementWedge1 / ElementHex1 are
H1-conforming), so the value at a point of the domain is unique and equals the
local expansion of the cell that contains it.
"""
import sys
import warnings

import numpy as np
from skfem import (Basis, ElementHex1, ElementWedge1, MeshHex, MeshLine,
                   MeshTri, MeshWedge1)

warnings.filterwarnings('ignore')
failed = False

# ---------------------------------------------------------------- part A
# two wedges A, B that fill the unit cube, both positively oriented; the
# shared face is the quadrilateral (1, 2, 5, 6); vertex 6 is moved a little so
# that this face becomes a (valid) bilinear patch instead of a plane
p = np.array([[0., 0., 0.],
              [1., 0., 0.],
              [0., 1., 0.],
              [1., 1., 0.],
              [0., 0., 1.],
              [1., 0., 1.],
              [0., 1., 1.],
              [1., 1., 1.]]).T
p[:, 6] -= [0.1, 0.1, 0.]
t = np.array([[0, 1, 2, 4, 5, 6],      # A, face x + y = 1 is shared
              [1, 3, 2, 5, 7, 6]]).T   # B, face x = 0 is shared
m = MeshWedge1(p, t)
assert (m.t == t).all()
mapping = m.mapping()
corners = MeshWedge1.init_refdom().p
print("A: two wedges; Jacobian determinant at the corners lies in [%.2f, %.2f]"
      " (valid, positively oriented cells)"
      % (mapping.detDF(corners).min(), mapping.detDF(corners).max()))

elem = ElementWedge1()
basis = Basis(m, elem)
y = np.array([0., 1., 0., 0., 3., 0., -2., 0.5])   # nodal values

# a point of cell B (local point Xb strictly inside the reference wedge)
Xb = np.array([[0.01], [0.25], [0.75]])
x = mapping.F(Xb, tind=np.array([1]))[:, 0, :]       # global point, (3, 1)
expected = sum(y[t[i, 1]] * elem.lbasis(Xb, i)[0] for i in range(6))[0]

cell = m.element_finder()(*x)[0]
Xloc = mapping.invF(x[:, :, None], tind=np.array([cell])).ravel()
got = basis.interpolator(y)(x)[0]
print("   query point x =", x.ravel(), "= F_B(%s), i.e. a point of cell 1" % Xb.ravel())
print("   element_finder returns cell", cell,
      "; local point there =", Xloc, "; x+y = %.4f" % (Xloc[0] + Xloc[1]),
      "(> 1: outside the reference wedge)" if Xloc[0] + Xloc[1] > 1 + 1e-9
      else "")
print("   interpolator(y)(x) =", got)
print("   demanded (expansion of the containing cell 1) =", expected)
if cell != 1 or abs(got - expected) > 1e-10:
    print("   -> WRONG (silently)")
    failed = True

# ---------------------------------------------------------------- part B
# mildly perturbed (interior vertices only) wedge and hex meshes, many points


def valid(m, corners):
    # the Jacobian determinant keeps its sign in every cell
    d = m.mapping().detDF(corners)
    return (np.sign(d) == np.sign(d[:, :1])).all() and (np.abs(d) > 0).all()


def census(m, elem, X, label):
    global failed
    basis = Basis(m, elem)
    rng = np.random.default_rng(0)
    y = rng.standard_normal(basis.N)
    xg = m.mapping().F(X)                      # (3, ncells, npts)
    interp = basis.interpolator(y)
    silent = loud = 0
    worst = 0.
    for k in range(m.nelements):
        exp = sum(y[basis.element_dofs[i, k]] * elem.lbasis(X, i)[0]
                  for i in range(basis.Nbfun))
        for j in range(X.shape[1]):
            try:
                got = interp(xg[:, k, j:j + 1])[0]
            except Exception:
                loud += 1
                continue
            if abs(got - exp[j]) > 1e-8:
                silent += 1
                worst = max(worst, abs(got - exp[j]))
    total = m.nelements * X.shape[1]
    print("B: %s: %d interior query points: %d silently wrong (max error "
          "%.3f, nodal values are O(1)), %d raised" % (label, total, silent,
                                                       worst, loud))
    if silent + loud > 0:
        failed = True


rng = np.random.default_rng(3)
n = 40
lam = rng.dirichlet(np.ones(3), size=n).T
Xw = np.vstack((lam[1:], rng.uniform(0, 1, n)))      # inside reference wedge
Xh = rng.uniform(0, 1, (3, n))                       # inside reference cube

m0 = MeshTri().refined(2) * MeshLine().refined(2)
p = m0.p.copy()
I = m0.interior_nodes()
p[:, I] += 0.04 * rng.uniform(-1, 1, (3, len(I)))    # h = 0.25
mw = MeshWedge1(p, m0.t)
assert valid(mw, corners)
census(mw, ElementWedge1(), Xw, "perturbed wedge mesh")

m0 = MeshHex().refined(2)
p = m0.p.copy()
I = m0.interior_nodes()
p[:, I] += 0.04 * rng.uniform(-1, 1, (3, len(I)))
mh = MeshHex(p, m0.t)
assert valid(mh, MeshHex.init_refdom().p)
census(mh, ElementHex1(), Xh, "perturbed hex mesh")

print("property: every point of the domain is located in a cell that contains "
      "it and probes evaluate that cell's expansion")
sys.exit(1 if failed else 0)
