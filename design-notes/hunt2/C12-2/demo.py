"""C12 / a named boundary that is empty makes refined() raise IndexError once
the empty index set is stored with NumPy's default (float) dtype -- which is
what the library itself does in MeshQuad1.to_meshtri().

Property: uniform refinement works for all tag sets (arbitrary facet / cell
subsets -- the empty subset is one of them), also after other mesh operations;
the names afterwards cover the same point sets as before.
"""
import sys
import numpy as np
from skfem import MeshQuad, MeshTri, MeshLine

failures = 0


def attempt(label, mesh, expect_b=None, expect_s=None):
    global failures
    try:
        M = mesh.refined()
    except Exception as e:
        print(f"{label}: refined() raised {type(e).__name__}: {e}")
        failures += 1
        return
    ok = True
    for name, n in (expect_b or {}).items():
        ok &= len(M.boundaries[name]) == n
    for name, n in (expect_s or {}).items():
        ok &= len(M.subdomains[name]) == n
    print(f"{label}: ok={ok}",
          None if M.boundaries is None
          else {k: len(v) for k, v in M.boundaries.items()},
          None if M.subdomains is None
          else {k: len(v) for k, v in M.subdomains.items()})
    failures += not ok


# 1. library-only path: restrict -> to_meshtri -> refined
m = (MeshQuad.init_tensor(np.linspace(0, 1, 5), np.linspace(0, 1, 3))
     .with_boundaries({'left': lambda x: x[0] == 0.,
                       'right': lambda x: x[0] == 1.}))
half = m.restrict(m.elements_satisfying(lambda x: x[0] > .5))
print("after restrict :", {k: (v.dtype, len(v))
                           for k, v in half.boundaries.items()})
attempt("quad, restricted            ", half,
        expect_b={'left': 0, 'right': 4})
tri = half.to_meshtri()
print("after to_meshtri:", {k: (v.dtype, len(v))
                            for k, v in tri.boundaries.items()})
print("property demands: refined() succeeds, 'left' stays empty, "
      "'right' has 4 facets")
attempt("tri, restricted + to_meshtri", tri,
        expect_b={'left': 0, 'right': 4})

# 2. the same empty set given directly
attempt("MeshTri  boundary np.array([])",
        MeshTri().with_boundaries({'none': np.array([])}),
        expect_b={'none': 0})
attempt("MeshQuad boundary np.array([])",
        MeshQuad().with_boundaries({'none': np.array([])}),
        expect_b={'none': 0})
attempt("MeshQuad subdomain np.array([])",
        MeshQuad().with_subdomains({'none': np.array([])}),
        expect_s={'none': 0})
# sibling that copes
attempt("MeshLine subdomain np.array([])",
        MeshLine().with_subdomains({'none': np.array([])}),
        expect_s={'none': 0})

if failures:
    print(f"FAIL: {failures} admissible inputs could not be refined")
    sys.exit(1)
print("PASS")
