"""C04-2: the DOF location table of ElementTriN3 lists the three DOFs of the
third facet in the wrong order.

Property C04: "... the per-cell numbering and the DOF location table agree
with each other and with the mesh connectivity".

The three facet DOFs of the third-order Nedelec element are point values of
the tangential component at the points 1/4, 1/2, 3/4 of the facet.  For every
(cell, local facet DOF) pair we find the point where the *global basis
function* really has its unit tangential value and compare it with
``basis.doflocs`` of the global DOF number that ``basis.element_dofs`` assigns
to that local DOF.
"""
import sys

import numpy as np

from skfem import MeshTri, CellBasis, ElementTriN3

FACETS = [[0, 1], [1, 2], [0, 2]]        # RefTri.facets
VERTS = np.array([[0., 0.], [1., 0.], [0., 1.]])
CAND = np.array([.25, .5, .75])


def true_locations_vs_table(m):
    e = ElementTriN3()
    basis = CellBasis(m, e)
    pairs = 0
    wrong = []
    for f in range(3):
        a, c = VERTS[FACETS[f][0]], VERTS[FACETS[f][1]]
        Xl = a[:, None] + (c - a)[:, None] * CAND[None, :]   # 3 pts on facet
        xg = basis.mapping.F(Xl)                             # (2, nel, 3)
        v0, v1 = m.t[FACETS[f][0]], m.t[FACETS[f][1]]
        tan = m.p[:, v1] - m.p[:, v0]                        # (2, nel)
        for k in range(3):
            i = 3 * f + k                                    # local DOF
            phi = e.gbasis(basis.mapping, Xl, i)[0].value    # (2, nel, 3)
            tcomp = np.einsum('ie,iep->ep', tan, phi)
            for cell in range(m.nelements):
                nz = np.nonzero(np.abs(tcomp[cell]) > 1e-8)[0]
                assert len(nz) == 1     # a point-value DOF: exactly one
                pairs += 1
                g = basis.element_dofs[i, cell]
                true = xg[:, cell, nz[0]]
                table = basis.doflocs[:, g]
                if np.abs(true - table).max() > 1e-10:
                    wrong.append((cell, i, int(g), true, table))
    return basis, pairs, wrong


# 1. one cell only: the reference triangle
m1 = MeshTri.init_refdom()
_, pairs1, wrong1 = true_locations_vs_table(m1)
print("single reference triangle:")
print("  (cell, local DOF) pairs checked: {}".format(pairs1))
for cell, i, g, true, table in wrong1:
    print("  local DOF {} = global DOF {}: basis function has its unit "
          "tangential value at {}, basis.doflocs says {}"
          .format(i, g, true, table))

# 2. a small mesh: the table also contradicts the neighbouring cell
m2 = MeshTri.init_sqsymmetric().refined(1)
basis, pairs2, wrong2 = true_locations_vs_table(m2)
print("MeshTri.init_sqsymmetric().refined(1):")
print("  (cell, local DOF) pairs checked: {}".format(pairs2))
print("  pairs where basis.doflocs is not the true location: {}"
      .format(len(wrong2)))

# the same thing seen without evaluating any basis function: two cells that
# share a facet DOF compute two different locations for it
loc = basis.mapping.F(ElementTriN3().doflocs.T)              # (2, nel, 15)
disagree = 0
for j in range(9):
    d = np.abs(loc[:, :, j] - basis.doflocs[:, basis.element_dofs[j]]).max(0)
    disagree += int((d > 1e-10).sum())
print("  (cell, local facet DOF) pairs whose own mapped location differs "
      "from the table: {}".format(disagree))

print("property demands: 0 wrong entries (the location table agrees with "
      "the per-cell numbering)")

if len(wrong1) + len(wrong2) + disagree > 0:
    print("FAIL")
    sys.exit(1)
print("OK")
