"""C07-4: equivalent ways of naming the same index set are rejected.

get_dofs accepts an index array, and (per the comments in
Mesh.normalize_facets/normalize_elements) a list of indices "must have the
same behaviour".  It raises instead when
  * the indices in the list/tuple/set are NumPy integers (what one gets from
    iterating over mesh.boundary_facets(), mesh.boundaries[...], np.nonzero ...)
    or a single NumPy integer is given,
  * vertices are named by Python ints or lists of ints at all,
  * the collection is empty (the empty selection)."""
import sys
import numpy as np
from skfem import MeshTri, Basis, ElementTriP2

m = MeshTri().refined(2).with_boundaries({'left': lambda x: x[0] == 0.})
basis = Basis(m, ElementTriP2())
F = m.boundaries['left']              # int32 array of facet indices
T = m.elements_satisfying(lambda x: x[0] < .3)
V = m.nodes_satisfying(lambda x: x[0] == 0.)
empty = np.array([], dtype=np.int32)

cases = [
    # label, equivalent selection, reference (index array) selection
    ("facets=[int, ...]            ", dict(facets=[int(f) for f in F]), dict(facets=F)),
    ("facets=list(array)           ", dict(facets=list(F)), dict(facets=F)),
    ("facets=[f for f in tag if ..]", dict(facets=[f for f in F if f % 2]), dict(facets=F[F % 2 == 1])),
    ("facets=set(array)            ", dict(facets=set(F)), dict(facets=F)),
    ("facets=F[0] (numpy integer)  ", dict(facets=F[0]), dict(facets=F[:1])),
    ("facets=int(F[0])             ", dict(facets=int(F[0])), dict(facets=F[:1])),
    ("elements=[int, ...]          ", dict(elements=[int(k) for k in T]), dict(elements=T)),
    ("elements=list(array)         ", dict(elements=list(T)), dict(elements=T)),
    ("elements=T[0] (numpy integer)", dict(elements=T[0]), dict(elements=T[:1])),
    ("nodes=[array]                ", dict(nodes=[V]), dict(nodes=V)),
    ("nodes=[int, ...]             ", dict(nodes=[int(k) for k in V]), dict(nodes=V)),
    ("nodes=list(array)            ", dict(nodes=list(V)), dict(nodes=V)),
    ("nodes=int(V[0])              ", dict(nodes=int(V[0])), dict(nodes=V[:1])),
    ("facets=[]                    ", dict(facets=[]), dict(facets=empty)),
    ("facets=set()                 ", dict(facets=set()), dict(facets=empty)),
    ("elements=[]                  ", dict(elements=[]), dict(elements=empty)),
    ("nodes=[]                     ", dict(nodes=[]), dict(nodes=empty)),
]

failures = 0
for label, sel, ref in cases:
    expected = basis.get_dofs(**ref).flatten()
    try:
        got = basis.get_dofs(**sel).flatten()
        ok = np.array_equal(got, expected)
        print(f"{label} -> {len(got):2d} DOFs, index array -> "
              f"{len(expected):2d} DOFs  {'ok' if ok else 'WRONG'}")
    except Exception as exc:
        ok = False
        print(f"{label} -> raised {type(exc).__name__}({str(exc)[:45]!r}); "
              f"index array -> {len(expected):2d} DOFs")
    failures += not ok

print(f"\n{failures} of {len(cases)} equivalent selections fail "
      "(the property demands that all forms agree)")
sys.exit(1 if failures else 0)
