"""Joining meshes with ``+`` collapses distinct vertices of meshes that lie far
from the origin.

``m1 + m2`` must be the union of the cells of both meshes in which exactly the
coincident vertices are shared: every input vertex survives, the cells keep
their shape and the measure is the sum of the measures.  ``Mesh.__add__``
identifies vertices whose coordinates agree to 8 decimals *of the largest
absolute coordinate*, so it also merges distinct vertices as soon as the
distance of the mesh from the origin exceeds about 1e8 cell sizes.
"""
import sys

import numpy as np

from skfem import MeshTri, MeshQuad, MeshTet


def measures(m):
    """Measure of every cell, from the vertex coordinates alone."""
    v = m.p[:, m.t]                      # dim x nodes x cells
    v = v - v[:, :1]                     # avoid cancellation far from 0
    if v.shape[:2] == (2, 3):            # triangles
        a, b = v[:, 1] - v[:, 0], v[:, 2] - v[:, 0]
        return np.abs(a[0] * b[1] - a[1] * b[0]) / 2
    if v.shape[:2] == (2, 4):            # quadrilaterals (shoelace)
        x, y = v
        return np.abs(sum(x[i] * y[(i + 1) % 4] - x[(i + 1) % 4] * y[i]
                          for i in range(4))) / 2
    if v.shape[:2] == (3, 4):            # tetrahedra
        d = (v[:, 1:] - v[:, :1]).transpose(2, 0, 1)
        return np.abs(np.linalg.det(d)) / 6
    raise NotImplementedError


def npoints(*ps):
    """Number of distinct points (exact comparison)."""
    return len(np.unique(np.hstack(ps).T, axis=0))


bad = 0


def report(name, m1, m2):
    global bad
    m = m1 + m2
    want_nv = npoints(m1.p, m2.p)
    want_meas = measures(m1).sum() + measures(m2).sum()
    want_min = min(measures(m1).min(), measures(m2).min())
    got = measures(m)
    ok = (m.p.shape[1] == want_nv
          and npoints(m.p) == want_nv
          and abs(got.sum() - want_meas) < 1e-9 * want_meas
          and got.min() > .999 * want_min)
    print(f"{name}")
    print(f"   vertices          : {m.p.shape[1]:6d}   demanded {want_nv}")
    print(f"   degenerate cells  : {int((got < .5 * want_min).sum()):6d}"
          f"   demanded 0 (of {m.nelements})")
    print(f"   measure           : {got.sum():.6g}   demanded {want_meas:.6g}")
    print(f"   -> {'ok' if ok else 'VIOLATED'}")
    bad += not ok


x = np.linspace(0., 1., 5)

# control: two unit squares side by side at the origin, h = 0.25
report("unit squares at the origin",
       MeshTri.init_tensor(x, x),
       MeshTri.init_tensor(x + 1., x))

# the same two squares moved to x = 1e8 (all coordinates are exact doubles)
report("the same squares translated by (1e8, 0)",
       MeshTri.init_tensor(x, x).translated((1e8, 0.)),
       MeshTri.init_tensor(x + 1., x).translated((1e8, 0.)))

# metric map coordinates (UTM-like easting/northing), 1 cm cells
e, n = 5e5, 6e6
s = np.linspace(0., .1, 11)
report("1 cm quadrilaterals at easting 5e5 m, northing 6e6 m",
       MeshQuad.init_tensor(e + s, n + s),
       MeshQuad.init_tensor(e + .1 + s, n + s))

# two blocks of unit-size hexahedra-split tetrahedra at z = 1e9
t = np.linspace(0., 2., 3)
report("tetrahedral blocks with h = 1 translated by (0, 0, 1e9)",
       MeshTet.init_tensor(t, t, t).translated((0., 0., 1e9)),
       MeshTet.init_tensor(t + 2., t, t).translated((0., 0., 1e9)))

print()
if bad:
    print(f"{bad} joins merged distinct vertices")
    sys.exit(1)
print("all joins share exactly the coincident vertices")
