"""C02 hunt 2, finding 3: the 1-D supermesh of `skfem.supermeshing.intersect`
rounds the vertex coordinates to ten DECIMALS (an absolute 1e-10), so that
the integrals of piecewise polynomial data over the supermesh are wrong for
small segments: relative error 1e-4 for a mesh of [0, 1e-6], 1e-2 for
[0, 1e-8], and the supermesh collapses to one cell for [0, 1e-10].

Property clause: "Whenever the integrand restricted to each cell ... is a
polynomial ... every assembled number equals the exact integral", for "all
straight-sided meshes with rational vertex coordinates (segments, ...)".

Exits 0 iff the coupling matrix  B_ij = int chi2_i chi1_j dx  of the
piecewise constants of two non-matching meshes of [0, L] equals the exact
overlap lengths (relative to L) for every L.
"""
import sys

import numpy as np
from skfem import MeshLine, Basis, ElementLineP0, ElementLineP1, BilinearForm
from skfem.supermeshing import intersect, elementwise_quadrature


@BilinearForm
def mass(u, v, w):
    return u * v


def coupling(L, elem):
    m1 = MeshLine(np.array([0., 1 / 3, 1.]) * L)     # cells (0,1/3), (1/3,1)
    m2 = MeshLine(np.array([0., 1 / 2, 1.]) * L)     # cells (0,1/2), (1/2,1)
    m12, t1, t2 = intersect(m1, m2)
    b1 = Basis(m1, elem, elements=t1,
               quadrature=elementwise_quadrature(m1, m12, t1))
    b2 = Basis(m2, elem, elements=t2,
               quadrature=elementwise_quadrature(m2, m12, t2))
    return mass.assemble(b1, b2).toarray(), m12


# overlap lengths |cell_i of m2  n  cell_j of m1| / L
exact_p0 = np.array([[1 / 3, 1 / 6],
                     [0., 1 / 2]])


def exact_p1_coupling():
    """int psi_i phi_j over [0, 1] for the hat functions psi of the vertices
    (0, 1/2, 1) and phi of (0, 1/3, 1), integrated piece by piece between the
    true breakpoints 0, 1/3, 1/2, 1 with a 3-point Gauss rule (exact)."""
    def hats(nodes):
        return [lambda x, k=k: np.interp(x, nodes, np.eye(len(nodes))[k])
                for k in range(len(nodes))]
    phi, psi = hats([0., 1 / 3, 1.]), hats([0., 1 / 2, 1.])
    g, w = np.polynomial.legendre.leggauss(3)
    out = np.zeros((3, 3))
    for a, b in [(0., 1 / 3), (1 / 3, 1 / 2), (1 / 2, 1.)]:
        x, wx = (a + b) / 2 + (b - a) / 2 * g, (b - a) / 2 * w
        for i in range(3):
            for j in range(3):
                out[i, j] += np.sum(wx * psi[i](x) * phi[j](x))
    return out


exact_p1 = exact_p1_coupling()

bad = False
for L in [1., 1e-3, 1e-6, 1e-8, 1e-10]:
    B0, m12 = coupling(L, ElementLineP0())
    B1, _ = coupling(L, ElementLineP1())
    e0 = np.abs(B0 / L - exact_p0).max()
    e1 = np.abs(B1 / L - exact_p1).max()
    ok = e0 < 1e-9 and e1 < 1e-9 and m12.p.shape[1] == 4
    bad |= not ok
    print('L = {:7.0e}: supermesh vertices / L = {}'.format(L, m12.p[0] / L))
    print('             P0 coupling / L = {}   max error {:.1e}'
          .format(np.array2string(B0 / L, precision=10).replace('\n', ''),
                  e0))
    print('             P1 coupling: max error {:.1e}   {}'
          .format(e1, 'ok' if ok else 'WRONG'))
print('exact P0 coupling / L   = [[1/3, 1/6], [0, 1/2]] for every L')

if bad:
    print('\nDEFECT: integrals over the 1-D supermesh depend on the absolute '
          'size of the segment.')
    sys.exit(1)
print('\nno defect observed')
sys.exit(0)
