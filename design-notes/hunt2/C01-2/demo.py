"""C01 hunt 2, finding 2.

The tensor of a complex-valued TrilinearForm loses its imaginary part when it
is turned into an array: COOData.toarray() accumulates every tensor of order
>= 3 in a float64 array, whatever the dtype of the assembled data.
The matrix (order 2) and vector (order 1) paths keep the dtype.
"""
import sys
import warnings
import numpy as np
from skfem import (MeshTri, ElementTriP1, ElementTriP2, ElementTriP0, Basis,
                   BilinearForm, LinearForm, TrilinearForm)

m = MeshTri.init_sqsymmetric().refined(1)
bu = Basis(m, ElementTriP2())
bv = Basis(m, ElementTriP1(), quadrature=bu.quadrature)
bq = Basis(m, ElementTriP0(), quadrature=bu.quadrature)

rng = np.random.default_rng(0)
u = rng.random(bu.N) + 1j * rng.random(bu.N)
v = rng.random(bv.N) + 1j * rng.random(bv.N)
q = rng.random(bq.N)

kappa = 2. - 3.j    # a complex coefficient, e.g. a lossy material


def integrand(u, v, q, x):
    return kappa * u.grad[0] * v * q * (1. + x[0]) + 1j * u * v.grad[1] * q


U, V, Q = bu.interpolate(u), bv.interpolate(v), bq.interpolate(q)
ref = (integrand(U, V, Q, bu.global_coordinates()) * bu.dx).sum()
print("t(u_h, v_h, q_h) evaluated with the basis' quadrature :", ref)

# order 2 and order 1 siblings keep the complex dtype -------------------
A = BilinearForm(lambda u, v, w: integrand(u, v, w.q, w.x),
                 dtype=np.complex128).assemble(bu, bv, q=Q)
b = LinearForm(lambda v, w: integrand(w.u, v, w.q, w.x),
               dtype=np.complex128).assemble(bv, u=U, q=Q)
print("v^T A u  (BilinearForm, dtype=complex)               :", v @ A @ u,
      A.dtype)
print("b^T v    (LinearForm,   dtype=complex)               :", b @ v,
      b.dtype)
assert abs(v @ A @ u - ref) < 1e-12 and abs(b @ v - ref) < 1e-12

# order 3 ---------------------------------------------------------------
T = TrilinearForm(lambda u, v, q, w: integrand(u, v, q, w.x),
                  dtype=np.complex128).assemble(bu, bv, bq)
print("assembled COO data dtype                              :", T.data.dtype)
raw = (T.data * q[T.indices[0]] * v[T.indices[1]] * u[T.indices[2]]).sum()
print("contraction of the raw COO data                       :", raw)
assert abs(raw - ref) < 1e-12   # the assembly itself is right

with warnings.catch_warnings(record=True) as caught:
    warnings.simplefilter('always')
    arr = T.toarray()
got = np.einsum('ijk,i,j,k', arr, q, v, u)
print("T.toarray().dtype                                     :", arr.dtype)
print("contraction of T.toarray()                            :", got)
print("warnings:", sorted({type(c.message).__name__ for c in caught}))

ok = np.iscomplexobj(arr) and abs(got - ref) < 1e-12
print("\nproperty demands the contraction to equal", ref)
print("all consistent" if ok else "DEFECT PRESENT: imaginary part of the "
      "tensor discarded by COOData.toarray()")
sys.exit(0 if ok else 1)
