"""C07-1: the default tags ('left', 'bottom', ...) made by Mesh.with_defaults()
name facets that are not on that side of the domain when the cells are
anisotropic, the mesh is graded towards a wall, or the domain lies far from
the origin.  get_dofs('bottom') then disagrees with the equivalent predicate
and index-array selections (it can return every DOF of the mesh)."""
import sys
import numpy as np
from skfem import MeshQuad, MeshTri, MeshHex, Basis, ElementQuad1, ElementTriP2, \
    ElementHex1

NAMES = (('left', 'right'), ('bottom', 'top'), ('front', 'back'))
failures = 0


def check(label, mesh, elem):
    """Tag selection vs predicate selection vs explicit index array."""
    global failures
    m = mesh.with_defaults()
    basis = Basis(m, elem)
    print(f"\n{label}: {m.nelements} cells, {m.nfacets} facets, "
          f"{basis.N} DOFs, {len(m.boundary_facets())} boundary facets")
    for d in range(m.p.shape[0]):
        for name, val in zip(NAMES[d], (m.p[d].min(), m.p[d].max())):
            # index form: facets all of whose vertices lie on the plane
            ix = np.nonzero((m.p[d][m.facets] == val).all(axis=0))[0]
            by_index = basis.get_dofs(ix.astype(np.int32)).flatten()
            by_pred = basis.get_dofs(lambda x: x[d] == val).flatten()
            by_tag = basis.get_dofs(name).flatten()
            n_int = int((m.f2t[1, m.boundaries[name]] >= 0).sum())
            ok = (np.array_equal(by_tag, by_index)
                  and np.array_equal(by_pred, by_index))
            print(f"  {name:7s} index array: {len(by_index):4d} DOFs | "
                  f"predicate: {len(by_pred):4d} | tag: {len(by_tag):4d}"
                  f"   (tag holds {len(m.boundaries[name])} facets, "
                  f"{n_int} of them interior)  {'ok' if ok else 'WRONG'}")
            failures += not ok


# control: the unit square, where everything agrees
check("unit square (control)", MeshQuad().refined(3), ElementQuad1())

# 1. a thin strip 1 x 0.002 with 10 x 2 cells (cell aspect ratio 100)
check("thin strip 1 x 0.002",
      MeshQuad.init_tensor(np.linspace(0, 1, 11), np.linspace(0, .002, 3)),
      ElementQuad1())

# 2. a unit square graded towards the wall x = 0 (boundary layer mesh)
check("boundary-layer mesh",
      MeshTri.init_tensor(np.array([0, 1e-4, 1e-3, 1e-2, 1e-1, 1.]),
                          np.linspace(0, 1, 3)),
      ElementTriP2())

# 3. an isotropic unit cube mesh in "map" coordinates (far from the origin)
check("unit cube translated by 5e5",
      MeshHex().refined(2).translated((5e5, 5e5, 0.)),
      ElementHex1())

# 4. (loud variant) a one-dimensional mesh has no default tags at all
from skfem import MeshLine, ElementLineP1
try:
    check("unit interval", MeshLine(np.linspace(0, 1, 5)), ElementLineP1())
except Exception as exc:
    print(f"\nunit interval: MeshLine(...).with_defaults() raised "
          f"{type(exc).__name__}: {exc}")
    failures += 1

print(f"\n{failures} tag(s) disagree with the equivalent predicate / index "
      "selection (the property demands 0)")
sys.exit(1 if failures else 0)
