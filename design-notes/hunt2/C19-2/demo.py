"""C19 / finding 2: the composite elements returned by ``Element.condensed()``
do not agree with their components.

``e.condensed()`` ("Return two elements: one for interior and one for other
DOFs") splits an element into its interior part ``ei`` and its skeleton part
``eo``.  For a composite element both parts are again ``ElementComposite``
objects, so a basis built on them can be split:

    whole = basis.interpolate(x)
    parts = [bk.interpolate(xk) for xk, bk in basis.split(x)]

and the property demands ``parts[k] == whole[k]``.
"""
import sys

import numpy as np
from skfem import (MeshTri, Basis, ElementTriMini, ElementTriCCR,
                   BilinearForm)

m = MeshTri().refined(1)
e = ElementTriMini() * ElementTriCCR()   # both have vertex and interior DOFs
ei, eo = e.condensed()
rng = np.random.default_rng(0)

ok = True
for label, ec in [("skeleton part eo", eo), ("interior part ei", ei)]:
    basis = Basis(m, ec)
    x = rng.standard_normal(basis.N)
    whole = basis.interpolate(x)
    whole = whole if isinstance(whole, tuple) else (whole,)
    for k, ((xk, bk), fk) in enumerate(zip(basis.split(x), whole)):
        gk = bk.interpolate(xk)
        dv = np.abs(np.asarray(gk) - np.asarray(fk)).max()
        dg = np.abs(gk.grad - fk.grad).max()
        print("{}: component {} ({} DOFs)  max|value diff| = {:.3e}  "
              "max|grad diff| = {:.3e}".format(label, k, bk.N, dv, dg))
        ok = ok and dv < 1e-12 and dg < 1e-12

# the same disagreement seen through assembly: the (0, 0) block of a coupled
# form on ei versus the form assembled on the component basis
basis = Basis(m, ei)
ix = basis.split_indices()
b0 = basis.split_bases()[0]
A = BilinearForm(lambda u, p, v, q, w: u * v + p * q + u * q).assemble(basis)
A00 = A.toarray()[np.ix_(ix[0], ix[0])]
B00 = BilinearForm(lambda u, v, w: u * v).assemble(b0).toarray()
print("interior part ei: (0,0) block of the coupled mass matrix vs. component "
      "mass matrix, max diff = {:.3e}".format(np.abs(A00 - B00).max()))
ok = ok and np.allclose(A00, B00)

if not ok:
    print("FAIL: components of the condensed composite element are not the "
          "components of the whole")
    sys.exit(1)
print("OK")
