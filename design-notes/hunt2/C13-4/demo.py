"""Side finding (mechanism outside the refinement code): the library's own
validity predicate Mesh.is_valid() - the oracle the test-suite uses after
adaptive refinement of MeshTet1 - answers False for EVERY quadratic simplex
mesh, in particular for every result of MeshTri2 / MeshTet2 refinement."""
import sys

import numpy as np
from skfem import MeshTri1, MeshTri2, MeshTet1, MeshTet2

bad = 0
for first, second in [(MeshTri1, MeshTri2), (MeshTet1, MeshTet2)]:
    m1 = first()
    m2 = second.from_mesh(m1)
    cases = [
        ('default mesh', m1, second()),
        ('from_mesh', m1, m2),
        ('refined()', m1.refined(), m2.refined()),
        ('refined([0, 1])', m1.refined([0, 1]), m2.refined([0, 1])),
    ]
    for label, a, b in cases:
        # the quadratic mesh is the same triangulation with one extra node
        # in the middle of every edge: all nodes belong to an element
        nodes_in_elements = np.unique(b.dofs.element_dofs)
        all_used = len(nodes_in_elements) == b.p.shape[1]
        uniq = len(np.unique(b.p.T, axis=0)) == b.p.shape[1]
        va, vb = a.is_valid(), b.is_valid()
        print('%-8s %-16s is_valid: %-5s | %-8s is_valid: %-5s '
              '(every node used by a cell: %s, no duplicate node: %s)'
              % (first.__name__, label, va, second.__name__, vb,
                 all_used, uniq))
        if all_used and uniq and not vb:
            bad += 1

print()
print('expected: is_valid() is True for all of them (the test-suite checks '
      'the results of adaptive refinement with "assert m.is_valid()")')
print('valid quadratic meshes reported invalid:', bad)
sys.exit(1 if bad else 0)
