"""Extrusion (``MeshTri1 * MeshLine1`` and ``MeshLine1 * MeshLine1``) ignores
the connectivity ``t`` of the line mesh.

The extruded mesh must occupy  (base domain) x (domain of the line mesh):
its measure is the product of the two measures and every layer of cells spans
exactly one cell of the line mesh.  The library builds one layer between each
pair of consecutive *stored points* of the line mesh instead, so gaps between
cells are filled in and unused stored points create extra material.
"""
import sys

import numpy as np

from skfem import MeshTri, MeshLine, Basis
from skfem.mesh import MeshLine1


def measure(m):
    return float(Basis(m, m.elem(), intorder=2).dx.sum())


def layers(m, axis=-1):
    """Set of (lo, hi) ranges of one coordinate over the cells."""
    z = m.p[axis, m.t]
    return sorted(set(zip(np.round(z.min(axis=0), 12).tolist(),
                          np.round(z.max(axis=0), 12).tolist())))


def cells(line):
    return layers(line, 0)


bad = 0


def report(name, ext, base, line, axis=-1):
    """``line`` is the factor that supplies coordinate ``axis``."""
    global bad
    got, want = measure(ext), measure(base) * measure(line)
    ok = abs(got - want) < 1e-12 and layers(ext, axis) == cells(line)
    print(f"{name}: {type(ext).__name__} with {ext.nelements} cells")
    print(f"   cells of the line mesh      : {cells(line)}")
    print(f"   layers of the extruded mesh : {layers(ext, axis)}")
    print(f"   measure = {got:.6g}, property demands {want:.6g}"
          f"  -> {'ok' if ok else 'VIOLATED'}")
    bad += not ok


tri = MeshTri().refined()                       # unit square, area 1
seg = MeshLine(np.linspace(0., 1., 3))          # [0, 1], length 1

# control: an ordinary line mesh
line0 = MeshLine(np.linspace(0., 3., 4))
report("control  tri * line", tri * line0, tri, line0)

# (a) line mesh with a gap: cells [0,1] and [2,3]; every stored point is used
gap = line0.remove_elements(np.array([1]))
assert gap.is_valid() and abs(measure(gap) - 2.) < 1e-14
report("gap      tri * line", tri * gap, tri, gap)
report("gap      line * line", seg * gap, seg, gap)
report("gap      line * line (gap in the first factor)", gap * seg, seg, gap,
       axis=0)

# (b) line mesh [0,1] with an unused trailing stored point at x = 7
unused = MeshLine1(np.array([[0., .5, 1., 7.]]),
                   np.array([[0, 1], [1, 2]], dtype=np.int32))
assert abs(measure(unused) - 1.) < 1e-14
report("unused   tri * line", tri * unused, tri, unused)
report("unused   line * line", seg * unused, seg, unused)

print()
if bad:
    print(f"{bad} extrusions do not occupy base x line")
    sys.exit(1)
print("all extrusions occupy base x line")
