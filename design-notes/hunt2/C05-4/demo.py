"""C05 (hunt 2) finding 4: the condensed / penalised system of a LIL, DOK or
DIA matrix cannot be solved: solve raises AttributeError.

condense and penalize keep the storage format of the matrix they are given
(enforce converts to CSR).  The default solvers behind solve() query
`A.has_canonical_format`, an attribute that only the compressed (CSR/CSC/BSR)
and COO formats have.
"""
import sys
import warnings

import numpy as np

from skfem import (MeshTri, Basis, ElementTriP1, BilinearForm, LinearForm,
                   condense, enforce, penalize, solve)
from skfem.helpers import dot, grad

warnings.simplefilter('ignore')


@BilinearForm
def laplace(u, v, _):
    return dot(grad(u), grad(v))


@BilinearForm
def mass(u, v, _):
    return u * v


@LinearForm
def load(v, _):
    return 1. * v


basis = Basis(MeshTri().refined(3), ElementTriP1())
A = laplace.assemble(basis)
M = mass.assemble(basis)
b = load.assemble(basis)
D = basis.get_dofs()
x = basis.zeros()
x[D.flatten()] = 1.

ref = solve(*condense(A, b, x=x, D=D))          # CSR reference
Lref = np.sort(solve(*condense(A, M, D=D))[0].real)

failed = False
for fmt in ('csr', 'csc', 'lil', 'dok', 'dia'):
    Af, Mf = A.asformat(fmt), M.asformat(fmt)
    for f in (condense, penalize, enforce):
        if f is condense and fmt == 'dia':
            continue  # DIA matrices cannot be indexed at all
        # linear system
        try:
            u = solve(*f(Af, b, x=x, D=D))
            res = "max |u - u_ref| = {:.1e}".format(np.abs(u - ref).max())
            ok = np.abs(u - ref).max() < 1e-8
        except Exception as e:
            res = "{}: {}".format(type(e).__name__, e)
            ok = False
        print("{:4s} {:9s} linear : {}".format(fmt, f.__name__, res))
        failed |= not ok
        # eigenproblem (enforce + solve is the subject of finding 1)
        if f is enforce:
            continue
        try:
            L = np.sort(solve(*f(Af, Mf, D=D))[0].real)
            res = "max |L - L_ref| = {:.1e}".format(np.abs(L - Lref).max())
            ok = np.abs(L - Lref).max() < 1e-5
        except Exception as e:
            res = "{}: {}".format(type(e).__name__, e)
            ok = False
        print("{:4s} {:9s} eigen  : {}".format(fmt, f.__name__, res))
        failed |= not ok

print("property demands: the same solution for every storage format")
sys.exit(1 if failed else 0)
