"""C04-3: on a periodic mesh that is two cells wide in the periodic direction
two *different* facets (edges in 3D as well) receive one and the same facet /
edge DOFs.

Property C04: "two cells reference the same number if and only if it is
attached to a vertex, edge or facet that both cells contain"; "gap-free ...
0..N-1" for the correct N.
"""
import sys

import numpy as np

from skfem import (MeshQuad, MeshTri, CellBasis, ElementQuad2, ElementTriP2,
                   ElementQuad1, ElementTriP1)
from skfem.mesh import MeshQuad1DG, MeshTri1DG

y = np.linspace(0, 1, 4)
failed = False


def run(nx, dgcls, cls, elem, elem1):
    """nx cells in the periodic x-direction, three cells in y."""
    global failed
    x = np.linspace(0, 1, nx + 1)
    print("{}.init_tensor(x, y, periodic=[0]), {} cells in x, {}:"
          .format(dgcls.__name__, nx, type(elem).__name__))
    try:
        m = dgcls.init_tensor(x, y, periodic=[0])
    except ValueError as err:
        # an acceptable repair: refuse the mesh loudly
        print("  refused: {}".format(err))
        return

    # what the periodic mesh must have, counted on the ordinary mesh
    orig = cls.init_tensor(x, y)
    nverts = orig.nvertices - len(orig.nodes_satisfying(lambda p: p[0] == 1.))
    nfacets = orig.nfacets - len(orig.facets_satisfying(lambda p: p[0] == 1.))
    n_exp = (elem.nodal_dofs * nverts + elem.facet_dofs * nfacets
             + elem.interior_dofs * orig.nelements)

    basis = CellBasis(m, elem)
    n1 = CellBasis(m, elem1).N
    print("  vertex DOFs only ({}): N = {}, demanded {}"
          .format(type(elem1).__name__, n1, nverts))
    print("  facets: {}, demanded {};  N = {}, demanded {}"
          .format(m.nfacets, nfacets, basis.N, n_exp))
    print("  largest number of cells on one facet: {}, demanded <= 2"
          .format(np.bincount(m.t2f.flatten()).max()))

    # geometric check of "shared <=> same facet": the midpoint of the facet
    # carrying a facet DOF, computed in every cell that references the DOF,
    # must be one point (modulo the period 1 in x)
    loc = basis.mapping.F(elem.doflocs.T)        # (2, nel, Nbfun)
    first = elem.nodal_dofs * elem.refdom.nnodes
    where = {}
    for j in range(first, first + elem.facet_dofs * elem.refdom.nfacets):
        for c in range(m.nelements):
            pt = loc[:, c, j].copy()
            pt[0] = pt[0] % 1.
            where.setdefault(int(basis.element_dofs[j, c]), []).append(
                (c, tuple(round(float(v), 4) for v in pt)))
    bad = {g: v for g, v in where.items() if len({p for _, p in v}) > 1}
    print("  facet DOFs referenced from geometrically different facets: {}, "
          "demanded 0".format(len(bad)))
    for g, v in list(bad.items())[:2]:
        print("    DOF {}: (cell, facet midpoint) = {}".format(g, v))

    if (n1 != nverts or m.nfacets != nfacets or basis.N != n_exp
            or len(bad) > 0):
        failed = True


run(3, MeshQuad1DG, MeshQuad, ElementQuad2(), ElementQuad1())   # fine
run(2, MeshQuad1DG, MeshQuad, ElementQuad2(), ElementQuad1())   # defect
run(2, MeshTri1DG, MeshTri, ElementTriP2(), ElementTriP1())     # defect

if failed:
    print("FAIL")
    sys.exit(1)
print("OK")
