"""C07-3: on a wedge (prism) mesh the point handed to a facet predicate is not
the midpoint of the facet for the triangular facets.  Predicate selection and
index selection of the same facets therefore disagree, and which facets a
predicate picks depends on the (arbitrary) numbering of the mesh."""
import sys
import numpy as np
from skfem import MeshTri, MeshLine, MeshWedge1, Basis, ElementWedge1

failures = 0


def centroids(m):
    """Midpoint of each facet = mean of its distinct vertices."""
    out = np.zeros((3, m.nfacets))
    for f in range(m.nfacets):
        out[:, f] = m.p[:, np.unique(m.facets[:, f])].mean(axis=1)
    return out


def seen_by_predicate(m):
    seen = {}

    def pred(x):
        seen['x'] = x.copy()
        return np.zeros(x.shape[1], dtype=bool)

    m.facets_satisfying(pred)
    return seen['x']


# the default MeshWedge1: the unit cube cut into two prisms
m = MeshWedge1()
mid = centroids(m)
got = seen_by_predicate(m)
ntri = np.array([len(np.unique(m.facets[:, f])) == 3 for f in range(m.nfacets)])
print("MeshWedge1(): facet, vertices, true midpoint, point given to predicate")
for f in np.nonzero(ntri)[0]:
    print(f"  {f}  {m.facets[:, f]}  {np.round(mid[:, f], 4)}  {got[:, f]}")
dev = np.abs(mid - got).max(axis=0)
print(f"  max deviation on quadrilateral facets: {dev[~ntri].max():.2e}, "
      f"on triangular facets: {dev[ntri].max():.4f}  (property: 0)")
failures += dev.max() > 1e-12

# consequence for the DOF query: 'the part of the bottom/top with x > 0.6'
basis = Basis(m, ElementWedge1())


def pred(x):
    return x[0] > 0.6


by_pred = basis.get_dofs(pred).flatten()
by_index = basis.get_dofs(np.nonzero(pred(mid))[0].astype(np.int32)).flatten()
print(f"\nget_dofs(lambda x: x[0] > 0.6): {by_pred}")
print(f"get_dofs(indices of the facets whose midpoint has x > 0.6): {by_index}")
failures += not np.array_equal(by_pred, by_index)

# the same geometry with the vertices of each cell listed in another
# (equally valid, same orientation) cyclic order selects other facets
m2 = MeshWedge1(m.p, m.t[[1, 2, 0, 4, 5, 3]])
F1 = m.facets_satisfying(pred)
F2 = m2.facets_satisfying(pred)
s1 = {tuple(np.unique(m.facets[:, f])) for f in F1}
s2 = {tuple(np.unique(m2.facets[:, f])) for f in F2}
print(f"\nsame prisms, rotated local numbering: predicate picks "
      f"{len(s1)} facets vs {len(s2)} facets; same set: {s1 == s2}")
failures += s1 != s2

# an extruded triangulation
m3 = MeshTri.init_sqsymmetric().refined(1) * MeshLine(np.linspace(0, 1, 3))
mid3 = centroids(m3)
b3 = Basis(m3, ElementWedge1())


def pred3(x):
    return x[0] < 0.35


a = b3.get_dofs(pred3).flatten()
b = b3.get_dofs(np.nonzero(pred3(mid3))[0].astype(np.int32)).flatten()
print(f"\nextruded mesh ({m3.nfacets} facets): predicate -> {len(a)} DOFs, "
      f"index array of the same facets -> {len(b)} DOFs")
failures += not np.array_equal(a, b)

sys.exit(1 if failures else 0)
