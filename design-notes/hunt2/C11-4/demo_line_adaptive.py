"""Further instance of the same family (cells renumbered, `ori` not
translated): MeshLine1._adaptive keeps the named boundaries - its siblings
MeshTri1._adaptive / MeshTet1._adaptive set them to None - and puts the
children of the marked cells behind the unmarked ones.  With cells whose local
vertex order is not uniform this exchanges the rows of f2t and an oriented
boundary flips.

Exits non-zero on the unmodified library.
"""
import sys
import numpy as np
from skfem import MeshLine1, FacetBasis, ElementLineP0

p = np.array([[0., 1., 2., 3.]])
t = np.array([[0, 2, 2],          # cells (0,1), (2,1), (2,3): the middle
              [1, 1, 3]])         # one is written right-to-left
m = MeshLine1(p, t).with_subdomains({'L': lambda x: x[0] < 1})
m = m.with_boundaries({'g': m.facets_around('L')})     # traces inside L

fb = FacetBasis(m, ElementLineP0(), facets='g')
print('before  :', 'facets', np.asarray(m.boundaries['g']).tolist(),
      'ori', m.boundaries['g'].ori.tolist(),
      'f2t', m.f2t[:, m.boundaries['g']].T.tolist(),
      'trace cell midpoints', m.p[0, m.t[:, fb.tind]].mean(axis=0).tolist(),
      'normals', fb.normals.value.ravel().tolist())

r = m.refined(np.array([0]))                           # split the cell (0,1)
g = r.boundaries['g']
fb = FacetBasis(r, ElementLineP0(), facets='g')
mid = r.p[0, r.t[:, fb.tind]].mean(axis=0)
print('adaptive:', 'facets', np.asarray(g).tolist(), 'ori', g.ori.tolist(),
      'f2t', r.f2t[:, g].T.tolist(),
      'trace cell midpoints', mid.tolist(),
      'normals', fb.normals.value.ravel().tolist())

if not (mid < 1).all():
    print('\nDEFECT: the trace at x = 1 is now taken from the cell (1,2) '
          'outside L and the normal points into L (expected midpoints < 1, '
          'normals [-1, 1])')
    sys.exit(1)
print('\nall fine')
