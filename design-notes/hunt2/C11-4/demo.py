"""Mesh.restrict() / Mesh.remove_elements() renumber the cells and "retag" the
named boundaries, but an OrientedBoundary comes out as a plain index array:
the orientation (which of the two cells in f2t is meant) is dropped silently,
for every cell type.

Exits non-zero on the unmodified library.
"""
import sys
import numpy as np
from skfem import (MeshLine, MeshTri, MeshQuad, MeshTet, MeshHex, FacetBasis,
                   ElementLineP0, ElementTriP0, ElementQuad0, ElementTetP0,
                   ElementHex0)
from skfem.generic_utils import OrientedBoundary

bad = 0
for name, m0, elem in (
        ('MeshLine', MeshLine().refined(3), ElementLineP0()),
        ('MeshTri', MeshTri().refined(2), ElementTriP0()),
        ('MeshQuad', MeshQuad().refined(2), ElementQuad0()),
        ('MeshTet', MeshTet().refined(2), ElementTetP0()),
        ('MeshHex', MeshHex().refined(2), ElementHex0()),
):
    m = m0.with_subdomains({'L': lambda x: x[0] < .5,
                            'R': lambda x: x[0] > .5})
    bnd = {}
    for s in 'LR':
        ob = m.facets_around(s)              # oriented: traces inside s
        two_sided = m.f2t[1, ob] != -1       # the interface x = 1/2
        bnd[s] = OrientedBoundary(np.asarray(ob)[two_sided],
                                  ob.ori[two_sided])
    m = m.with_boundaries(bnd)

    # cut off a strip far away from the interface x = 1/2
    r = m.remove_elements(m.elements_satisfying(lambda x: x[0] < .2))

    for s, inside in (('L', lambda x: x < .5), ('R', lambda x: x > .5)):
        fb = FacetBasis(m, elem, facets=s)
        xin = m.p[0, m.t[:, fb.tind]].mean(axis=0)
        n0 = int(inside(xin).sum())
        g = r.boundaries[s]
        fb = FacetBasis(r, elem, facets=s)
        xin = r.p[0, r.t[:, fb.tind]].mean(axis=0)
        n1 = int(inside(xin).sum())
        print('{:9s} around {}: {:16s} {:2d} facets, traces inside {}: {:2d}'
              '   ->  after remove_elements: {:16s} {:2d} facets, traces '
              'inside {}: {:2d}'
              .format(name, s, type(m.boundaries[s]).__name__,
                      len(m.boundaries[s]), s, n0,
                      type(g).__name__, len(g), s, n1))
        if n1 != len(g):
            bad += 1

if bad:
    print('\nDEFECT: the interface is untouched by the cut, yet its '
          'orientation is gone (expected: OrientedBoundary, all traces '
          'inside the subdomain)')
    sys.exit(1)
print('\nall fine')
