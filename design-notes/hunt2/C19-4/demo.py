"""C19 / finding 4: ``Form.block`` cannot extract the blocks of a coupled form
whose components have different tensor orders (e.g. Stokes: vector velocity,
scalar pressure).

``form.block(j, i)`` is the library's way to turn a form written for a
composite element into the form of one block (trial component j, test
component i).  Assembled on the component bases it must give the corresponding
block of the matrix assembled on the composite basis.
"""
import inspect
import sys

import numpy as np
from skfem import (MeshTri, Basis, ElementVector, ElementTriP2, ElementTriP1,
                   BilinearForm, asm)
from skfem.helpers import ddot, grad, div

m = MeshTri().refined(2)
basis = Basis(m, ElementVector(ElementTriP2()) * ElementTriP1())


@BilinearForm
def stokes(u, p, v, q, w):
    return ddot(grad(u), grad(v)) - div(u) * q - div(v) * p - 1e-2 * p * q


S = stokes.assemble(basis).toarray()
ix = basis.split_indices()
bs = basis.split_bases()

# Form.block(*args) has no way to learn the shapes of the inactive components;
# a repaired version has to be told (see notes.md).  Use the keyword if the
# library offers it, otherwise the plain call of the unmodified library.
kw = ({'basis': basis}
      if 'basis' in inspect.signature(stokes.block).parameters else {})

ok = True
for i in range(2):          # test component  (rows)
    for j in range(2):      # trial component (columns)
        ref = S[np.ix_(ix[i], ix[j])]
        try:
            B = asm(stokes.block(j, i, **kw), bs[j], bs[i]).toarray()
            diff = np.abs(B - ref).max()
            print("block(trial={}, test={}): shape {}, max diff to the block "
                  "of the coupled matrix = {:.2e}".format(j, i, B.shape, diff))
            ok = ok and diff < 1e-12
        except Exception as exc:
            print("block(trial={}, test={}): raised {}: {}"
                  .format(j, i, type(exc).__name__, str(exc)[:70]))
            ok = False

if not ok:
    print("FAIL: only the scalar-scalar block can be extracted")
    sys.exit(1)
print("OK")
