"""``restrict`` / ``remove_elements`` reject a cell given as a NumPy integer.

A subset of cells may be given as a Python ``int`` or as a list / tuple / set of
Python ints (``Mesh.normalize_elements``).  The same subset given with NumPy
integers - which is what ``np.argmax``, ``np.nonzero(...)[0][k]``,
``mesh.subdomains[name][k]`` or ``list(index_array)`` deliver - raises a bare
``NotImplementedError``.
"""
import sys

import numpy as np

from skfem import MeshTri, MeshHex, MeshLine

bad = 0


def same(a, b):
    return (a.p.shape == b.p.shape and np.array_equal(a.p, b.p)
            and np.array_equal(a.t, b.t)
            and all(np.array_equal(a.subdomains[k], b.subdomains[k])
                    for k in a.subdomains))


for m in (MeshTri().refined(2), MeshHex().refined(), MeshLine(np.linspace(0, 1, 9))):
    m = m.with_subdomains({'low': lambda x: x[0] < .5})
    eta = m.p[0, m.t].mean(axis=0) + m.p[-1, m.t].mean(axis=0)
    k = np.argmax(eta)                       # numpy.int64: "the worst cell"
    ix = np.nonzero(eta > 1.2 * eta.mean())[0]
    print(f"{type(m).__name__}: k = np.argmax(eta) = {k} ({type(k).__name__})")

    cases = {
        "k": (k, int(k)),
        "np.int32(k)": (np.int32(k), int(k)),
        "m.subdomains['low'][0]": (m.subdomains['low'][0],
                                   int(m.subdomains['low'][0])),
        "[k]": ([k], [int(k)]),
        "list(ix)": (list(ix), [int(i) for i in ix]),
        "set(ix)": (set(ix), {int(i) for i in ix}),
        "('low', k)": (('low', k), ('low', int(k))),
    }
    for op in ("restrict", "remove_elements"):
        for name, (sel, ref) in cases.items():
            want = getattr(m, op)(ref)        # the same subset as Python ints
            try:
                got = getattr(m, op)(sel)
            except Exception as e:
                print(f"   {op}({name}): raises {type(e).__name__}({e});"
                      f" with Python ints: {want.nelements} cells")
                bad += 1
                continue
            if not same(got, want):
                print(f"   {op}({name}): differs from the Python int result")
                bad += 1

print()
if bad:
    print(f"{bad} admissible cell subsets were rejected")
    sys.exit(1)
print("NumPy integers select the same cells as Python ints")
