"""Mesh.load of a Gmsh 2.2 file names a subdomain after a physical *curve*.

In Gmsh the number of a physical group is unique per dimension only (the Gmsh
API numbers the groups of every dimension 1, 2, ...), so "Physical Curve 1" and
"Physical Surface 1" are different groups with different names.  The file
below is a valid MSH 2.2 file of the unit square (two triangles) with

    Physical Curve   1 "left"   (the edge x = 0)
    Physical Surface 1 "dom"    (both triangles)
"""
import os
import sys
import tempfile

import numpy as np
from skfem import Mesh

MSH22 = """$MeshFormat
2.2 0 8
$EndMeshFormat
$PhysicalNames
2
1 1 "left"
2 1 "dom"
$EndPhysicalNames
$Nodes
4
1 0 0 0
2 1 0 0
3 1 1 0
4 0 1 0
$EndNodes
$Elements
3
1 1 2 1 4 4 1
2 2 2 1 1 1 2 3
3 2 2 1 1 1 3 4
$EndElements
"""

tmp = tempfile.mkdtemp()
fn = os.path.join(tmp, 'square22.msh')
with open(fn, 'w') as fh:
    fh.write(MSH22)

m = Mesh.load(fn)
subs = {k: np.asarray(v).tolist() for k, v in (m.subdomains or {}).items()}
bnds = {k: np.asarray(v).tolist() for k, v in (m.boundaries or {}).items()}
print("named subdomains loaded :", subs)
print("named boundaries loaded :", bnds)
print("the file defines        : subdomain 'dom' = both cells, "
      "boundary 'left' = the facet on x = 0")

ok = True
if set(subs) != {'dom'}:
    print("FAIL: tag names of the subdomains are", sorted(map(str, subs)),
          "- expected ['dom']")
    ok = False
elif sorted(subs['dom']) != [0, 1]:
    print("FAIL: subdomain 'dom' is", subs['dom'])
    ok = False
if set(bnds) != {'left'}:
    print("FAIL: tag names of the boundaries are", sorted(map(str, bnds)),
          "- expected ['left']")
    ok = False
else:
    x = m.p[0, m.facets[:, m.boundaries['left']]]
    if not (len(bnds['left']) == 1 and np.all(x == 0)):
        print("FAIL: boundary 'left' is", bnds['left'])
        ok = False

sys.exit(0 if ok else 1)
