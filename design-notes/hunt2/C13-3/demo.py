"""The empty marked set is a member of "ANY set of marked cells": refining
nothing must return the same mesh.  MeshLine1 raises IndexError for the
natural spellings of the empty set that its siblings accept."""
import sys

import numpy as np
from skfem import MeshLine, MeshTri1, MeshTri2, MeshTet1, MeshTet2

line = MeshLine(np.linspace(0., 1., 5)).with_subdomains(
    {'left': lambda x: x[0] < .5})
meshes = [
    ('MeshLine1', line),
    ('MeshTri1', MeshTri1()),
    ('MeshTri2', MeshTri2()),
    ('MeshTet1', MeshTet1()),
    ('MeshTet2', MeshTet2()),
]
empties = [
    ('[]', []),
    ('()', ()),
    ('[i for i in range(nt) if False]', None),   # a filtered comprehension
    ('np.array([], dtype=np.int32)', np.array([], dtype=np.int32)),
]

bad = []
for name, m in meshes:
    for label, marked in empties:
        if marked is None:
            marked = [i for i in range(m.nelements) if False]
        try:
            M = m.refined(marked)
            same = (np.array_equal(M.p, m.p)
                    and np.array_equal(np.sort(M.t, axis=0),
                                       np.sort(m.t, axis=0)))
            res = 'same mesh returned' if same else 'DIFFERENT MESH'
            if not same:
                bad.append((name, label))
        except Exception as e:
            res = '%s: %s' % (type(e).__name__, e)
            bad.append((name, label))
        print('%-9s refined(%-32s) -> %s' % (name, label, res))

print()
print('expected: every line says "same mesh returned" (nothing is marked, '
      'nothing is split)')
print('violations:', bad)
sys.exit(1 if bad else 0)
