"""C07-2: Mesh.remove_duplicate_nodes() renumbers the vertices (and with them
the facets) but carries the named boundaries over unchanged, so afterwards a
tag names arbitrary facets and get_dofs('tag') returns DOFs that are not on
the tagged boundary."""
import sys
import numpy as np
from skfem import MeshTri, MeshQuad, Basis, ElementTriP2, ElementQuad1

failures = 0


def report(label, m, elem, preds):
    global failures
    basis = Basis(m, elem)
    for name, pred in preds.items():
        by_tag = basis.get_dofs(name).flatten()
        by_pred = basis.get_dofs(pred).flatten()
        mid = m.p[:, m.facets[:, m.boundaries[name]]].mean(axis=1)
        ok = np.array_equal(by_tag, by_pred)
        failures += not ok
        print(f"  {label:28s} {name:6s} tag -> {len(by_tag):3d} DOFs, "
              f"predicate -> {len(by_pred):3d} DOFs, "
              f"tagged facets satisfying the predicate: "
              f"{int(pred(mid).sum())}/{mid.shape[1]}  "
              f"{'ok' if ok else 'WRONG'}")


preds = {'left': lambda x: np.isclose(x[0], 0.),
         'top': lambda x: np.isclose(x[1], 1.)}

# (a) a mesh without any duplicate node: the call should change nothing
print("(a) MeshTri().refined(2), no duplicates at all")
m = MeshTri().refined(2).with_boundaries(preds)
report("before", m, ElementTriP2(), preds)
report("after remove_duplicate_nodes", m.remove_duplicate_nodes(),
       ElementTriP2(), preds)

# (b) two blocks given with their own copies of the interface nodes, tagged,
#     then stitched
print("(b) two 2x4 blocks of quads sharing the line x = 0.5")
a = MeshQuad.init_tensor(np.linspace(0, .5, 3), np.linspace(0, 1, 5))
b = MeshQuad.init_tensor(np.linspace(.5, 1, 3), np.linspace(0, 1, 5))
p = np.hstack((a.p, b.p))
t = np.hstack((a.t, b.t + a.p.shape[1]))
m = MeshQuad(p, t).with_boundaries(preds)
report("before (15+15 nodes)", m, ElementQuad1(), preds)
ms = m.remove_duplicate_nodes()
print(f"  stitched: {m.p.shape[1]} -> {ms.p.shape[1]} nodes, "
      f"{m.nfacets} -> {ms.nfacets} facets")
report("after remove_duplicate_nodes", ms, ElementQuad1(), preds)

print(f"\n{failures} tag selection(s) disagree with the predicate that "
      "defined the tag (the property demands 0)")
sys.exit(1 if failures else 0)
