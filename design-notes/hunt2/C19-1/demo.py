"""C19 / finding 1: COOData.toarray() of a complex order-3 tensor drops the
imaginary part.

The dense conversion of the elemental data of a TrilinearForm assembled with a
complex dtype must equal the assembled global tensor

    T[i, j, k] = sum of all stored entries with index (i, j, k).

The sibling conversions of order-1 and order-2 data keep complex values.
"""
import sys
import warnings

import numpy as np
from skfem import (MeshTri, Basis, ElementTriP1, ElementTriP0, TrilinearForm,
                   BilinearForm)

warnings.simplefilter("ignore")  # NumPy only emits a ComplexWarning

m = MeshTri().refined(1)
ub = Basis(m, ElementTriP1())
wb = ub.with_element(ElementTriP0())


@TrilinearForm(dtype=np.complex128)
def form(u, v, r, w):
    # e.g. a complex material coefficient
    return (1. + 2.j) * u * v * r


coo = form.assemble(ub, ub, wb)          # COOData (default type of 3-tensors)
print("stored data dtype      :", coo.data.dtype)

# what the property demands: scatter-add of the stored entries
ref = np.zeros(coo.shape, dtype=coo.data.dtype)
np.add.at(ref, tuple(coo.indices), coo.data)

dense = coo.toarray()
print("toarray() dtype        :", dense.dtype)
print("reference dtype        :", ref.dtype)
print("max |imag(reference)|  :", np.abs(ref.imag).max())
print("max |toarray - ref|    :", np.abs(dense - ref).max())

# the order-2 sibling keeps the imaginary part
B = BilinearForm(lambda u, v, w: (1. + 2.j) * u * v,
                 dtype=np.complex128).elemental(ub)
print("order-2 toarray() dtype:", B.toarray().dtype)

# np.asarray(coo) goes through the same code
dense2 = np.asarray(coo)

ok = (np.iscomplexobj(dense)
      and np.allclose(dense, ref)
      and np.allclose(dense2, ref))
if not ok:
    print("FAIL: the dense conversion of a complex 3-tensor is not the "
          "assembled tensor (imaginary part lost)")
    sys.exit(1)
print("OK")
