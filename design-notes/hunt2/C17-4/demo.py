"""Mesh.load of a Gmsh 2.2 file: physical groups without a name (and untagged
entities) all end up under the dictionary key None, overwriting each other.

Valid MSH 2.2 file of the unit square, two triangles:

    Physical Surface 1          = first triangle    (no name)
    Physical Surface 2          = second triangle   (no name)
    Physical Curve   3 "left"   = the edge x = 0
    Physical Curve   4          = the edge y = 0    (no name)
"""
import json
import os
import sys
import tempfile

import numpy as np
from skfem import Mesh, MeshTri
from skfem.io.json import from_file, to_file

MSH22 = """$MeshFormat
2.2 0 8
$EndMeshFormat
$PhysicalNames
1
1 3 "left"
$EndPhysicalNames
$Nodes
4
1 0 0 0
2 1 0 0
3 1 1 0
4 0 1 0
$EndNodes
$Elements
4
1 1 2 3 4 4 1
2 1 2 4 1 1 2
3 2 2 1 1 1 2 3
4 2 2 2 1 1 3 4
$EndElements
"""

tmp = tempfile.mkdtemp()
fn = os.path.join(tmp, 'square22.msh')
with open(fn, 'w') as fh:
    fh.write(MSH22)

m = Mesh.load(fn)
subs = {k: np.asarray(v).tolist() for k, v in (m.subdomains or {}).items()}
bnds = {k: np.asarray(v).tolist() for k, v in (m.boundaries or {}).items()}
print("named subdomains loaded :", subs)
print("named boundaries loaded :", bnds)
print("expected                : tag names are strings; the two physical "
      "surfaces stay two\n"
      "                          distinct subdomains (or unnamed groups are "
      "left out), boundary 'left' = 1 facet")

ok = True
if any(not isinstance(k, str) for k in list(subs) + list(bnds)):
    print("FAIL: a tag is stored under a key that is not a string:",
          [k for k in list(subs) + list(bnds) if not isinstance(k, str)])
    ok = False
covered = sorted(i for v in subs.values() for i in v)
if subs and covered != [0, 1]:
    print("FAIL: physical surface 1 (cell 0) was overwritten by physical "
          "surface 2 - cells in some subdomain:", covered)
    ok = False

# the loaded mesh cannot be saved / does not round-trip
for label, action in (
    ('save_npz', lambda: (m.save_npz(os.path.join(tmp, 'a.npz')),
                          MeshTri.load_npz(os.path.join(tmp, 'a.npz')))[1]),
    ('json', lambda: (to_file(m, os.path.join(tmp, 'a.json')),
                      from_file(os.path.join(tmp, 'a.json')))[1]),
    ('vtu', lambda: (m.save(os.path.join(tmp, 'a.vtu')),
                     Mesh.load(os.path.join(tmp, 'a.vtu')))[1]),
):
    try:
        m2 = action()
    except Exception as e:
        print(f"{label:8s}: raised {type(e).__name__}: {e}")
        ok = False
        continue
    names = (sorted(map(repr, m2.subdomains or {})),
             sorted(map(repr, m2.boundaries or {})))
    names0 = (sorted(map(repr, subs)), sorted(map(repr, bnds)))
    print(f"{label:8s}: tag names after save -> load {names}")
    if names != names0:
        print(f"          FAIL: differ from {names0}")
        ok = False

sys.exit(0 if ok else 1)
