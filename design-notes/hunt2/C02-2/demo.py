"""C02 hunt 2, finding 2: no facet integral can be computed on a mesh with an
isoparametric mapping (MeshQuad, MeshHex, MeshTri2, MeshQuad2, ...) as soon
as a cell is further from the origin than about 5000 times its size.

Property clause: "functionals of polynomials equal their closed-form
integrals over ... any set of facets", "the entries of the mass matrix of a
partition-of-unity element sum to the measure of the integration domain",
"The result does not depend on ... rigid motion of the mesh".

Exits 0 iff all the facet integrals below are produced and are correct.
"""
import sys
from fractions import Fraction

import numpy as np
from skfem import (MeshTri, MeshQuad, MeshHex, MeshQuad2, ElementTriP1,
                   ElementQuad1, ElementQuad2, ElementHex1, FacetBasis,
                   Functional, BilinearForm)


@Functional
def one(w):
    return 1. + 0. * w.x[0]


@BilinearForm
def mass(u, v, w):
    return u * v


bad = False


def attempt(label, mesh, elem, expected):
    global bad
    try:
        fb = FacetBasis(mesh, elem)
        measure = float(one.assemble(fb))
        msum = float(mass.assemble(fb).sum())
        ok = (abs(measure - expected) < 1e-8 * expected
              and abs(msum - expected) < 1e-8 * expected)
        print('  {:48s} |boundary| = {:.10f}  sum(M) = {:.10f}  expected {}  {}'
              .format(label, measure, msum, expected, 'ok' if ok else 'WRONG'))
        bad |= not ok
    except Exception as e:
        print('  {:48s} {}: {}   expected {}'
              .format(label, type(e).__name__, e, expected))
        bad = True


print('(a) the square [0, 3/10]^2, 2 x 2 cells, translated by (s, s)')
for s in [Fraction(0), Fraction(100, 3), Fraction(10000, 3)]:
    for cls, elem in [(MeshTri, ElementTriP1()),
                      (MeshQuad, ElementQuad1()),
                      (MeshQuad2, ElementQuad2())]:
        m = (cls().refined(1).scaled((0.3, 0.3))
             .translated((float(s), float(s))))
        attempt('{:10s} s = {}'.format(cls.__name__, s), m, elem, 1.2)

print('(b) the cube [0, 3/10]^3, 2 x 2 x 2 cells, translated by (s, s, s)')
for s in [Fraction(0), Fraction(10000, 3)]:
    m = (MeshHex().refined(1).scaled((0.3, 0.3, 0.3))
         .translated((float(s),) * 3))
    attempt('{:10s} s = {}'.format('MeshHex1', s), m, ElementHex1(), 0.54)

print('(c) NO translation: the unit square with a boundary layer at x = 1')
x = np.array([0., 1 / 2, 9 / 10, 99 / 100, 999 / 1000, 9999 / 10000, 1.])
y = np.array([0., 1 / 3, 2 / 3, 1.])
attempt('MeshTri1   init_tensor, smallest cell 1e-4',
        MeshTri.init_tensor(x, y), ElementTriP1(), 4.)
attempt('MeshQuad1  init_tensor, smallest cell 1e-4',
        MeshQuad.init_tensor(x, y), ElementQuad1(), 4.)

if bad:
    print('\nDEFECT: facet integrals are not available on admissible '
          'straight-sided meshes.')
    sys.exit(1)
print('\nno defect observed')
sys.exit(0)
