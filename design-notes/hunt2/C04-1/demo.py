"""C04-1: the facet DOFs of ElementTetRT0 (= ElementTetRT1) and
ElementTetSkeletonP0 are located at edge midpoints: the two tetrahedra that
share a facet DOF put it at two different places and different DOFs end up at
the same place.

Property C04: "... the per-facet ... DOF tables, the per-cell numbering and
the DOF location table agree with each other and with the mesh connectivity".
"""
import sys

import numpy as np

from skfem import (MeshTet, CellBasis, ElementTetRT0, ElementTetSkeletonP0,
                   ElementTetCR)

m = MeshTet().refined(1)
centroids = m.p[:, m.facets].mean(axis=1)          # (3, nfacets)
failed = False

for elem in [ElementTetCR(), ElementTetRT0(), ElementTetSkeletonP0()]:
    basis = CellBasis(m, elem)
    name = type(elem).__name__
    assert basis.N == m.nfacets                    # one DOF per facet

    # where does every cell see its four facet DOFs?
    loc = basis.mapping.F(elem.doflocs.T)          # (3, nel, 4)
    disagree = 0
    for j in range(4):
        d = np.abs(loc[:, :, j]
                   - basis.doflocs[:, basis.element_dofs[j]]).max(axis=0)
        disagree += int((d > 1e-10).sum())

    # the table against the connectivity: DOF of facet f <-> facet f
    table = basis.doflocs[:, basis.facet_dofs[0]]  # (3, nfacets)
    off_centroid = int((np.abs(table - centroids).max(axis=0) > 1e-10).sum())

    # two different DOFs at one and the same place?
    distinct = len(np.unique(np.round(basis.doflocs, 10), axis=1).T)

    # facets strictly inside the domain whose DOF is "located" on the boundary
    interior = np.nonzero(m.f2t[1] != -1)[0]
    tl = table[:, interior]
    on_bnd = int(((np.abs(tl) < 1e-12) | (np.abs(tl - 1.) < 1e-12))
                 .any(axis=0).sum())

    print(name)
    print("  (cell, local DOF) pairs whose own mapped location differs from "
          "basis.doflocs: {} of {}   (demanded: 0)"
          .format(disagree, 4 * m.nelements))
    print("  facet DOFs not located at the centroid of their facet: {} of {}"
          "   (demanded: 0)".format(off_centroid, m.nfacets))
    print("  distinct DOF locations: {} for {} DOFs   (demanded: {})"
          .format(distinct, basis.N, basis.N))
    print("  DOFs of interior facets located on the boundary of the cube: "
          "{}   (demanded: 0)".format(on_bnd))
    if disagree or off_centroid or distinct != basis.N or on_bnd:
        failed = True

if failed:
    print("FAIL")
    sys.exit(1)
print("OK")
