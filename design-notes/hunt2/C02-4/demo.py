"""C02 hunt 2, finding 4: with the default integration order no basis can be
built for a composite of Lagrange(-type) elements on tetrahedra whose degrees
add up to 5 or more, e.g. the 3-D MINI pair or (P2, P2, P1).

Property clause: "mass, stiffness and load entries of polynomial Lagrange
elements on straight-sided cells equal the exactly (rationally) computed
ones; and the entries of the mass matrix of a partition-of-unity element sum
to the measure of the integration domain" (hint: composite / vector
elements).

Exits 0 iff the default `Basis(mesh, composite_element)` can be built and the
blocks of its mass matrix sum to the volume of the cube.
"""
import sys

import numpy as np
from skfem import (MeshTet, MeshTri, Basis, BilinearForm, ElementComposite,
                   ElementVector, ElementTetP1, ElementTetP2, ElementTetMini,
                   ElementTriP1, ElementTriP2)
from skfem.helpers import dot

mesh = MeshTet().refined(1)      # the unit cube, volume 1

bad = False


def attempt(label, mesh, elem, form, expected):
    global bad
    print('{}: maxdeg = {} -> default intorder = {}'
          .format(label, elem.maxdeg, 2 * elem.maxdeg))
    try:
        basis = Basis(mesh, elem)
        total = float(form.assemble(basis).sum())
        ok = abs(total - expected) < 1e-10
        print('    {} quadrature points, sum of the mass matrix = {:.12f}, '
              'expected {}  {}'.format(len(basis.W), total, expected,
                                       'ok' if ok else 'WRONG'))
        bad |= not ok
    except Exception as e:
        print('    {}: {}   (expected: sum of the mass matrix = {})'
              .format(type(e).__name__, e, expected))
        bad = True
    # the same with an explicit order that is sufficient for the products
    order = 2 * max(e.maxdeg for e in elem.elems)
    basis = Basis(mesh, elem, intorder=order)
    print('    with intorder={}: {} points, sum = {:.12f}'
          .format(order, len(basis.W), float(form.assemble(basis).sum())))


@BilinearForm
def mass3(u, p, r, v, q, s, w):
    return u * v + p * q + r * s


@BilinearForm
def mass_vp(u, p, v, q, w):
    # only the pressure block is a partition of unity for MINI
    return p * q


# control: the same composite on triangles works (tables go up to order 19)
attempt('triangles  (P2, P2, P1)', MeshTri().refined(1),
        ElementComposite(ElementTriP2(), ElementTriP2(), ElementTriP1()),
        mass3, 3.)
attempt('tetrahedra (P2, P2, P1)', mesh,
        ElementComposite(ElementTetP2(), ElementTetP2(), ElementTetP1()),
        mass3, 3.)
attempt('tetrahedra MINI: (vector P1+bubble, P1)', mesh,
        ElementComposite(ElementVector(ElementTetMini()), ElementTetP1()),
        mass_vp, 1.)

if bad:
    print('\nDEFECT: the default integration order of a composite element is '
          'the SUM of the degrees of its parts; on tetrahedra no such rule '
          'exists.')
    sys.exit(1)
print('\nno defect observed')
sys.exit(0)
