"""C05 (hunt 2) finding 1: enforce() with a matrix right-hand side (eigenproblem).

solve(*enforce(K, M, D=D)) - the documented way to use enforce, "for
compatibility with solve" - returns eigenvalues that are not eigenvalues of
the constrained problem, whereas solve(*condense(K, M, D=D)) and
solve(*penalize(K, M, D=D)) return the right ones.

enforce only zeroes the constrained ROWS of the mass matrix, so the matrix it
hands to the eigensolver is no longer symmetric; both eigensolvers of the
library (ARPACK eigs / eigsh) require a symmetric positive semi-definite M.
"""
import sys
import warnings

import numpy as np
import scipy.linalg as la

from skfem import (MeshTri, Basis, ElementTriP1, ElementTriP2, BilinearForm,
                   condense, enforce, penalize, solve)
from skfem.helpers import dot, grad

warnings.simplefilter('ignore')


@BilinearForm
def laplace(u, v, _):
    return dot(grad(u), grad(v))


@BilinearForm
def mass(u, v, _):
    return u * v


failed = False

cases = [
    ("P2, 2 refinements (81 DOFs), float64", MeshTri().refined(2),
     ElementTriP2(), np.float64),
    ("P1, 3 refinements (81 DOFs), float64", MeshTri().refined(3),
     ElementTriP1(), np.float64),
    ("P1, 3 refinements (81 DOFs), float32", MeshTri().refined(3),
     ElementTriP1(), np.float32),
]

for name, mesh, elem, dtype in cases:
    basis = Basis(mesh, elem)
    K = laplace.assemble(basis).astype(dtype)
    M = mass.assemble(basis).astype(dtype)
    D = basis.get_dofs()          # a DofsView: the whole boundary
    Dix = D.flatten()
    Iix = basis.complement_dofs(D)

    print("=" * 70)
    print(name)

    # what enforce returns is, as a matrix pencil, fine: rows D of K are e_i,
    # rows D of M vanish, all other rows are untouched ...
    Ke, Me = enforce(K, M, D=D)
    w = la.eig(Ke.toarray().astype(float), Me.toarray().astype(float),
               right=False)
    w = np.sort(w[np.isfinite(w)].real)[:5]
    print("  dense eigenvalues of the enforced pencil :", w.round(4))
    print("  M returned by enforce symmetric?          :",
          abs(Me - Me.T).max() < 1e-12)

    # ... but it cannot be passed on to solve
    Lc, Xc = solve(*condense(K, M, D=D))
    Lp, Xp = solve(*penalize(K, M, D=D))
    Le, Xe = solve(*enforce(K, M, D=D))
    Lc, Lp, Le = (np.sort_complex(L) for L in (Lc, Lp, Le))
    print("  solve(*condense(K, M, D=D)) eigenvalues   :", Lc.round(4))
    print("  solve(*penalize(K, M, D=D)) eigenvalues   :", Lp.round(4))
    print("  solve(*enforce(K, M, D=D))  eigenvalues   :", Le.round(4))
    print("  property demands                          : the same five "
          "eigenvalues from all three")

    tol = 1e-2 if dtype == np.float32 else 1e-6
    ok_vals = (Le.shape == Lc.shape
               and np.allclose(Le, Lc, rtol=tol, atol=tol))
    # eigenvectors must vanish on D and satisfy the original equations on I
    onD = np.abs(Xe[Dix]).max() / np.abs(Xe).max()
    print("  max |eigenvector| on constrained DOFs     : {:.2e} "
          "(relative; must be 0)".format(onD))
    ok_vecs = onD < tol
    if not (ok_vals and ok_vecs):
        print("  --> VIOLATION")
        failed = True
    else:
        print("  --> ok")

sys.exit(1 if failed else 0)
