"""Reference-cell interpretation of refinement / splitting templates
(engines C + E): the connectivity-building code of ``_uniform``,
``_adaptive_split_elements``, ``to_meshtri``, ``to_meshtet`` is run with
per-cell index arrays replaced by *symbolic entity references* (vertex k of
the cell, new node on local facet / edge k, cell centroid), whose index
offsets are polynomials that must match the block layout of the new point
table.  Each child cell then has exact rational vertices on the reference
cell, on which partition / orientation / conformity obligations are
decided."""
from __future__ import annotations

import ast
from dataclasses import dataclass, field
from fractions import Fraction
from itertools import combinations
from typing import Any, Dict, List, Optional, Tuple

from .elements import RefdomInfo
from .interp import (Arr, Interp, Obj, PyFunc, Raised, Unsupported, PTS,
                     Opaque)
from .model import AnalysisError, Model, src
from .poly import Poly

SZ, NT = Poly.sym("sz"), Poly.sym("nt")
MASKS: Dict[str, Any] = {}
COUNT = {"facet": Poly.sym("nfacets"), "edge": Poly.sym("nedges"),
         "cell": NT, "vertex": SZ}


class IdxArr:
    """per-cell array of global point indices: entity (kind, k) of each
    cell, shifted by ``offset``; optional mask tag (subset of cells)"""
    skv_isarray = True

    def __init__(self, kind, k, offset=None, mask=None):
        self.kind, self.k = kind, k
        self.offset = offset if offset is not None else Poly()
        self.mask = mask

    def skv_binop(self, op, other, reflected):
        if isinstance(op, ast.Add) and isinstance(other, (int, Fraction,
                                                          Poly)):
            return IdxArr(self.kind, self.k, self.offset + other, self.mask)
        raise Unsupported("arithmetic on an index array")

    def __repr__(self):
        m = f"|{self.mask}" if self.mask else ""
        return f"{self.kind}[{self.k}]+{self.offset}{m}"


class Mask:
    skv_isarray = True

    def __init__(self, name, expr=None):
        self.name, self.expr = name, expr

    def skv_binop(self, op, other, reflected):
        if isinstance(op, ast.Mult):
            a, b = (other, self) if reflected else (self, other)
            return Mask(f"({getattr(a, 'name', a)}*{getattr(b, 'name', b)})",
                        ("and", a, b))
        raise Unsupported("arithmetic on a mask")

    def skv_compare(self, op, other):
        raise Unsupported("comparison on a mask")

    def skv_invert(self):
        return Mask(f"~{self.name}", ("not", self))

    def __repr__(self):
        return self.name


class Val:
    """a per-cell numeric value (coordinate expression); only its
    comparisons matter (they become masks)"""
    skv_isarray = True
    _n = 0

    def skv_binop(self, op, other, reflected):
        return Val()

    def skv_compare(self, op, other):
        Val._n += 1
        name = {ast.Lt: "<", ast.LtE: "<=", ast.Gt: ">", ast.GtE: ">=",
                ast.Eq: "==", ast.NotEq: "!="}.get(type(op))
        if name is None or not isinstance(other, Val):
            raise Unsupported("comparison of a per-cell value")
        return Mask(f"cmp{Val._n}", ("cmp", name, self, other))


def eval_mask(m, assign) -> bool:
    """truth of a mask expression under an assignment Val -> number"""
    e = m.expr if isinstance(m, Mask) else m
    if e is None:
        raise AnalysisError(f"mask {m!r} has no defining expression")
    if e[0] == "and":
        return eval_mask(e[1], assign) and eval_mask(e[2], assign)
    if e[0] == "not":
        return not eval_mask(e[1], assign)
    if e[0] == "cmp":
        a, b = assign[id(e[2])], assign[id(e[3])]
        return {"<": a < b, "<=": a <= b, ">": a > b, ">=": a >= b,
                "==": a == b, "!=": a != b}[e[1]]
    raise AnalysisError(f"mask expression {e[0]}")


def mask_values(m, acc=None):
    acc = acc if acc is not None else {}
    e = m.expr if isinstance(m, Mask) else m
    if e is None:
        return acc
    if e[0] in ("and",):
        mask_values(e[1], acc)
        mask_values(e[2], acc)
    elif e[0] == "not":
        mask_values(e[1], acc)
    elif e[0] == "cmp":
        acc[id(e[2])] = e[2]
        acc[id(e[3])] = e[3]
    return acc


class ConnTable:
    """self.t / self.t2f / self.t2e (possibly shifted)"""
    skv_isarray = True

    def __init__(self, kind, nrows, offset=None):
        self.kind, self.nrows = kind, nrows
        self.offset = offset if offset is not None else Poly()

    def skv_getattr(self, name):
        if name == "copy":
            return PyFunc(lambda a, k, n: self)
        if name == "shape":
            return (self.nrows, NT)
        raise Unsupported(f"connectivity attribute {name}")

    def skv_binop(self, op, other, reflected):
        if isinstance(op, ast.Add) and isinstance(other, (int, Fraction,
                                                          Poly)):
            return ConnTable(self.kind, self.nrows, self.offset + other)
        raise Unsupported("arithmetic on a connectivity table")

    def skv_getitem(self, ix):
        mask = None
        if isinstance(ix, tuple):
            if len(ix) != 2:
                raise Unsupported("connectivity index")
            ix, sel = ix
            if isinstance(sel, Mask):
                # keyed by object: two mask variables with equal
                # expressions stay distinct templates
                same = [k for k, v in MASKS.items()
                        if k.split("#")[0] == sel.name]
                hit = [k for k in same if MASKS[k] is sel]
                mask = hit[0] if hit else f"{sel.name}#{len(same)}"
                MASKS[mask] = sel
            elif isinstance(sel, slice) and sel == slice(None):
                mask = None
            else:
                mask = repr(sel)
        if isinstance(ix, list):
            return RowSel([IdxArr(self.kind, int(k), self.offset, mask)
                           for k in ix])
        if isinstance(ix, slice) and ix == slice(None):
            return RowSel([IdxArr(self.kind, k, self.offset, mask)
                           for k in range(self.nrows)])
        if isinstance(ix, Fraction):
            ix = int(ix)
        if isinstance(ix, int):
            if not 0 <= ix < self.nrows:
                raise Raised("IndexError")
            return IdxArr(self.kind, ix, self.offset, mask)
        raise Unsupported(f"connectivity row {ix!r}")


class RowSel:
    """``t[[a, b, c]]``: a child given as rows of the parent table"""
    skv_isarray = True

    def __init__(self, rows):
        self.rows = rows


class Child:
    def __init__(self, rows):
        self.rows = rows

    @property
    def mask(self):
        ms = {r.mask for r in self.rows}
        return next(iter(ms)) if len(ms) == 1 else tuple(sorted(
            str(m) for m in ms))


class ColPerm:
    """a permutation of the columns that is not the identity (e.g. the
    stable argsort of a tiled arange: blocks become interleaved)"""
    skv_isarray = True

    def __init__(self, what):
        self.what = what


class ChildList:
    skv_isarray = True

    def __init__(self, children, permuted=None):
        self.children = children
        self.permuted = permuted

    def skv_getitem(self, ix):
        if isinstance(ix, tuple) and len(ix) == 2 and ix[0] == slice(None) \
                and isinstance(ix[1], ColPerm):
            return ChildList(self.children, ix[1].what)
        raise Unsupported(f"index {ix!r} into the new connectivity")


class PointBlock:
    skv_isarray = True

    def __init__(self, kind, how):
        self.kind, self.how = kind, how


class PointTable:
    skv_isarray = True

    def __init__(self, blocks):
        self.blocks = blocks          # list of kind; 'old' first

    def skv_getitem(self, ix):
        if isinstance(ix, tuple) and len(ix) == 2 and isinstance(
                ix[1], IdxArr):
            return Val()
        raise Unsupported(f"index {ix!r} into the new point table")

    def offset_of(self, kind) -> Optional[Poly]:
        off = Poly()
        for b in self.blocks:
            if b == kind:
                return off
            off = off + (SZ if b == "old" else COUNT[b])
        return None


@dataclass
class TemplateRun:
    children: List[Child]
    points: Optional[PointTable]
    replace_kwargs: Dict[str, Any]
    facet_map: List[Tuple[int, int, int, int]] = field(default_factory=list)
    # (row r, parent local facet k, child local facet j, child block b)
    extra: Dict[str, Any] = field(default_factory=dict)


class PStub:
    skv_isarray = True

    def __init__(self, dim):
        self.dim = dim

    def skv_getattr(self, name):
        if name == "shape":
            return (self.dim, SZ)
        raise Unsupported(f"point attribute {name}")

    def skv_getitem(self, ix):
        if isinstance(ix, tuple) and len(ix) == 2 and isinstance(
                ix[0], slice) and isinstance(ix[1], EntTable):
            return Gathered(ix[1].kind)
        if isinstance(ix, tuple) and len(ix) == 2 and isinstance(
                ix[1], ConnTable) and ix[1].kind == "vertex":
            return Gathered("cell")
        raise Unsupported(f"point index {ix!r}")


class EntTable:
    """self.facets / self.edges: vertices of each entity"""
    skv_isarray = True

    def __init__(self, kind, nverts):
        self.kind, self.nverts = kind, nverts

    def skv_getattr(self, name):
        if name == "shape":
            return (self.nverts, COUNT[self.kind])
        raise Unsupported(f"entity table attribute {name}")


class Gathered:
    """p[:, table]: (dim, nverts, nentities)"""
    skv_isarray = True

    def __init__(self, kind):
        self.kind = kind

    def skv_getattr(self, name):
        if name == "mean":
            def mean(a, k, n):
                ax = k.get("axis", a[0] if a else None)
                if ax != 1:
                    raise Unsupported("mean over another axis")
                return PointBlock(self.kind, "mean")
            return PyFunc(mean)
        raise Unsupported(f"attribute {name} of gathered points")


class ScaledSum:
    skv_isarray = True

    def __init__(self, kind, factor):
        self.kind, self.factor = kind, factor

    def skv_binop(self, op, other, reflected):
        if isinstance(op, ast.Mult) and isinstance(other, (int, Fraction)):
            return ScaledSum(self.kind, self.factor * Fraction(other))
        raise Unsupported("arithmetic on summed points")


def nverts_of(rd: RefdomInfo, kind: str) -> int:
    if kind == "facet":
        return len(set(rd.facets[0]))
    if kind == "edge":
        return 2
    return rd.nnodes


def make_hook(rd: RefdomInfo, captured: dict):
    MASKS.clear()

    def hook(interp, name, args, kwargs, node):
        if name == "numpy.vstack":
            rows = []
            for r in args[0]:
                if isinstance(r, IdxArr):
                    rows.append(r)
                elif isinstance(r, Child):
                    rows.extend(r.rows)
                elif isinstance(r, RowSel):
                    rows.extend(r.rows)
                else:
                    raise Unsupported("vstack operand in a template", node)
            return Child(rows)
        if name == "numpy.hstack":
            seq = list(args[0])
            if seq and all(isinstance(s, (Child, ChildList, RowSel))
                           for s in seq):
                ch = []
                for s in seq:
                    if isinstance(s, ChildList):
                        ch.extend(s.children)
                    elif isinstance(s, RowSel):
                        ch.append(Child(s.rows))
                    else:
                        ch.append(s)
                return ChildList(ch)
            if seq and isinstance(seq[0], PStub):
                blocks = ["old"]
                for b in seq[1:]:
                    if isinstance(b, PointBlock):
                        blocks.append(b.kind)
                    elif isinstance(b, ScaledSum):
                        nv = nverts_of(rd, b.kind)
                        if b.factor * nv != 1:
                            captured.setdefault("bad_mean", []).append(
                                (b.kind, b.factor, nv))
                        blocks.append(b.kind)
                    else:
                        raise Unsupported("point block in hstack", node)
                return PointTable(blocks)
            return NotImplemented
        if name == "numpy.sum":
            v = args[0]
            if isinstance(v, Gathered) and kwargs.get("axis") == 1:
                return ScaledSum(v.kind, Fraction(1))
            if isinstance(v, Mask):
                return Poly.sym(f"n[{v.name}]")
            if isinstance(v, Val):
                return Val()          # a reduction of coordinate values
            return NotImplemented
        if name in ("numpy.sqrt", "numpy.abs", "numpy.square") and \
                isinstance(args[0], Val):
            return Val()
        if name == "numpy.linalg.norm" and isinstance(args[0], Val):
            return Val()
        if name == "numpy.max":
            v = args[0]
            if isinstance(v, ConnTable):
                if v.kind == "vertex":
                    # the largest vertex number in use is not the number
                    # of stored points (unused trailing points are an
                    # admissible state); facets / edges are derived from
                    # the cells, so every one of them is in use
                    return Poly.sym("maxv") + v.offset
                return COUNT[v.kind] - 1 + v.offset
            return NotImplemented
        if name == "numpy.arange":
            if len(args) == 1 and Poly.coerce(args[0]) == NT:
                return IdxArr("cell", 0)
            if len(args) == 1 and isinstance(args[0], Poly) and all(
                    s_.startswith("n[") for s_ in args[0].symbols()):
                return ARange(Poly(), args[0])
            return NotImplemented
        if name == "dataclasses.replace":
            captured.setdefault("replace", []).append((args, kwargs))
            base = args[0]
            attrs = dict(base.attrs) if isinstance(base, Obj) else {}
            for k, v in kwargs.items():
                attrs[k] = v
            attrs["t2f"] = ChildFacets()
            return Obj(base.cls if isinstance(base, Obj) else None, attrs)
        if name in ("numpy.zeros", "numpy.empty"):
            return Recorder(captured)
        if name == "numpy.sort":
            return args[0]
        return NotImplemented
    return hook


class ChildFacets:
    """m.t2f of the refined mesh: [j, ixB] -> child local facet j of the
    children in block B (ixB = arange(nt) + B * nt)"""
    def skv_getitem(self, ix):
        if isinstance(ix, tuple) and len(ix) == 2 and isinstance(
                ix[1], IdxArr) and ix[1].kind == "cell":
            off = ix[1].offset
            b = None
            for k in range(0, 16):
                if off == NT * k:
                    b = k
            if b is None:
                raise Unsupported("child block offset")
            return ("childfacet", int(ix[0]), b)
        raise Unsupported(f"index {ix!r} into the refined t2f")


class ARange:
    """np.arange(lo, hi) with symbolic bounds"""
    skv_isarray = True

    def __init__(self, lo, hi):
        self.lo, self.hi = Poly.coerce(lo), Poly.coerce(hi)

    def skv_getattr(self, name):
        if name == "reshape":
            def rs(a, k, n):
                rows = a[0] if not isinstance(a[0], tuple) else a[0][0]
                return ("block", self.lo, self.hi, int(rows))
            return PyFunc(rs)
        raise Unsupported("arange." + name)

    def skv_binop(self, op, other, reflected):
        if isinstance(op, ast.Add) and isinstance(other, (int, Fraction,
                                                          Poly)):
            return ARange(self.lo + other, self.hi + other)
        raise Unsupported("arithmetic on arange")


class Recorder:
    skv_isarray = True

    def __init__(self, captured):
        self.captured = captured
        self.rows = {}

    def skv_setitem(self, ix, v):
        self.captured.setdefault("stores", []).append((ix, v))
        if isinstance(ix, int):
            self.rows[ix] = v

    def skv_getitem(self, ix):
        if isinstance(ix, int) and ix in self.rows:
            return self.rows[ix]
        return ("recorded", ix)

    def skv_binop(self, op, other, reflected):
        return self


def mesh_obj(model: Model, cls, rd: RefdomInfo, tags=True):
    attrs = {
        "doflocs": PStub(rd.dim), "p": PStub(rd.dim),
        "t": ConnTable("vertex", rd.nnodes),
        "t2f": ConnTable("facet", rd.nfacets),
        "facets": EntTable("facet", nverts_of(rd, "facet")),
        "_boundaries": {} if tags else None,
        "_subdomains": None,
    }
    if rd.edges:
        attrs["t2e"] = ConnTable("edge", rd.nedges)
        attrs["edges"] = EntTable("edge", 2)
    return Obj(cls, attrs)


# ----------------------------------------------------------------------
# geometry on the reference cell

def entity_point(rd: RefdomInfo, kind: str, k: int):
    if kind == "vertex":
        return tuple(rd.p[k])
    if kind == "cell":
        vs = rd.p
    elif kind == "facet":
        vs = [rd.p[v] for v in dict.fromkeys(rd.facets[k])]
    elif kind == "edge":
        table = rd.edges if rd.edges else rd.facets
        vs = [rd.p[v] for v in table[k]]
    else:
        raise AnalysisError(f"entity kind {kind}")
    return tuple(sum(v[d] for v in vs) / len(vs) for d in range(rd.dim))


def resolve(rd: RefdomInfo, pts: Optional[PointTable], a: IdxArr):
    """exact reference point an index array designates, or a string saying
    why its offset does not address the block of its kind"""
    if a.kind == "vertex":
        if a.offset != Poly():
            return f"vertex index shifted by {a.offset}"
        return entity_point(rd, "vertex", a.k)
    if pts is None:
        return "no point table"
    want = pts.offset_of(a.kind)
    if want is None:
        return f"no new points of kind {a.kind} were created"
    if a.offset != want:
        return (f"{a.kind} index shifted by {a.offset} but the {a.kind} "
                f"points start at {want}")
    return entity_point(rd, a.kind, a.k)


def simplex_volume(vs) -> Fraction:
    d = len(vs[0])
    m = [[vs[i + 1][k] - vs[0][k] for k in range(d)] for i in range(d)]
    return det(m) / Fraction(_fact(d))


def _fact(n):
    r = 1
    for i in range(2, n + 1):
        r *= i
    return r


def det(m) -> Fraction:
    n = len(m)
    if n == 1:
        return m[0][0]
    if n == 2:
        return m[0][0] * m[1][1] - m[0][1] * m[1][0]
    tot = Fraction(0)
    for j in range(n):
        minor = [[m[i][k] for k in range(n) if k != j] for i in range(1, n)]
        tot += (-1) ** j * m[0][j] * det(minor)
    return tot


def inside_ref(rd: RefdomInfo, pt) -> bool:
    if rd.name in ("RefTri", "RefTet", "RefLine"):
        return all(x >= 0 for x in pt) and sum(pt) <= 1
    if rd.name in ("RefQuad", "RefHex"):
        return all(0 <= x <= 1 for x in pt)
    if rd.name == "RefWedge":
        return pt[0] >= 0 and pt[1] >= 0 and pt[0] + pt[1] <= 1 and \
            0 <= pt[2] <= 1
    return False


def ref_volume(rd: RefdomInfo) -> Fraction:
    return {"RefLine": Fraction(1), "RefTri": Fraction(1, 2),
            "RefTet": Fraction(1, 6), "RefQuad": Fraction(1),
            "RefHex": Fraction(1), "RefWedge": Fraction(1, 2)}[rd.name]


# ----------------------------------------------------------------------
# exact separating-axis test for convex polytopes given by their vertices

def _cross(a, b):
    return (a[1] * b[2] - a[2] * b[1], a[2] * b[0] - a[0] * b[2],
            a[0] * b[1] - a[1] * b[0])


def _axes(A, B):
    d = len(A[0])
    dirs = lambda P: [tuple(q[k] - p[k] for k in range(d))  # noqa: E731
                      for p, q in combinations(P, 2)]
    dA, dB = dirs(A), dirs(B)
    if d == 1:
        return [(Fraction(1),)]
    if d == 2:
        return [(v[1], -v[0]) for v in dA + dB]
    out = []
    for P in (dA, dB):
        for u, v in combinations(P, 2):
            out.append(_cross(u, v))
    for u in dA:
        for v in dB:
            out.append(_cross(u, v))
    return out


def interiors_overlap(A, B) -> bool:
    """True iff the convex hulls of the point sets A and B have
    intersecting interiors (separating axis theorem, exact)."""
    d = len(A[0])
    for n in _axes(A, B):
        if all(x == 0 for x in n):
            continue
        pa = [sum(n[k] * p[k] for k in range(d)) for p in A]
        pb = [sum(n[k] * p[k] for k in range(d)) for p in B]
        if max(pa) <= min(pb) or max(pb) <= min(pa):
            return False
    return True


def first_overlap(cells):
    for (i, a), (j, b) in combinations(list(enumerate(cells)), 2):
        if interiors_overlap(a, b):
            return i, j
    return None
