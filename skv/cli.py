"""Command line: ``check <ID|all> [--tier quick|thorough] [--replay PATH]``.

Exit 0: every obligation of the property's rules holds on /repo's current
source (listed known findings are printed as KNOWN-FINDING lines).
Exit 1: a VIOLATION line was printed.  Exit 2: ANALYSIS-ERROR (an anchor is
missing or a construct is outside an engine's grammar) - never a verdict.
"""
from __future__ import annotations

import argparse
import importlib
import json
import os
import sys
import traceback

HERE = os.path.dirname(os.path.abspath(__file__))
sys.path.insert(0, os.path.dirname(HERE))

from skv.model import Model, AnalysisError  # noqa: E402
from skv.report import Report, finish, VERIF  # noqa: E402

ALL = ["C01", "C02", "C03", "C04", "C05", "C07", "C08", "C09", "C10", "C11",
       "C12", "C13", "C14", "C15", "C16", "C17", "C18", "C19", "C20"]


def run_one(pid: str, tier: str, model: Model = None) -> int:
    try:
        mod = importlib.import_module(f"skv.props.{pid.lower()}")
    except ModuleNotFoundError:
        print(f"ANALYSIS-ERROR property={pid}: no checker implemented")
        return 2
    print(f"== {pid} ({tier}) ==")
    rep = Report(pid, tier)
    try:
        model = model or Model()
        rep.units("modules", len(model.modules))
        mod.run(model, rep, tier)
        if tier == "thorough" and hasattr(mod, "thorough"):
            mod.thorough(model, rep)
        if tier == "thorough":
            from skv.selftest import self_validate
            self_validate(pid, mod, model, rep)
        return finish(
            rep, mod.LEVEL, mod.EXPLANATION, mod.TRUSTED, mod.ASSUMPTIONS,
            checker_cmd=f"{VERIF}/check {pid} --tier {tier}",
            seed=int(os.environ.get("VERIF_SEED", "0") or 0))
    except AnalysisError as e:
        # a definite violation established before the analysis had to stop
        # is still a violation: report it (exit 1); otherwise fail closed
        from skv.report import load_known
        open_keys = {k["key"] for k in load_known().get("open", [])
                     if k.get("property") == pid}
        if any(f.key() not in open_keys for f in rep.findings):
            rep.note(f"analysis incomplete, stopped at: {e}")
            rep.extra["exhaustive"] = False
            print(f"ANALYSIS-ERROR property={pid}: {e} (after violations "
                  f"had been established; reporting those)")
            return finish(
                rep, "other", mod.EXPLANATION, mod.TRUSTED, mod.ASSUMPTIONS,
                checker_cmd=f"{VERIF}/check {pid} --tier {tier}",
                seed=int(os.environ.get("VERIF_SEED", "0") or 0))
        print(f"ANALYSIS-ERROR property={pid}: {e}")
        return 2
    except Exception:
        traceback.print_exc()
        print(f"ANALYSIS-ERROR property={pid}: internal error in the checker")
        return 2


def main(argv=None) -> int:
    ap = argparse.ArgumentParser()
    ap.add_argument("pid")
    ap.add_argument("--tier", default=os.environ.get("VERIF_TIER", "quick"),
                    choices=["quick", "thorough"])
    ap.add_argument("--replay", default=None,
                    help="a violations file written by an earlier run; the "
                         "check is re-run on the current tree and the listed "
                         "constructs are compared")
    a = ap.parse_args(argv)
    if a.replay:
        with open(a.replay) as fh:
            old = json.load(fh)
        print("replaying", a.replay, "->", len(old.get("violations", [])),
              "violation(s) recorded earlier:")
        for v in old.get("violations", []):
            print("  ", v["key"], "-", v["message"])
    if a.pid.lower() == "all":
        model = None
        try:
            model = Model()
        except AnalysisError as e:
            print(f"ANALYSIS-ERROR: {e}")
            return 2
        worst = 0
        for pid in ALL:
            worst = max(worst, run_one(pid, a.tier, model))
        return worst
    return run_one(a.pid.upper(), a.tier)


if __name__ == "__main__":
    sys.exit(main())
