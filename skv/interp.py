"""Engine B (translation part): syntax-directed evaluation of small source
fragments in the abstract domain of exact polynomials / rational functions.

This is *not* execution of repository code: no module of the repository (or
numpy) is imported, values are polynomials over Q in named symbols, branches
are only ever selected by comparing literals / enumerated integers, loops only
run over ``range`` of concrete integers, and anything outside the small
grammar raises :class:`Unsupported` (reported and counted by the caller).
"""
from __future__ import annotations

import ast
import math
from fractions import Fraction
from typing import Any, Callable, Dict, List, Optional

from .model import ClassInfo, FuncInfo, Model, ModuleInfo, src
from .poly import Poly, Rat, is_scalar


class Unsupported(Exception):
    def __init__(self, msg, node: ast.AST = None):
        self.node = node
        line = getattr(node, "lineno", None)
        super().__init__(f"{msg}" + (f" (line {line}: {src(node)[:60]})"
                                     if node is not None else ""))


class Raised(Exception):
    """The interpreted fragment reached a ``raise`` (or an error helper)."""
    def __init__(self, what: str):
        super().__init__(what)
        self.what = what


_LOCALS_CACHE: Dict[int, frozenset] = {}


def _local_stores(fnode) -> frozenset:
    """names bound by assignment somewhere in the function body (its
    locals), nested functions excluded"""
    k = id(fnode)
    if k not in _LOCALS_CACHE:
        out = set()
        glob = set()
        stack = list(fnode.body)
        while stack:
            n = stack.pop()
            if isinstance(n, (ast.FunctionDef, ast.Lambda, ast.ClassDef)):
                if isinstance(n, ast.FunctionDef):
                    out.add(n.name)
                continue
            if isinstance(n, (ast.Global, ast.Nonlocal)):
                glob |= set(n.names)
            if isinstance(n, ast.Name) and isinstance(n.ctx, ast.Store):
                out.add(n.id)
            if isinstance(n, (ast.ListComp, ast.SetComp, ast.DictComp,
                              ast.GeneratorExp)):
                continue
            stack.extend(ast.iter_child_nodes(n))
        _LOCALS_CACHE[k] = frozenset(out - glob)
    return _LOCALS_CACHE[k]


class _Return(Exception):
    def __init__(self, v):
        self.v = v


class _Break(Exception):
    pass


class _Continue(Exception):
    pass


class PtsDim:
    """Marker for 'the extent of the point/cell axes' in a shape tuple."""
    def __repr__(self):
        return "PTS"


PTS = PtsDim()


class AnyShape(tuple):
    """Shape of a value whose (point/cell) axes are not materialised: every
    integer index is the marker PTS."""
    def __new__(cls, n=1):
        return super().__new__(cls, (PTS,) * n)

    def __getitem__(self, k):
        if isinstance(k, slice):
            return AnyShape(len(self))
        return PTS

    def __radd__(self, o):
        return tuple(o) + tuple(self)

    def __add__(self, o):
        return tuple(self) + tuple(o)


class Sqrt:
    """sqrt of a polynomial that is not a perfect rational square."""
    def __init__(self, rad):
        self.rad = rad

    def __eq__(self, o):
        return isinstance(o, Sqrt) and self.rad == o.rad

    def __hash__(self):
        return 1

    def __repr__(self):
        return f"sqrt({self.rad})"


class Approx:
    """Marker mixed into evaluation when an irrational constant was folded
    through floating point (obligations become 'approximate')."""
    used = False


class SymInt(Poly):
    """An integer extent that is symbolic in arithmetic (a polynomial
    symbol) but has a representative concrete value for loop unrolling."""
    __slots__ = ("value",)

    def __init__(self, name: str, value: int):
        super().__init__({((name, 1),): Fraction(1)})
        self.value = value


class Arr:
    """Dense array of scalars (nested lists).  Axes over points/cells are
    never materialised: a 'point-shaped' array is a scalar here."""

    def __init__(self, data):
        self.data = data

    @property
    def shape(self):
        s = []
        d = self.data
        while isinstance(d, list):
            s.append(len(d))
            d = d[0] if d else None
        return tuple(s)

    def map(self, f):
        def rec(d):
            return [rec(x) for x in d] if isinstance(d, list) else f(d)
        return Arr(rec(self.data))

    def flat(self):
        out = []

        def rec(d):
            if isinstance(d, list):
                for x in d:
                    rec(x)
            else:
                out.append(d)
        rec(self.data)
        return out

    @staticmethod
    def zip(a, b, f):
        def rec(x, y):
            if isinstance(x, list) and isinstance(y, list):
                if len(x) != len(y):
                    if len(y) == 1:
                        return [rec(p, y[0]) for p in x]
                    if len(x) == 1:
                        return [rec(x[0], q) for q in y]
                    raise Unsupported(f"shape mismatch {len(x)} vs {len(y)}")
                return [rec(p, q) for p, q in zip(x, y)]
            if isinstance(x, list):
                return [rec(p, y) for p in x]
            if isinstance(y, list):
                return [rec(x, q) for q in y]
            return f(x, y)
        return Arr(rec(a.data if isinstance(a, Arr) else a,
                       b.data if isinstance(b, Arr) else b))

    def __getitem__(self, ix):
        d = self.data
        if not isinstance(ix, tuple):
            ix = (ix,)
        return _index_nested(d, list(ix))

    def transpose(self):
        sh = self.shape
        if len(sh) == 1:
            return self
        if len(sh) != 2:
            raise Unsupported("transpose of >2-D array")
        return Arr([[self.data[i][j] for i in range(sh[0])]
                    for j in range(sh[1])])

    def __eq__(self, o):
        return isinstance(o, Arr) and self.shape == o.shape and \
            all(_seq(a, b) for a, b in zip(self.flat(), o.flat()))

    def __hash__(self):
        return 2

    def __repr__(self):
        return f"Arr({self.data})"


def _seq(a, b) -> bool:
    try:
        return bool(a == b)
    except Exception:
        return False


def _index_nested(d, ix):
    if not ix:
        return Arr(d) if isinstance(d, list) else d
    i, rest = ix[0], ix[1:]
    if i is Ellipsis:
        return _index_nested(d, rest)
    if not isinstance(d, list):
        # indexing into the (unmaterialised) point axes of a scalar
        if isinstance(i, slice) or i is None:
            return _index_nested(d, rest)
        raise Unsupported("integer index into point axis")
    if isinstance(i, slice):
        sub = d[i]
        out = [_index_nested(x, list(rest)) for x in sub]
        return Arr([o.data if isinstance(o, Arr) else o for o in out])
    if i is None:
        return _index_nested(d, rest)
    if isinstance(i, Fraction) and i.denominator == 1:
        i = int(i)
    if not isinstance(i, int):
        raise Unsupported(f"non-constant index {i!r}")
    return _index_nested(d[i], rest)


NUMPY_SCALAR_TYPES = frozenset(
    ["integer", "signedinteger", "unsignedinteger", "floating", "number",
     "generic", "bool_", "inexact", "complexfloating", "intp", "uintp",
     "int_", "float_", "complex_", "double", "single", "longlong"]
    + [f"{k}{b}" for k in ("int", "uint") for b in (8, 16, 32, 64)]
    + ["float16", "float32", "float64", "complex64", "complex128"])


class SymArr:
    """Symbolic array: indexing with constant integers yields the symbol
    ``name[i,j]``; trailing point/cell axes are not materialised."""

    def __init__(self, name: str, ndim: int, prefix=(), shape=None):
        self.name, self.ndim, self.prefix = name, ndim, tuple(prefix)
        self._shape = shape

    @property
    def shape(self):
        if self._shape is not None:
            return tuple(self._shape) + (PTS,)
        raise Unsupported(f"shape of symbolic array {self.name}")

    def __getitem__(self, ix):
        if not isinstance(ix, tuple):
            ix = (ix,)
        pre = list(self.prefix)
        for k in ix:
            if isinstance(k, Fraction) and k.denominator == 1:
                k = int(k)
            if isinstance(k, bool) or not isinstance(k, int):
                if len(pre) >= self.ndim and (isinstance(k, slice)
                                              or k is Ellipsis or k is None):
                    continue
                if isinstance(k, slice) and k == slice(None) \
                        and len(pre) >= self.ndim:
                    continue
                raise Unsupported(f"index {k!r} into symbolic {self.name}")
            pre.append(k)
        if len(pre) > self.ndim:
            raise Unsupported(f"too many indices into {self.name}")
        if len(pre) == self.ndim:
            return Poly.sym(f"{self.name}[{','.join(map(str, pre))}]")
        return SymArr(self.name, self.ndim, pre, self._shape)


class StoreArr:
    """Array allocated by ``np.empty/zeros`` and filled by indexed stores."""

    def __init__(self, fill=None, shape=None):
        self.cells: Dict[tuple, Any] = {}
        self.fill = fill
        self.shape = shape

    def _key(self, ix):
        if not isinstance(ix, tuple):
            ix = (ix,)
        key = []
        for k in ix:
            if isinstance(k, Fraction) and k.denominator == 1:
                k = int(k)
            if isinstance(k, slice) and k == slice(None):
                continue
            if k is Ellipsis:
                continue
            if isinstance(k, bool) or not isinstance(k, int):
                raise Unsupported(f"index {k!r} into store array")
            key.append(k)
        return tuple(key)

    def __setitem__(self, ix, v):
        self.cells[self._key(ix)] = v

    def __getitem__(self, ix):
        k = self._key(ix)
        if k in self.cells:
            return self.cells[k]
        sub = {c[len(k):]: v for c, v in self.cells.items()
               if c[:len(k)] == k}
        if sub:
            s = StoreArr(self.fill)
            s.cells = sub
            return s
        if self.fill is not None:
            return self.fill
        raise Unsupported(f"read of unset cell {k}")


class Obj:
    def __init__(self, cls: Optional[ClassInfo], attrs: Dict[str, Any] = None):
        self.cls = cls
        self.attrs = dict(attrs or {})


class Bound:
    def __init__(self, fn: FuncInfo, self_obj):
        self.fn, self.self_obj = fn, self_obj


class Lam:
    def __init__(self, node, env, module, defaults=()):
        self.node, self.env, self.module = node, env, module
        self.defaults = defaults      # evaluated at definition time


class Opaque:
    def __init__(self, tag="?"):
        self.tag = tag

    def __repr__(self):
        return f"Opaque({self.tag})"


def to_frac(v):
    if isinstance(v, bool):
        return v
    if isinstance(v, int):
        return v
    if isinstance(v, float):
        return Fraction(v) if v != int(v) else Fraction(int(v))
    return v


def lit_fraction(node: ast.Constant):
    """Exact rational of a numeric literal *as written* (0.1 -> 1/10)."""
    v = node.value
    if isinstance(v, bool):
        return v
    if isinstance(v, int):
        return v
    if isinstance(v, float):
        txt = getattr(node, "_text", None)
        if txt is None:
            txt = repr(v)
        try:
            return Fraction(txt.replace("_", ""))
        except Exception:
            return Fraction(v)
    return v


def binop(op, a, b, node=None):
    if hasattr(a, "skv_binop"):
        return a.skv_binop(op, b, False)
    if hasattr(b, "skv_binop"):
        return b.skv_binop(op, a, True)
    if isinstance(a, Arr) or isinstance(b, Arr):
        return Arr.zip(a, b, lambda x, y: binop(op, x, y, node))
    if isinstance(a, StoreArr) and is_scalar(b):
        r = StoreArr(a.fill, a.shape)
        r.cells = {k: binop(op, v, b, node) for k, v in a.cells.items()}
        return r
    if isinstance(a, (tuple, list)) and isinstance(b, (tuple, list)) \
            and isinstance(op, ast.Add):
        return type(a)(list(a) + list(b))
    if isinstance(a, (tuple, list)) and isinstance(b, int) \
            and isinstance(op, ast.Mult):
        return type(a)(list(a) * b)
    if isinstance(op, ast.Mult) and (
            (isinstance(a, (tuple, list)) and isinstance(b, Poly))
            or (isinstance(b, (tuple, list)) and isinstance(a, Poly))):
        # a sequence repeated a symbolic number of times
        seq, cnt = (a, b) if isinstance(a, (tuple, list)) else (b, a)
        return ("repeated", tuple(seq), cnt)
    if isinstance(a, str) and isinstance(b, str) and isinstance(op, ast.Add):
        return a + b
    if isinstance(a, float):
        a = to_frac(a)
    if isinstance(b, float):
        b = to_frac(b)
    if isinstance(a, bool):
        a = int(a)
    if isinstance(b, bool):
        b = int(b)
    if not (is_scalar(a) and is_scalar(b)):
        # 0 * anything array-like that we treat as point-shaped
        raise Unsupported(
            f"operands {type(a).__name__}, {type(b).__name__} for "
            f"{type(op).__name__}", node)
    try:
        if isinstance(op, ast.Add):
            return a + b
        if isinstance(op, ast.Sub):
            return a - b
        if isinstance(op, ast.Mult):
            return a * b
        if isinstance(op, ast.Div):
            if isinstance(a, int) and isinstance(b, int):
                return Fraction(a, b)
            r = a / b
            return r
        if isinstance(op, ast.FloorDiv):
            if isinstance(a, int) and isinstance(b, int):
                return a // b
            raise Unsupported("floor division of non-integers", node)
        if isinstance(op, ast.Mod):
            if isinstance(a, int) and isinstance(b, int):
                return a % b
            raise Unsupported("modulo of non-integers", node)
        if isinstance(op, ast.Pow):
            if isinstance(b, Fraction) and b.denominator == 1:
                b = int(b)
            if isinstance(b, Poly) and b.is_const():
                b = b.const_value()
                if b.denominator == 1:
                    b = int(b)
            if isinstance(b, int):
                if isinstance(a, int) and b < 0:
                    return Fraction(a) ** b
                return a ** b
            if isinstance(b, Fraction) and b == Fraction(1, 2):
                return fsqrt(a, node)
            raise Unsupported("non-integer power", node)
        if isinstance(op, ast.LShift) and isinstance(a, int) \
                and isinstance(b, int):
            return a << b
        if isinstance(op, ast.MatMult):
            raise Unsupported("matmul", node)
    except ZeroDivisionError:
        raise Unsupported("division by zero", node)
    raise Unsupported(f"operator {type(op).__name__}", node)


def fsqrt(a, node=None):
    if isinstance(a, Arr):
        return a.map(lambda v: fsqrt(v, node))
    if isinstance(a, Poly) and a.is_const():
        a = a.const_value()
    if isinstance(a, (int, Fraction)):
        f = Fraction(a)
        if f < 0:
            raise Unsupported("sqrt of negative", node)
        n, d = f.numerator, f.denominator
        rn, rd = math.isqrt(n), math.isqrt(d)
        if rn * rn == n and rd * rd == d:
            return Fraction(rn, rd)
        Approx.used = True
        return Fraction(math.sqrt(f))
    if isinstance(a, (Poly, Rat)):
        return Sqrt(a)
    raise Unsupported("sqrt of non-scalar", node)


class Interp:
    """Evaluate function bodies / expressions of one module symbolically."""

    MAX_DEPTH = 12

    def __init__(self, model: Model, attr_hook: Callable = None,
                 call_hook: Callable = None):
        self.model = model
        self.attr_hook = attr_hook      # (interp, obj, name, node) -> value
        self.call_hook = call_hook      # (interp, dotted, args, kw, node)
        self.depth = 0
        self.steps = 0
        self.skipped_guards = []
        self.trailing = 1       # number of unmaterialised trailing axes
        self.overrides = {}     # function qualname -> PyFunc (rule models)
        self.assume_positive = None   # predicate: symbolic counts > 0
        self.cls_stack = []

    # ------------------------------------------------------------------
    def call(self, fn: FuncInfo, args: List[Any], kwargs: Dict[str, Any] = None,
             self_obj=None):
        kwargs = dict(kwargs or {})
        node = fn.node
        a = node.args
        names = [x.arg for x in a.posonlyargs + a.args]
        env: Dict[str, Any] = {}
        env["#locals"] = _local_stores(node)
        pos = list(args)
        if self_obj is not None and not _is_static(node):
            pos = [self_obj] + pos
        if a.vararg:
            env[a.vararg.arg] = tuple(pos[len(names):])
            pos = pos[:len(names)]
        if len(pos) > len(names):
            raise Unsupported(f"too many arguments for {fn.short()}")
        for n, v in zip(names, pos):
            env[n] = v
        defaults = a.defaults
        dnames = names[len(names) - len(defaults):]
        for n in names[len(pos):]:
            if n in kwargs:
                env[n] = kwargs.pop(n)
            elif n in dnames:
                env[n] = self.eval(defaults[dnames.index(n)], {}, fn.module)
            else:
                raise Unsupported(f"missing argument {n} for {fn.short()}")
        for k, d in zip(a.kwonlyargs, a.kw_defaults):
            if k.arg in kwargs:
                env[k.arg] = kwargs.pop(k.arg)
            elif d is not None:
                env[k.arg] = self.eval(d, {}, fn.module)
        if a.kwarg:
            env[a.kwarg.arg] = kwargs
        elif kwargs:
            raise Unsupported(f"unexpected keyword {list(kwargs)}")
        self.cls_stack.append(fn.cls)
        try:
            return self.run_body(node.body, env, fn.module)
        finally:
            self.cls_stack.pop()

    def run_body(self, body, env, module: ModuleInfo):
        self.depth += 1
        if self.depth > self.MAX_DEPTH:
            self.depth -= 1
            raise Unsupported("call depth bound exceeded")
        if not hasattr(self, "_module_stack"):
            self._module_stack = []
        self._module_stack.append(module)
        try:
            self.exec_block(body, env, module)
        except _Return as r:
            return r.v
        finally:
            self.depth -= 1
            self._module_stack.pop()
        return None

    # ------------------------------------------------------------------
    def exec_block(self, body, env, module):
        for st in body:
            self.exec_stmt(st, env, module)

    def exec_stmt(self, st, env, module):
        self.steps += 1
        if self.steps > 2_000_000:
            raise Unsupported("step bound exceeded")
        if isinstance(st, ast.Return):
            raise _Return(None if st.value is None
                          else self.eval(st.value, env, module))
        if isinstance(st, ast.Assign):
            v = self.eval(st.value, env, module)
            for t in st.targets:
                self.assign(t, v, env, module)
            return
        if isinstance(st, ast.AnnAssign):
            if st.value is not None:
                self.assign(st.target, self.eval(st.value, env, module),
                            env, module)
            return
        if isinstance(st, ast.AugAssign):
            cur = self.eval(_load(st.target), env, module)
            v = binop(st.op, cur, self.eval(st.value, env, module), st)
            self.assign(st.target, v, env, module)
            return
        if isinstance(st, ast.If):
            try:
                c = self.eval(st.test, env, module)
                c = self.truth(c, st.test)
            except Unsupported:
                # a value-dependent guard whose only effect is an error exit:
                # the continuing path is what is analysed
                if not st.orelse and all(isinstance(b, ast.Raise)
                                         or _is_diagnostic(b)
                                         for b in st.body):
                    self.skipped_guards.append(st)
                    return
                raise
            self.exec_block(st.body if c else st.orelse, env, module)
            return
        if isinstance(st, ast.For):
            it = self.eval(st.iter, env, module)
            if isinstance(it, Arr):
                it = [it[k] for k in range(it.shape[0])]
            if isinstance(it, dict):
                it = list(it)
            if hasattr(it, "skv_iter"):
                it = it.skv_iter()
            if not isinstance(it, (list, tuple, range)):
                raise Unsupported("loop over non-concrete iterable", st)
            broke = False
            for v in it:
                self.assign(st.target, v, env, module)
                try:
                    self.exec_block(st.body, env, module)
                except _Continue:
                    continue
                except _Break:
                    broke = True
                    break
            if not broke:
                self.exec_block(st.orelse, env, module)
            return
        if isinstance(st, (ast.Import, ast.ImportFrom)):
            for local, (mod, attr) in self.model.import_target(
                    module, st).items():
                r = self.model.resolve_import(mod, attr)
                if r is None:
                    raise Unsupported(f"import of {mod}.{attr}", st)
                k, v = r
                env[local] = (self.eval(v[1], {}, v[0]) if k == "const"
                              else Bound(v, None) if k == "func"
                              else ClassRef(v) if k == "class"
                              else ModRef(v.name, v) if k == "module"
                              else ModRef(v, None))
            return
        if isinstance(st, ast.Continue):
            raise _Continue()
        if isinstance(st, ast.Break):
            raise _Break()
        if isinstance(st, ast.While):
            n = 0
            while self.truth(self.eval(st.test, env, module), st.test):
                n += 1
                if n > 10000:
                    raise Unsupported("while loop does not terminate on "
                                      "the abstract values", st)
                try:
                    self.exec_block(st.body, env, module)
                except _Continue:
                    continue
                except _Break:
                    break
            return
        if isinstance(st, ast.Expr):
            if isinstance(st.value, ast.Constant):
                return
            if _is_diagnostic(st):
                # diagnostics have no bearing on the analysed values
                return
            self.eval(st.value, env, module)
            return
        if isinstance(st, ast.Try):
            try:
                self.exec_block(st.body, env, module)
            except Raised as exc:
                if not st.handlers:
                    raise
                if st.handlers[0].name:
                    env[st.handlers[0].name] = ("exception", exc.what)
                self.exec_block(st.handlers[0].body, env, module)
            else:
                self.exec_block(st.orelse, env, module)
            finally:
                if st.finalbody:
                    self.exec_block(st.finalbody, env, module)
            return
        if isinstance(st, ast.Raise):
            raise Raised(src(st))
        if isinstance(st, ast.FunctionDef):
            env[st.name] = Closure(st, env, module)
            return
        if isinstance(st, ast.Pass):
            return
        if isinstance(st, ast.Assert):
            return
        if isinstance(st, (ast.Import, ast.ImportFrom)):
            return
        raise Unsupported(f"statement {type(st).__name__}", st)

    def truth(self, c, node):
        if isinstance(c, (bool, int)):
            return bool(c)
        if c is None:
            return False
        if isinstance(c, (tuple, list, str, dict)):
            return bool(c)
        if isinstance(c, Fraction):
            return c != 0
        raise Unsupported("branch on a non-literal condition", node)

    def assign(self, t, v, env, module):
        if isinstance(t, ast.Name):
            env[t.id] = v
            return
        if isinstance(t, (ast.Tuple, ast.List)):
            if isinstance(v, Arr):
                vals = [v[k] for k in range(v.shape[0])]
            elif isinstance(v, (tuple, list)):
                vals = list(v)
            elif isinstance(v, SymArr):
                vals = [v[k] for k in range(len(t.elts))]
            else:
                raise Unsupported("unpacking a non-sequence", t)
            if len(vals) != len(t.elts):
                raise Raised("ValueError: unpack arity mismatch")
            for e, x in zip(t.elts, vals):
                self.assign(e, x, env, module)
            return
        if isinstance(t, ast.Attribute):
            o = self.eval(t.value, env, module)
            if isinstance(o, Obj):
                o.attrs[t.attr] = v
                return
            raise Unsupported("attribute store on non-object", t)
        if isinstance(t, ast.Subscript):
            o = self.eval(t.value, env, module)
            ix = self.eval_index(t.slice, env, module)
            if hasattr(o, "skv_setitem"):
                o.skv_setitem(ix, v)
                return
            if isinstance(o, StoreArr):
                o[ix] = v
                return
            if isinstance(o, dict):
                o[ix] = v
                return
            if isinstance(o, list) and isinstance(ix, int):
                o[ix] = v
                return
            if isinstance(o, Arr):
                _store_nested(o, ix, v)
                return
            raise Unsupported("subscript store", t)
        raise Unsupported("assignment target", t)

    # ------------------------------------------------------------------
    def eval_index(self, s, env, module):
        if isinstance(s, ast.Tuple):
            return tuple(self.eval_index(e, env, module) for e in s.elts)
        if isinstance(s, ast.Slice):
            lo = None if s.lower is None else self.eval(s.lower, env, module)
            hi = None if s.upper is None else self.eval(s.upper, env, module)
            st = None if s.step is None else self.eval(s.step, env, module)
            return slice(lo, hi, st)
        v = self.eval(s, env, module)
        if isinstance(v, Fraction) and v.denominator == 1:
            v = int(v)
        return v

    def eval(self, e, env, module):  # noqa: C901
        if isinstance(e, ast.Constant):
            if isinstance(e.value, (int, float)) and \
                    not isinstance(e.value, bool):
                return lit_fraction(e)
            if e.value is Ellipsis:
                return Ellipsis
            return e.value
        if isinstance(e, ast.Name):
            if e.id in env:
                return env[e.id]
            loc = env.get("#locals") if hasattr(env, "get") else None
            if loc and e.id in loc:
                # a local of the running function read before any
                # assignment on this path
                raise Raised(f"UnboundLocalError: {e.id}")
            return self.global_name(e.id, module, e)
        if isinstance(e, ast.BinOp):
            return binop(e.op, self.eval(e.left, env, module),
                         self.eval(e.right, env, module), e)
        if isinstance(e, ast.UnaryOp):
            v = self.eval(e.operand, env, module)
            if isinstance(e.op, ast.USub):
                if hasattr(v, "skv_neg"):
                    return v.skv_neg()
                if isinstance(v, Arr):
                    return v.map(lambda x: -x)
                if is_scalar(v):
                    return -v
                raise Unsupported("negation", e)
            if isinstance(e.op, ast.UAdd):
                return v
            if isinstance(e.op, ast.Not):
                return not self.truth(v, e)
            if isinstance(e.op, ast.Invert) and hasattr(v, "skv_invert"):
                return v.skv_invert()
            raise Unsupported("unary operator", e)
        if isinstance(e, ast.Tuple):
            return tuple(self._elts(e.elts, env, module))
        if isinstance(e, ast.List):
            return list(self._elts(e.elts, env, module))
        if isinstance(e, ast.Dict):
            out = {}
            for k, v in zip(e.keys, e.values):
                if k is None:
                    d = self.eval(v, env, module)
                    if not isinstance(d, dict):
                        raise Unsupported("** of a non-dict", e)
                    out.update(d)
                else:
                    out[self.eval(k, env, module)] = self.eval(v, env, module)
            return out
        if isinstance(e, ast.Compare):
            left = self.eval(e.left, env, module)
            for op, r in zip(e.ops, e.comparators):
                right = self.eval(r, env, module)
                c = self.compare(op, left, right, e)
                if not isinstance(c, bool):
                    if len(e.ops) == 1:
                        return c        # symbolic comparison result
                    raise Unsupported("chained symbolic comparison", e)
                if not c:
                    return False
                left = right
            return True
        if isinstance(e, ast.BoolOp):
            if isinstance(e.op, ast.And):
                v = True
                for x in e.values:
                    v = self.eval(x, env, module)
                    if not self.truth(v, x):
                        return v
                return v
            v = False
            for x in e.values:
                v = self.eval(x, env, module)
                if self.truth(v, x):
                    return v
            return v
        if isinstance(e, ast.IfExp):
            c = self.truth(self.eval(e.test, env, module), e.test)
            return self.eval(e.body if c else e.orelse, env, module)
        if isinstance(e, ast.Subscript):
            o = self.eval(e.value, env, module)
            ix = self.eval_index(e.slice, env, module)
            return self.subscript(o, ix, e)
        if isinstance(e, ast.Attribute):
            if isinstance(e.value, ast.Call) and isinstance(
                    e.value.func, ast.Name) and e.value.func.id == "super" \
                    and "self" in env and isinstance(env["self"], Obj):
                obj = env["self"]
                start = self.cls_stack[-1] if self.cls_stack else None
                if e.value.args:
                    c0 = self.eval(e.value.args[0], env, module)
                    if isinstance(c0, ClassRef):
                        start = c0.cls
                if obj.cls is None or start is None:
                    raise Unsupported("super() without class context", e)
                mro = obj.cls.mro()
                if start not in mro:
                    raise Unsupported("super(): class not in the MRO", e)
                for c in mro[mro.index(start) + 1:]:
                    if e.attr in c.methods:
                        return Bound(c.methods[e.attr], obj)
                raise Unsupported(f"super().{e.attr} not found", e)
            o = self.eval(e.value, env, module)
            return self.getattr(o, e.attr, e, module)
        if isinstance(e, ast.Call):
            return self.eval_call(e, env, module)
        if isinstance(e, ast.Lambda):
            return Lam(e, env, module,
                       tuple(self.eval(d, env, module)
                             for d in e.args.defaults))
        if isinstance(e, ast.ListComp) or isinstance(e, ast.GeneratorExp):
            return self.comprehension(e, env, module)
        if isinstance(e, ast.DictComp):
            pairs = self.comprehension(
                ast.ListComp(elt=ast.Tuple(elts=[e.key, e.value],
                                           ctx=ast.Load()),
                             generators=e.generators), env, module)
            return dict(pairs)
        if isinstance(e, ast.JoinedStr):
            return Opaque("fstring")
        if isinstance(e, ast.Starred):
            raise Unsupported("starred expression", e)
        raise Unsupported(f"expression {type(e).__name__}", e)

    def _elts(self, elts, env, module):
        out = []
        for x in elts:
            if isinstance(x, ast.Starred):
                v = self.eval(x.value, env, module)
                if isinstance(v, Arr):
                    v = [v[k] for k in range(v.shape[0])]
                if hasattr(v, "skv_iter"):
                    v = v.skv_iter()
                out.extend(v)
            else:
                out.append(self.eval(x, env, module))
        return out

    def comprehension(self, e, env, module, _gi=0, _loc=None):
        if any(g.is_async for g in e.generators):
            raise Unsupported("async comprehension", e)
        if len(e.generators) > 1:
            return self._multi_comp(e, env, module)
        g = e.generators[0]
        it = self.eval(g.iter, env, module)
        if isinstance(it, Arr):
            it = [it[k] for k in range(it.shape[0])]
        if isinstance(it, dict):
            it = list(it)
        if hasattr(it, "skv_iter"):
            it = it.skv_iter()
        if not isinstance(it, (list, tuple, range)):
            raise Unsupported("comprehension over non-concrete iterable", e)
        out = []
        loc = dict(env)
        for v in it:
            self.assign(g.target, v, loc, module)
            if all(self.truth(self.eval(c, loc, module), c) for c in g.ifs):
                out.append(self.eval(e.elt, loc, module))
        return out

    def _multi_comp(self, e, env, module):
        out = []

        def rec(k, loc):
            if k == len(e.generators):
                out.append(self.eval(e.elt, loc, module))
                return
            g = e.generators[k]
            it = self.eval(g.iter, loc, module)
            if isinstance(it, Arr):
                it = [it[i] for i in range(it.shape[0])]
            if isinstance(it, dict):
                it = list(it)
            if hasattr(it, "skv_iter"):
                it = it.skv_iter()
            if not isinstance(it, (list, tuple, range)):
                raise Unsupported("comprehension over non-concrete "
                                  "iterable", e)
            for v in it:
                l2 = dict(loc)
                self.assign(g.target, v, l2, module)
                if all(self.truth(self.eval(c, l2, module), c)
                       for c in g.ifs):
                    rec(k + 1, l2)
        rec(0, dict(env))
        return out

    def compare(self, op, a, b, node):
        if isinstance(op, (ast.Is, ast.IsNot)) and (a is None or b is None):
            r = a is b
            return r if isinstance(op, ast.Is) else not r
        if hasattr(a, "skv_compare"):
            return a.skv_compare(op, b)
        if self.assume_positive is not None and isinstance(a, Poly) and \
                not a.is_const() and b == 0 and \
                isinstance(op, (ast.Gt, ast.GtE, ast.NotEq)) and \
                self.assume_positive(a):
            return True        # the branch with a non-empty count
        if isinstance(op, (ast.Is, ast.IsNot)) and (
                isinstance(a, Builtin) or isinstance(b, Builtin)):
            r = isinstance(a, Builtin) and isinstance(b, Builtin) and \
                a.name == b.name
            return r if isinstance(op, ast.Is) else not r
        if isinstance(op, (ast.Is, ast.IsNot)) and isinstance(
                a, ClassRef) and isinstance(b, ClassRef):
            r = a.cls is b.cls
            return r if isinstance(op, ast.Is) else not r
        if isinstance(op, (ast.Is, ast.IsNot)):
            r = (a is b) or (a is None and b is None)
            if (isinstance(a, Opaque) and a.tag != "type") or \
                    (isinstance(b, Opaque) and b.tag != "type"):
                raise Unsupported("identity test on opaque value", node)
            return r if isinstance(op, ast.Is) else not r
        if isinstance(op, (ast.In, ast.NotIn)):
            if isinstance(b, (list, tuple, dict, str)):
                r = a in b
                return r if isinstance(op, ast.In) else not r
            raise Unsupported("membership test", node)
        if isinstance(a, SymInt):
            a = a.value
        if isinstance(b, SymInt):
            b = b.value
        if isinstance(a, Poly) and a.is_const():
            a = a.const_value()
        if isinstance(b, Poly) and b.is_const():
            b = b.const_value()
        if (a is None or b is None) and isinstance(op, (ast.Eq, ast.NotEq)):
            r = (a is None and b is None)
            return r if isinstance(op, ast.Eq) else not r
        ok = (int, Fraction, str, bool)
        if isinstance(a, Obj) or isinstance(b, Obj):
            if isinstance(op, ast.Eq):
                return a is b
            if isinstance(op, ast.NotEq):
                return a is not b
        if isinstance(a, ClassRef) and isinstance(b, ClassRef):
            if isinstance(op, ast.Eq):
                return a.cls is b.cls
            if isinstance(op, ast.NotEq):
                return a.cls is not b.cls
        if not (isinstance(a, ok) and isinstance(b, ok)) and \
                not (isinstance(a, tuple) and isinstance(b, tuple)):
            raise Unsupported("comparison of non-literals", node)
        if isinstance(op, ast.Eq):
            return a == b
        if isinstance(op, ast.NotEq):
            return a != b
        if isinstance(op, ast.Lt):
            return a < b
        if isinstance(op, ast.LtE):
            return a <= b
        if isinstance(op, ast.Gt):
            return a > b
        if isinstance(op, ast.GtE):
            return a >= b
        raise Unsupported("comparison operator", node)

    def subscript(self, o, ix, node):
        if hasattr(o, "skv_getitem"):
            return o.skv_getitem(ix)
        if isinstance(o, Opaque) and getattr(self, "lenient_attrs", False):
            return Opaque(o.tag + "[..]")
        if isinstance(o, (Arr, SymArr, StoreArr)):
            return o[ix]
        if isinstance(o, range):
            o = list(o)
        if isinstance(o, str) and o != "<str>":
            if isinstance(ix, Fraction) and ix.denominator == 1:
                ix = int(ix)
            if isinstance(ix, (int, slice)):
                try:
                    return o[ix]
                except IndexError:
                    raise Raised("IndexError")
        if isinstance(o, (list, tuple)):
            if isinstance(ix, (int, slice)):
                try:
                    return o[ix]
                except IndexError:
                    raise Raised("IndexError")
            raise Unsupported("sequence index", node)
        if isinstance(o, dict):
            if ix in o:
                return o[ix]
            raise Raised("KeyError")
        if is_scalar(o):
            # scalar standing for a point-shaped array
            if isinstance(ix, tuple):
                if all(isinstance(k, slice) or k is None or k is Ellipsis
                       for k in ix):
                    return o
            elif isinstance(ix, slice) or ix is None or ix is Ellipsis:
                return o
        raise Unsupported(f"subscript of {type(o).__name__}", node)

    # ------------------------------------------------------------------
    def global_name(self, name, module, node):
        r = self.model.resolve(module, name)
        if r is None:
            if name in ("range", "len", "int", "float", "abs", "tuple",
                        "list", "enumerate", "zip", "sum", "max", "min",
                        "isinstance", "hasattr", "str", "super", "slice",
                        "dict", "set", "sorted", "reversed", "bool",
                        "getattr", "callable", "type", "map", "eval"):
                return Builtin(name)
            if name in ("True", "False", "None"):
                return {"True": True, "False": False, "None": None}[name]
            if name in ("NotImplementedError", "ValueError", "Exception"):
                return Opaque(name)
            raise Unsupported(f"unresolved name {name}", node)
        k, v = r
        if k == "const":
            m, expr = v
            return self.eval(expr, {}, m)
        if k == "func":
            return Bound(v, None)
        if k == "class":
            return ClassRef(v)
        if k == "module":
            return ModRef(v.name, v)
        if k == "external":
            return ModRef(v, None)
        raise Unsupported(f"name {name}", node)

    def getattr(self, o, name, node, module):
        if self.attr_hook is not None:
            r = self.attr_hook(self, o, name, node)
            if r is not NotImplemented:
                return r
        if hasattr(o, "skv_getattr"):
            return o.skv_getattr(name)
        if isinstance(o, Obj):
            if name in o.attrs:
                return o.attrs[name]
            if o.cls is not None:
                return self.class_attr(o.cls, name, o, node)
            raise Unsupported(f"attribute {name} of opaque object", node)
        if isinstance(o, ClassRef):
            return self.class_attr(o.cls, name, None, node)
        if isinstance(o, ModRef):
            if o.info is not None:
                return self.global_name(name, o.info, node)
            return ModRef(f"{o.name}.{name}", None)
        if isinstance(o, (Arr, SymArr)):
            if name == "shape":
                if isinstance(o, Arr):
                    return tuple(o.shape) + (PTS,) * self.trailing
                return o.shape
            if name == "T":
                if isinstance(o, Arr):
                    return o.transpose()
            if name in ("flatten", "copy", "astype"):
                return Builtin("arr." + name, o)
        if isinstance(o, StoreArr) and name == "shape" and o.shape:
            return o.shape
        if is_scalar(o) and name == "shape":
            return AnyShape(self.trailing)
        if is_scalar(o) and name == "T":
            return o
        if isinstance(o, Opaque):
            return Opaque(o.tag + "." + name)
        if isinstance(o, str) and name == "format":
            def fmt(a, k, n, o=o):
                def plain(v):
                    if isinstance(v, Poly) and v.is_const():
                        v = v.const_value()
                    if isinstance(v, Fraction) and v.denominator == 1:
                        v = int(v)
                    return v
                vals = [plain(v) for v in a]
                if not k and all(isinstance(v, (int, str)) and
                                 not isinstance(v, bool) for v in vals):
                    try:
                        return o.format(*vals)
                    except (IndexError, KeyError, ValueError):
                        raise Raised("str.format")
                return "<str>"
            return PyFunc(fmt)
        if isinstance(o, str) and o != "<str>" and name in (
                "startswith", "endswith", "replace", "split", "upper",
                "lower", "strip", "lstrip", "rstrip", "find", "count",
                "removeprefix", "removesuffix", "partition", "rpartition"):
            def smeth(a, k, n, o=o, name=name):
                if all(isinstance(x, (str, int, tuple)) for x in a) and \
                        all(isinstance(x, (str, int, tuple))
                            for x in k.values()):
                    try:
                        return getattr(o, name)(*a, **k)
                    except (TypeError, ValueError):
                        raise Raised(f"str.{name}")
                raise Unsupported(f"str.{name} with non-literal arguments",
                                  n)
            return PyFunc(smeth)
        if isinstance(o, str) and name in ("join", "upper", "lower",
                                           "strip"):
            return PyFunc(lambda a, k, n: "<str>")
        if isinstance(o, dict) and name in ("get", "items", "keys", "values"):
            return Builtin("dict." + name, o)
        if isinstance(o, dict) and name == "copy":
            # dict.copy() returns a plain dict, also for subclasses that do
            # not override it
            return PyFunc(lambda a, k, n, o=o: dict(o))
        if isinstance(o, dict) and name == "pop":
            def dpop(a, k, n, o=o):
                if a[0] in o:
                    return o.pop(a[0])
                if len(a) > 1:
                    return a[1]
                raise Raised(f"KeyError: {a[0]!r}")
            return PyFunc(dpop)
        if isinstance(o, dict) and name == "setdefault":
            return PyFunc(lambda a, k, n, o=o: o.setdefault(
                a[0], a[1] if len(a) > 1 else None))
        if isinstance(o, dict) and name == "update":
            def dupd(a, k, n, o=o):
                for x in a:
                    o.update(x)
                o.update(k)
            return PyFunc(dupd)
        if isinstance(o, list) and name in ("append", "extend"):
            return Builtin("list." + name, o)
        if isinstance(o, (list, tuple)) and name == "index":
            def index(a, k, n, o=o):
                for pos, v in enumerate(o):
                    if _seq(v, a[0]):
                        return pos
                raise Raised("ValueError: not in list")
            return PyFunc(index)
        if isinstance(o, (list, tuple)) and name == "count":
            return PyFunc(lambda a, k, n, o=o: sum(1 for v in o
                                                   if _seq(v, a[0])))
        if o is None:
            raise Raised(f"AttributeError: 'NoneType' object has no "
                         f"attribute '{name}'")
        if isinstance(o, (Poly, Rat)) and name == "copy":
            # a symbolic value stands for an array of such values: its copy
            # has the same entries
            return PyFunc(lambda a, k, n, o=o: o)
        raise Unsupported(f"attribute .{name} of {type(o).__name__}", node)

    def class_attr(self, cls: ClassInfo, name, obj, node):
        for c in cls.mro():
            if name in c.methods:
                fn = c.methods[name]
                decos = [src(d) for d in fn.node.decorator_list]
                if "property" in decos and obj is not None:
                    return self.call(fn, [], {}, self_obj=obj)
                if "classmethod" in decos:
                    return Bound(fn, ClassRef(cls))
                if "staticmethod" in decos:
                    return Bound(fn, None)
                return Bound(fn, obj)
            if name in c.attrs:
                return self.eval(c.attrs[name], _class_env(self, c), c.module)
        if getattr(self, "lenient_attrs", False) and obj is not None:
            # the rule's stub object does not model this attribute: carry
            # an opaque value, which can never equal an expected result
            return Opaque(f"{cls.name}.{name}")
        raise Unsupported(f"attribute {name} not found on {cls.name}", node)

    # ------------------------------------------------------------------
    def eval_call(self, e: ast.Call, env, module):
        f = self.eval_callee(e.func, env, module)
        args = self._elts(e.args, env, module)
        kwargs = {}
        for k in e.keywords:
            if k.arg is None:
                kv = self.eval(k.value, env, module)
                if not isinstance(kv, dict):
                    raise Unsupported("**kwargs of non-dict", e)
                kwargs.update(kv)
            else:
                kwargs[k.arg] = self.eval(k.value, env, module)
        return self.apply(f, args, kwargs, e, env, module)

    def eval_callee(self, f, env, module):
        if isinstance(f, ast.Call) and isinstance(f.func, ast.Name) \
                and f.func.id == "super" and "self" in env:
            return SuperRef(env["self"], env.get("__class__"))
        return self.eval(f, env, module)

    def apply(self, f, args, kwargs, node, env=None, module=None):
        if isinstance(f, Bound):
            fn = f.fn
            if fn.qualname in self.overrides:
                return self.overrides[fn.qualname].fn(args, kwargs, node)
            if fn.name == "_index_error":
                raise Raised("_index_error")
            return self.call(fn, args, kwargs, self_obj=f.self_obj)
        if isinstance(f, Lam):
            a = f.node.args
            names = [x.arg for x in a.args]
            loc = _ChainEnv(f.env)
            nd = len(f.defaults)
            if not (len(names) - nd <= len(args) <= len(names)) or kwargs:
                raise Unsupported("lambda arity", node)
            if nd:
                loc.update(zip(names[len(names) - nd:], f.defaults))
            loc.update(zip(names, args))
            return self.eval(f.node.body, loc, f.module)
        if isinstance(f, Closure):
            a = f.node.args
            names = [x.arg for x in a.posonlyargs + a.args]
            loc = _ChainEnv(f.env)
            loc["#locals"] = _local_stores(f.node)
            args = list(args)
            kwargs = dict(kwargs or {})
            if len(args) > len(names) and a.vararg is None:
                raise Unsupported("closure call arity", node)
            loc.update(zip(names, args))
            if a.vararg is not None:
                loc[a.vararg.arg] = tuple(args[len(names):])
            dflt = a.defaults
            dnames = names[len(names) - len(dflt):]
            for nme in names[len(args):]:
                if nme in kwargs:
                    loc[nme] = kwargs.pop(nme)
                elif nme in dnames:
                    loc[nme] = self.eval(dflt[dnames.index(nme)], f.env,
                                         f.module)
                else:
                    raise Unsupported("closure call arity", node)
            for k_, d_ in zip(a.kwonlyargs, a.kw_defaults):
                if k_.arg in kwargs:
                    loc[k_.arg] = kwargs.pop(k_.arg)
                elif d_ is not None:
                    loc[k_.arg] = self.eval(d_, f.env, f.module)
                else:
                    raise Unsupported("closure keyword argument", node)
            if a.kwarg is not None:
                loc[a.kwarg.arg] = kwargs
            elif kwargs:
                raise Unsupported("closure call arity", node)
            return self.run_body(f.node.body, loc, f.module)
        if isinstance(f, Opaque) and getattr(self, "lenient_attrs", False):
            return Opaque(f.tag + "(..)")
        if isinstance(f, ModRef):
            return self.external(f.name, args, kwargs, node)
        if isinstance(f, PyFunc):
            return f.fn(args, kwargs, node)
        if hasattr(f, "skv_call"):
            return f.skv_call(args, kwargs, node)
        if isinstance(f, Builtin):
            return self.builtin(f, args, kwargs, node)
        if isinstance(f, ClassRef):
            if self.call_hook is not None:
                r = self.call_hook(self, f.cls.qualname, args, kwargs, node)
                if r is not NotImplemented:
                    return r
            raise Unsupported(f"construction of {f.cls.name}", node)
        raise Unsupported(f"call of {type(f).__name__}", node)

    def _cur_module(self, node):
        return getattr(self, "_module_stack", [None])[-1]

    def builtin(self, f, args, kwargs, node):
        n = f.name
        if n == "range":
            if len(args) == 1 and isinstance(args[0], Poly) and \
                    not args[0].is_const() and \
                    getattr(self, "symbolic_range", None) is not None:
                # an index range of symbolic extent used as an array
                return self.symbolic_range(args[0])
            ints = []
            for a in args:
                if isinstance(a, SymInt):
                    a = a.value
                if isinstance(a, Fraction) and a.denominator == 1:
                    a = int(a)
                if not isinstance(a, int):
                    raise Unsupported("range over non-integer", node)
                ints.append(a)
            return range(*ints)
        if n == "len":
            v = args[0]
            if hasattr(v, "skv_len"):
                return v.skv_len()
            if isinstance(v, Arr):
                return v.shape[0]
            if isinstance(v, (list, tuple, dict, str, range)):
                return len(v)
            raise Unsupported("len of non-sequence", node)
        if n == "int":
            v = args[0]
            if isinstance(v, Poly) and v.is_const():
                v = v.const_value()
            if isinstance(v, (int, Fraction)):
                return int(v)     # truncation toward zero, like int()
            if isinstance(v, Poly) and len(v.symbols()) >= 1 and all(
                    c.denominator == 1 for c in v.t.values()):
                return v          # symbolic integer quantity
            raise Unsupported("int() of non-number", node)
        if n == "float":
            return args[0]
        if n == "abs":
            v = args[0]
            if isinstance(v, (int, Fraction)):
                return abs(v)
            raise Unsupported("abs of symbolic value", node)
        if n in ("tuple", "list"):
            v = args[0] if args else ()
            if isinstance(v, Arr):
                v = [v[k] for k in range(v.shape[0])]
            return tuple(v) if n == "tuple" else list(v)
        if n == "enumerate":
            v = args[0]
            if hasattr(v, "skv_iter"):
                v = v.skv_iter()
            if isinstance(v, Arr):
                v = [v[k] for k in range(v.shape[0])]
            if not isinstance(v, (list, tuple, range, dict, str)):
                raise Unsupported("enumerate over non-concrete iterable",
                                  node)
            return list(enumerate(v))
        if n == "zip":
            return list(zip(*args))
        if n == "sum":
            tot = args[1] if len(args) > 1 else kwargs.get("start", 0)
            if isinstance(tot, list):
                tot = list(tot)
                for v in args[0]:
                    if not isinstance(v, list):
                        raise Unsupported("sum of non-lists onto a list",
                                          node)
                    tot = tot + v
                return tot
            for v in args[0]:
                tot = binop(ast.Add(), tot, v, node)
            return tot
        if n in ("max", "min"):
            vals = args[0] if len(args) == 1 else args
            return (max if n == "max" else min)(vals)
        if n == "isinstance":
            o, t = args
            if isinstance(t, tuple):
                return any(self.builtin(f, [o, x], {}, node) for x in t)
            if isinstance(t, Builtin) and t.name in (
                    "int", "float", "str", "dict", "set", "bool", "slice"):
                py = {"int": int, "float": (float, Fraction), "str": str,
                      "dict": dict, "set": set, "bool": bool,
                      "slice": slice}[t.name]
                if t.name == "int" and isinstance(o, bool):
                    return True
                return isinstance(o, py)
            if isinstance(t, ModRef) and hasattr(o, "skv_types"):
                # stubs declare the external types they stand for
                return any(t.name == x or t.name.endswith("." + x)
                           or x.endswith("." + t.name.rsplit(".", 1)[-1])
                           for x in o.skv_types)
            if isinstance(t, ModRef) and t.name == "numpy.ndarray" and \
                    getattr(o, "skv_isarray", False):
                return True
            if isinstance(t, ModRef) and isinstance(
                    o, (bool, int, float, str, list, tuple, dict, set,
                        type(None))):
                # plain Python values are instances of no external class,
                # except the numeric ABCs
                if t.name == "numbers.Integral":
                    return isinstance(o, int)
                if t.name in ("numbers.Number", "numbers.Real"):
                    return isinstance(o, (int, float))
                return False
            if isinstance(t, ModRef) and t.name.startswith("numpy.") and \
                    t.name[6:] in NUMPY_SCALAR_TYPES and (
                    getattr(o, "skv_isarray", False)
                    or isinstance(o, (Obj, PyFunc, Arr, SymArr, StoreArr,
                                      Opaque))
                    or callable(getattr(o, "skv_call", None))):
                # arrays, objects and callables are no NumPy scalars
                return False
            if isinstance(t, ModRef) and t.name == "numpy.ndarray":
                # a run-time ndarray is exactly a value that depends on the
                # point array: Poly/Rat/Arr here; Python numbers stay numbers
                return isinstance(o, (Poly, Rat, Arr, SymArr, StoreArr))
            if isinstance(t, Builtin) and t.name in ("tuple", "list"):
                return isinstance(o, tuple if t.name == "tuple" else list)
            if isinstance(t, ClassRef):
                if isinstance(o, Obj) and o.cls is not None:
                    return any(c is t.cls for c in o.cls.mro())
                return False
            raise Unsupported("isinstance", node)
        if n == "hasattr":
            o, a = args
            if isinstance(o, Obj):
                if a in o.attrs:
                    return True
                if o.cls is not None:
                    return any(a in c.attrs or a in c.methods
                               for c in o.cls.mro())
                return False
            if isinstance(o, ClassRef):
                return any(a in c.attrs or a in c.methods
                           for c in o.cls.mro())
            if o is None or isinstance(o, (bool, int, float, Fraction,
                                           str, list, tuple, dict)):
                # plain values: only their own Python attributes
                return hasattr(o, a) if isinstance(a, str) else False
            raise Unsupported("hasattr on non-object", node)
        if n == "str":
            return str(args[0])
        if n == "slice":
            return slice(*args)
        if n == "type":
            v = args[0]
            for nm, py in (("dict", dict), ("list", list), ("tuple", tuple),
                           ("str", str), ("int", int)):
                if type(v) is py:
                    return Builtin(nm)
            return Opaque("type")
        if n == "callable":
            return isinstance(args[0], (Bound, Lam, PyFunc, Closure, Builtin,
                                        ClassRef)) or \
                getattr(args[0], "skv_callable", False)
        if n == "map":
            return [self.apply(args[0], [x], {}, node) for x in args[1]]
        if n == "getattr":
            try:
                return self.getattr(args[0], args[1], node, None)
            except Unsupported:
                if len(args) > 2:
                    return args[2]
                raise
        if n == "dict":
            d = dict(args[0]) if args else {}
            d.update(kwargs)
            return d
        if n == "eval":
            # eval of a string the code has just formatted from concrete
            # numbers (power-basis generators): parsed, never executed
            srcs = args[0]
            if not isinstance(srcs, str) or "<str>" in srcs:
                raise Unsupported("eval of a non-literal string", node)
            try:
                tree = ast.parse(srcs, mode="eval")
            except SyntaxError:
                raise Raised("SyntaxError in eval")
            return self.eval(tree.body, {}, self._cur_module(node))
        if n == "sorted":
            return sorted(args[0])
        if n == "reversed":
            v = args[0]
            if isinstance(v, (list, tuple, range)):
                return list(reversed(v))
            if isinstance(v, dict):
                return list(reversed(list(v)))
            raise Unsupported("reversed of non-sequence", node)
        if n == "bool":
            return self.truth(args[0], node)
        if n == "arr.flatten" or n == "arr.copy" or n == "arr.astype":
            o = f.obj
            if n == "arr.flatten" and isinstance(o, Arr):
                return Arr(o.flat())
            return o
        if n == "list.append":
            f.obj.append(args[0])
            return None
        if n == "list.extend":
            f.obj.extend(list(args[0]))
            return None
        if n == "dict.get":
            return f.obj.get(*args)
        if n == "dict.items":
            return list(f.obj.items())
        if n == "dict.keys":
            return list(f.obj.keys())
        if n == "dict.values":
            return list(f.obj.values())
        raise Unsupported(f"builtin {n}", node)

    def external(self, name, args, kwargs, node):
        if self.call_hook is not None:
            r = self.call_hook(self, name, args, kwargs, node)
            if r is not NotImplemented:
                return r
        short = name.split(".")[-1]
        if name.startswith("numpy") or name.startswith("jax.numpy"):
            return self.numpy(short, args, kwargs, node)
        if name in ("math.sqrt",):
            return fsqrt(args[0], node)
        raise Unsupported(f"call of external {name}", node)

    def numpy(self, fn, args, kwargs, node):
        if fn in ("asarray", "asanyarray", "ascontiguousarray") and args \
                and getattr(args[0], "skv_isarray", False) \
                and not isinstance(args[0], Arr):
            return args[0]         # an array stub is an array already
        if fn in ("result_type", "promote_types", "common_type"):
            return "<dtype>"       # exact values carry no storage type
        if fn in ("ndim", "isscalar") and args and isinstance(
                args[0], (bool, int, float, Fraction, str, list, tuple)):
            v, d = args[0], 0
            while isinstance(v, (list, tuple)):
                d += 1
                v = v[0] if v else None
            return d if fn == "ndim" else d == 0
        if fn in ("ndim", "isscalar") and args and (
                getattr(args[0], "skv_isarray", False)
                or isinstance(args[0], (Arr, SymArr, StoreArr))):
            # an array stub stands for an index / value *array*
            if isinstance(args[0], Arr):
                return len(args[0].shape) if fn == "ndim" else False
            return 1 if fn == "ndim" else False
        if fn in ("array", "asarray", "hstack", "stack") and \
                fn in ("array", "asarray"):
            return to_arr(args[0])
        if fn in ("zeros_like", "ones_like"):
            c = 0 if fn == "zeros_like" else 1
            v = args[0]
            if isinstance(v, Arr):
                return v.map(lambda _: c)
            if is_scalar(v):
                return c
            raise Unsupported(f"{fn} of {type(v).__name__}", node)
        if fn in ("zeros", "ones", "empty"):
            shp = args[0]
            c = {"zeros": 0, "ones": 1, "empty": None}[fn]
            if isinstance(shp, (int, Fraction)):
                shp = (int(shp),)
            if isinstance(shp, PtsDim):
                shp = (shp,)
            shp = tuple(int(s) if isinstance(s, Fraction) else s for s in shp)
            lead = [s for s in shp if isinstance(s, int)]
            if any(not isinstance(s, (int, PtsDim, Opaque, Poly)) for s in shp):
                raise Unsupported("array shape", node)
            # all non-integer extents must trail (point/cell axes)
            k = len(lead)
            if any(isinstance(s, int) for s in shp[k:]):
                raise Unsupported("array shape with interleaved point axes",
                                  node)
            if c is None or True:
                if not lead:
                    return c if c is not None else StoreArr(None, shp)
                if c is None:
                    return StoreArr(None, shp)

                def mk(dims):
                    if not dims:
                        return c
                    return [mk(dims[1:]) for _ in range(dims[0])]
                return Arr(mk(lead))
        if fn == "sqrt":
            return fsqrt(args[0], node)
        if fn == "abs" or fn == "absolute":
            v = args[0]
            if isinstance(v, (int, Fraction)):
                return abs(v)
            raise Unsupported("np.abs of symbolic value", node)
        if fn in ("float64", "float32", "int32", "int64"):
            return args[0]
        if fn == "sum":
            v = args[0]
            if isinstance(v, Arr) and "axis" not in kwargs and len(args) == 1:
                tot = 0
                for x in v.flat():
                    tot = binop(ast.Add(), tot, x, node)
                return tot
            if isinstance(v, Arr) and (kwargs.get("axis", None) == 0
                                       or (len(args) > 1 and args[1] == 0)):
                tot = 0
                for k in range(v.shape[0]):
                    tot = binop(ast.Add(), tot, v[k], node)
                return tot
        if fn == "broadcast_to":
            return args[0]
        if fn == "vstack" or fn == "hstack":
            seq = args[0]
            rows = []
            for s in seq:
                if isinstance(s, Arr) and (fn == "vstack" and len(s.shape) > 1
                                           or fn == "hstack"):
                    rows.extend(s.data)
                elif isinstance(s, Arr):
                    rows.append(s.data)
                else:
                    rows.append(s)
            return Arr(rows)
        if fn == "ceil" or fn == "floor":
            v = args[0]
            if isinstance(v, (int, Fraction)):
                return (math.ceil if fn == "ceil" else math.floor)(v)
        if fn == "eye" or fn == "identity":
            n = args[0]
            if isinstance(n, int):
                return Arr([[1 if i == j else 0 for j in range(n)]
                            for i in range(n)])
        if fn == "arange" and all(isinstance(a, int) for a in args):
            return Arr(list(range(*args)))
        if fn in ("max", "min", "amax", "amin") and len(args) == 1 and \
                not kwargs and isinstance(args[0], (list, tuple)) and all(
                    isinstance(v, (int, Fraction)) for v in args[0]):
            return (max if fn in ("max", "amax") else min)(args[0])
        if fn == "cross" and len(args) == 2 and "axis" not in kwargs:
            a, b = args
            if isinstance(a, Arr) and isinstance(b, Arr) and \
                    a.shape == (3,) and b.shape == (3,):
                m = ast.Mult()
                s = ast.Sub()
                return Arr([
                    binop(s, binop(m, a[1], b[2]), binop(m, a[2], b[1])),
                    binop(s, binop(m, a[2], b[0]), binop(m, a[0], b[2])),
                    binop(s, binop(m, a[0], b[1]), binop(m, a[1], b[0]))])
        if fn == "einsum":
            return einsum(args[0], list(args[1:]), node)
        if fn == "transpose" and isinstance(args[0], Arr) and len(args) == 1:
            return args[0].transpose()
        raise Unsupported(f"numpy.{fn}", node)


def einsum(sig, operands, node=None):
    """numpy.einsum on dense arrays of scalars; a trailing '...' stands for
    the point/cell axes, which are never materialised (pointwise)."""
    from itertools import product as iproduct
    if not isinstance(sig, str):
        raise Unsupported("einsum signature is not a literal", node)
    sig = sig.replace(" ", "")
    if "->" in sig:
        ins, out = sig.split("->")
    else:
        ins, out = sig, None
    terms = ins.split(",")
    if len(terms) != len(operands):
        raise Unsupported("einsum arity", node)
    clean = []
    # a trailing ellipsis also absorbs the *modelled* axes an operand has
    # beyond its named indices (a rank-3 gradient under 'ii...'): they get
    # private letters and go where numpy puts the ellipsis axes
    extra = ""
    for t, v in zip(terms, operands):
        if "..." in t:
            if not t.endswith("..."):
                raise Unsupported("einsum ellipsis not trailing", node)
            t = t[:-3]
            if isinstance(v, Arr) and len(v.shape) > len(t):
                k = len(v.shape) - len(t)
                letters = "ABCDEFGH"[:k]
                if extra and extra != letters:
                    raise Unsupported("einsum: operands with different "
                                      "numbers of absorbed axes", node)
                extra = letters
                t = t + letters
        clean.append(t)
    if out is None:
        cnt = {}
        for t in clean:
            for ch in t:
                cnt[ch] = cnt.get(ch, 0) + 1
        out = extra + "".join(sorted(ch for ch, n in cnt.items()
                                     if n == 1 and ch not in extra))
    else:
        if "..." in out:
            if not out.startswith("...") and not out.endswith("..."):
                raise Unsupported("einsum output ellipsis", node)
            if out.startswith("...") and len(out) > 3:
                raise Unsupported("einsum output with leading ellipsis",
                                  node)
            out = out.replace("...", extra)
        elif extra:
            raise Unsupported("einsum: absorbed axes without an output "
                              "ellipsis", node)
    ext = {}
    ops = []
    for t, v in zip(clean, operands):
        if is_scalar(v):
            if t:
                raise Unsupported("einsum: scalar operand with indices", node)
            ops.append((t, v))
            continue
        if not isinstance(v, Arr):
            raise Unsupported(f"einsum operand {type(v).__name__}", node)
        sh = v.shape
        if len(sh) != len(t):
            raise Unsupported(f"einsum: operand rank {len(sh)} vs '{t}'",
                              node)
        for ch, n in zip(t, sh):
            if ext.setdefault(ch, n) != n:
                raise Unsupported("einsum: inconsistent extents", node)
        ops.append((t, v))
    for ch in out:
        if ch not in ext:
            raise Unsupported("einsum: unknown output index", node)
    summed = [ch for ch in ext if ch not in out]
    mul, add = ast.Mult(), ast.Add()

    def entry(assign):
        tot = 0
        for vals in iproduct(*[range(ext[ch]) for ch in summed]):
            a = dict(assign)
            a.update(zip(summed, vals))
            term = 1
            for t, v in ops:
                x = v if not t else v[tuple(a[ch] for ch in t)]
                term = binop(mul, term, x, node)
            tot = binop(add, tot, term, node)
        return tot

    def build(prefix, rest):
        if not rest:
            return entry(prefix)
        ch = rest[0]
        return [build({**prefix, ch: k}, rest[1:]) for k in range(ext[ch])]
    r = build({}, list(out))
    return Arr(r) if isinstance(r, list) else r


def _store_nested(arr: Arr, ix, v):
    if not isinstance(ix, tuple):
        ix = (ix,)
    ix = [k for k in ix if not (isinstance(k, slice) and k == slice(None))
          and k is not Ellipsis]
    d = arr.data
    for k in ix[:-1]:
        d = d[k]
    if not ix:
        raise Unsupported("whole-array store")
    if isinstance(v, Arr):
        v = v.data
    d[ix[-1]] = v


def to_arr(v):
    if isinstance(v, Arr):
        return v
    if isinstance(v, (list, tuple)):
        def rec(x):
            if isinstance(x, Arr):
                return x.data
            if isinstance(x, (list, tuple)):
                return [rec(y) for y in x]
            if isinstance(x, float):
                return to_frac(x)
            return x
        return Arr([rec(x) for x in v])
    if is_scalar(v):
        return v
    raise Unsupported(f"np.array of {type(v).__name__}")


class Closure:
    def __init__(self, node, env, module):
        self.node, self.env, self.module = node, env, module


class _ChainEnv(dict):
    """locals of a nested function; reads fall through to the enclosing
    environment (late binding, like Python closures)."""
    def __init__(self, outer):
        super().__init__()
        self.outer = outer

    def __contains__(self, k):
        return dict.__contains__(self, k) or k in self.outer

    def __getitem__(self, k):
        if dict.__contains__(self, k):
            return dict.__getitem__(self, k)
        return self.outer[k]

    def get(self, k, d=None):
        return self[k] if k in self else d


class PyFunc:
    """A callable supplied by a rule (stands for a method whose result the
    rule models symbolically)."""
    def __init__(self, fn):
        self.fn = fn


class Builtin:
    def __init__(self, name, obj=None):
        self.name, self.obj = name, obj


class ClassRef:
    def __init__(self, cls: ClassInfo):
        self.cls = cls


class ModRef:
    def __init__(self, name, info):
        self.name, self.info = name, info


class SuperRef:
    def __init__(self, obj, cls):
        self.obj, self.cls = obj, cls


def _class_env(interp, c: ClassInfo):
    """Names visible when evaluating a class-level attribute expression:
    earlier class attributes of the same class body."""
    class LazyEnv(dict):
        def __contains__(self, k):
            return k in c.attrs

        def __getitem__(self, k):
            return interp.eval(c.attrs[k], _class_env(interp, c), c.module)
    return LazyEnv()


def _is_diagnostic(st) -> bool:
    if not (isinstance(st, ast.Expr) and isinstance(st.value, ast.Call)):
        return False
    f = st.value.func
    if isinstance(f, ast.Attribute) and isinstance(f.value, ast.Name) and \
            f.value.id in ("logger", "logging", "warnings"):
        return True
    return isinstance(f, ast.Name) and f.id in ("warn", "print")


def _is_static(node: ast.FunctionDef) -> bool:
    return any(src(d) == "staticmethod" for d in node.decorator_list)


def _load(t):
    import copy
    t2 = copy.copy(t)
    t2.ctx = ast.Load()
    return t2


def annotate_literals(tree: ast.AST, source: str) -> None:
    """Attach the literal *text* of every float constant (so that 0.1 is the
    rational 1/10, not the double nearest to it)."""
    lines = source.splitlines()
    for n in ast.walk(tree):
        if isinstance(n, ast.Constant) and isinstance(n.value, float) \
                and n.lineno == n.end_lineno:
            try:
                n._text = lines[n.lineno - 1][n.col_offset:n.end_col_offset]
            except Exception:
                pass
