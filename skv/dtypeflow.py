"""dtype flow: stores of foreign array data into a copy of an operand.

A buffer that is a copy of one operand takes that operand's dtype; numpy casts
whatever is stored into it *silently* (float -> int truncates, complex ->
float drops the imaginary part with a warning at most).  ``lossy_store_sites``
lists, for one function, every item store (buf[ix] = v, np.add.at(buf, ix, v))
whose value carries data that does not come from the operand the buffer was
copied from, together with whether the buffer's definition widens the type
(np.result_type / np.promote_types; optionally a fixed floating type, for
real coordinate data)."""
from __future__ import annotations

import ast
from typing import Dict, List

from .model import src, walk_no_nested

SCALAR_ANN = ("float", "int", "bool", "Optional[float]", "str")


def lossy_store_sites(fnode, params, accept_float=False):
    a = fnode.args
    scalars = {x.arg for x in a.posonlyargs + a.args + a.kwonlyargs
               if x.annotation is not None and src(x.annotation)
               in SCALAR_ANN}
    params = set(params)
    defs: Dict[str, List[ast.Assign]] = {}
    for n in walk_no_nested(fnode):
        if isinstance(n, ast.Assign):
            for t in n.targets:
                for x in (t.elts if isinstance(t, ast.Tuple) else [t]):
                    if isinstance(x, ast.Name):
                        defs.setdefault(x.id, []).append(n)

    def origin(e):
        """operand the expression is a copy of, or None"""
        if isinstance(e, ast.IfExp):
            o1, o2 = origin(e.body), origin(e.orelse)
            return o1 if o1 == o2 else None
        if isinstance(e, ast.Name) and e.id in params:
            return e.id
        if isinstance(e, ast.Subscript):
            return origin(e.value)
        if isinstance(e, ast.Call):
            f = e.func
            if isinstance(f, ast.Attribute) and f.attr in (
                    "copy", "astype", "diagonal", "toarray"):
                return origin(f.value)
            if src(f) in ("np.tile", "np.array", "np.copy",
                          "np.asarray") and e.args:
                return origin(e.args[0])
        return None

    def widened(e):
        for c in ast.walk(e):
            if isinstance(c, ast.Call) and src(c.func).split(".")[-1] in (
                    "result_type", "promote_types", "common_type",
                    "find_common_type"):
                return True
            if accept_float and isinstance(c, ast.Call):
                dt = [k.value for k in c.keywords if k.arg == "dtype"]
                if isinstance(c.func, ast.Attribute) and \
                        c.func.attr == "astype" and c.args:
                    dt.append(c.args[0])
                if any(src(d) in ("float", "np.float64", "np.double",
                                  "np.float_", "'float64'", "'d'")
                       for d in dt):
                    return True
        return False

    def foreign(v, own):
        """does the stored value carry array data not from `own`?"""
        for x in ast.walk(v):
            if isinstance(x, ast.Name) and isinstance(x.ctx, ast.Load):
                if x.id in scalars or x.id == own or \
                        x.id in ("np", "numpy"):
                    continue
                if x.id in params:
                    return x.id
                if x.id in defs:
                    for d in defs[x.id]:
                        if isinstance(d.value, ast.Call) and \
                                origin(d.value) != own:
                            return f"{x.id} = {src(d.value)[:30]}"
                        f_ = foreign(d.value, own) if not isinstance(
                            d.value, ast.Call) else None
                        if f_:
                            return f_
                elif x.id == "self":
                    return "the object's own data"
            if isinstance(x, ast.Call) and isinstance(x.func, ast.Name) \
                    and x.func.id in params:
                return f"{x.func.id}(...)"
        return None
    stores = []
    for n in walk_no_nested(fnode):
        if isinstance(n, ast.Assign) and len(n.targets) == 1 and \
                isinstance(n.targets[0], ast.Subscript) and \
                isinstance(n.targets[0].value, ast.Name):
            stores.append((n.targets[0].value.id, n.value, n))
        elif isinstance(n, ast.Call) and src(n.func) in (
                "np.add.at", "numpy.add.at") and len(n.args) == 3 and \
                isinstance(n.args[0], ast.Name):
            stores.append((n.args[0].id, n.args[2], n))
    out = []
    for buf, val, node in stores:
        dl = sorted((d for d in defs.get(buf, [])
                     if d.lineno < node.lineno), key=lambda d: d.lineno)
        if not dl:
            continue
        d = dl[-1]
        own = origin(d.value)
        if own is None:
            continue
        who = foreign(val, own)
        if who is None:
            continue
        out.append((buf, own, who, d, node, widened(d.value)))
    return out


FLOAT_MARKS = ("float", "np.float32", "np.float64", "np.double", "np.floating",
               "np.float_", "np.inexact", "np.complex128", "np.complex64",
               "complex")


def quotient_store_sites(fnode, params):
    """Item stores whose value is a *true quotient* (contains ``/``) into a
    buffer that is a copy of an operand: a quotient is floating whatever the
    operands are, so the buffer needs a floating type - a common type of
    integer operands is an integer type.  Returns (buf, own, definition,
    store, floating) with ``floating`` true when the buffer's definition
    promotes with a floating type (a floating dtype or float constant among
    the arguments of np.result_type / np.promote_types, or astype(float))."""
    params = set(params)
    a = fnode.args
    fscalars = {x.arg for x in a.posonlyargs + a.args + a.kwonlyargs
                if x.annotation is not None and "float" in src(x.annotation)}
    defs: Dict[str, List[ast.Assign]] = {}
    for n in walk_no_nested(fnode):
        if isinstance(n, ast.Assign):
            for t in n.targets:
                if isinstance(t, ast.Name):
                    defs.setdefault(t.id, []).append(n)

    def origin(e):
        if isinstance(e, ast.IfExp):
            o1, o2 = origin(e.body), origin(e.orelse)
            return o1 or o2
        if isinstance(e, ast.Name) and e.id in params:
            return e.id
        if isinstance(e, ast.Call):
            f = e.func
            if isinstance(f, ast.Attribute) and f.attr in ("copy", "astype"):
                return origin(f.value)
            if src(f) in ("np.array", "np.copy", "np.asarray") and e.args:
                return origin(e.args[0])
        return None

    def floating(e):
        for c in ast.walk(e):
            if not isinstance(c, ast.Call):
                continue
            last = src(c.func).split(".")[-1]
            cands = []
            if last in ("result_type", "promote_types", "common_type"):
                cands = list(c.args)
            elif last == "astype" and c.args and not isinstance(
                    c.args[0], ast.Call):
                cands = [c.args[0]]
            for x in cands:
                if src(x) in FLOAT_MARKS or (
                        isinstance(x, ast.Constant)
                        and isinstance(x.value, (float, complex))) or (
                        isinstance(x, ast.Name) and x.id in fscalars):
                    return True
        return False
    out = []
    for n in walk_no_nested(fnode):
        if not (isinstance(n, ast.Assign) and len(n.targets) == 1 and
                isinstance(n.targets[0], ast.Subscript) and
                isinstance(n.targets[0].value, ast.Name)):
            continue
        if not any(isinstance(x, ast.BinOp) and isinstance(x.op, ast.Div)
                   for x in ast.walk(n.value)):
            continue
        buf = n.targets[0].value.id
        dl = sorted((d for d in defs.get(buf, []) if d.lineno < n.lineno),
                    key=lambda d: d.lineno)
        if not dl:
            continue
        own = origin(dl[-1].value)
        if own is None:
            continue
        out.append((buf, own, dl[-1], n, floating(dl[-1].value)))
    return out
