"""Engine D: flow-sensitive intra-procedural may-alias / effect analysis with
bounded inter-procedural summaries.

Abstract value of an expression = set of *roots* whose storage it may share:
``param:<name>``, ``self``, ``closure:<name>``, ``global:<name>``.  The empty
set means *fresh* (a new object nobody else holds).  Unknown calls are fresh
(optimistic: the analysis may miss an effect, it never invents one).

Effects recorded per function: in-place stores into storage reachable from a
root, mutator-method calls, ``out=`` keywords, ``np.add.at`` & friends,
attribute stores on non-fresh objects, writes to process-global state.
"""
from __future__ import annotations

import ast
from dataclasses import dataclass, field
from typing import Dict, FrozenSet, Iterable, List, Optional, Set, Tuple

from .model import FuncInfo, Model, ModuleInfo, src

Roots = FrozenSet[str]
FRESH: Roots = frozenset()

# method calls whose result shares storage with the receiver
# tocsr / tocsc / tocoo return the object ITSELF when it already has that
# format (copy=False is the default): may-alias
VIEW_METHODS = {"tocsr", "tocsc", "tocoo",
                "reshape", "ravel", "view", "squeeze", "transpose",
                "swapaxes", "__getitem__", "T", "get", "setdefault",
                "values", "items", "keys", "tocsr_nocopy"}
# attribute loads that are views of / members of the receiver's storage
# (every attribute of an aliased object is treated as reachable storage)
FRESH_METHODS = {"copy", "astype", "flatten", "tolist", "sum", "max", "min",
                 "mean", "nonzero", "any", "all", "dot", "toarray",
                 "tolil", "todense", "diagonal", "conj",
                 "format", "split", "join", "encode", "decode", "cumsum",
                 "argsort", "argmax", "argmin", "repeat", "round", "clip",
                 "tobytes", "item", "multiply", "power", "tobsr", "todia",
                 "todok", "getrow", "getcol", "transpose_copy"}
ALIAS_FUNCS = {"numpy.asarray", "numpy.ascontiguousarray",
               "numpy.atleast_1d", "numpy.atleast_2d", "numpy.asanyarray",
               "numpy.broadcast_to", "numpy.ravel", "numpy.reshape",
               "numpy.squeeze", "numpy.transpose", "numpy.swapaxes",
               "numpy.moveaxis", "numpy.real", "numpy.imag"}
# receiver-mutating methods
MUTATORS = {"update", "pop", "popitem", "append", "extend", "insert",
            "remove", "clear", "sort", "reverse", "setdefault", "fill",
            "resize", "put", "itemset", "setdiag", "eliminate_zeros",
            "sum_duplicates", "sort_indices", "setflags", "add", "discard",
            "partition", "byteswap_inplace", "__setitem__", "__delitem__",
            "prune", "setfield", "set_shape"}
# ndarray.sort / list.sort mutate; dict.setdefault mutates.  'add' is a set
# mutator but also np.add (function) - only method calls on names count.
INPLACE_FUNCS = {"numpy.put": 0, "numpy.place": 0, "numpy.copyto": 0,
                 "numpy.putmask": 0, "numpy.fill_diagonal": 0,
                 "numpy.random.shuffle": 0, "random.shuffle": 0}
# external routines that bring a sparse matrix operand into canonical form
# IN PLACE (sum_duplicates / sort_indices on the caller's object) when it is
# not canonical already - e.g. the matrix rcm() returns, or K @ K
CANONICALISERS = {"scipy.sparse.linalg.spsolve": 0,
                  "scipy.sparse.linalg.splu": 0,
                  "scipy.sparse.linalg.spilu": 0,
                  "scipy.sparse.linalg.factorized": 0,
                  # shift-invert with sigma = 0 factorises the operand itself
                  "scipy.sparse.linalg.eigs": 0,
                  "scipy.sparse.linalg.eigsh": 0}
UFUNC_AT = {"numpy.add.at", "numpy.subtract.at", "numpy.multiply.at",
            "numpy.maximum.at", "numpy.minimum.at", "numpy.bitwise_or.at"}
GLOBAL_STATE_CALLS = {
    "numpy.random.seed", "numpy.seterr", "numpy.set_printoptions",
    "numpy.seterrcall", "random.seed", "warnings.simplefilter",
    "warnings.filterwarnings", "numpy.random.set_state", "os.chdir",
    "os.putenv", "sys.setrecursionlimit", "numpy.setbufsize",
    "logging.basicConfig", "logging.disable",
}


@dataclass
class Effect:
    kind: str              # store | mutator | out-kw | inplace-func | attr-store
    #                        | global-state | global-write | via-call
    roots: Roots
    node: ast.AST
    detail: str
    via: Optional[str] = None      # callee qualname for via-call

    @property
    def line(self):
        return getattr(self.node, "lineno", None)


@dataclass
class Summary:
    fn: Optional[FuncInfo]
    params: List[str]
    effects: List[Effect] = field(default_factory=list)
    returns: Roots = FRESH                 # roots the return value may alias
    returns_tuple: Optional[List[Roots]] = None   # per position, if uniform
    _ret_seen: int = 0
    attr_reads: Set[str] = field(default_factory=set)    # self.<attr> loads
    attr_stores: Set[str] = field(default_factory=set)   # self.<attr> = ...
    attr_stores_via: Set[str] = field(default_factory=set)  # through self calls

    def mutated_params(self) -> Set[str]:
        out = set()
        for e in self.effects:
            if e.kind in ("global-state", "global-write"):
                continue
            for r in e.roots:
                if r.startswith("param:"):
                    out.add(r[6:])
        return out


class Analyzer:
    def __init__(self, model: Model, max_depth: int = 3):
        self.model = model
        self.max_depth = max_depth
        self._cache: Dict[Tuple[int, int], Summary] = {}
        self._active: Set[int] = set()

    def call_returns_array(self, module, cls, call, _depth=0) -> bool:
        """the call certainly yields an ndarray: a view-returning numpy
        function (asarray, reshape, transpose, einsum, ...) or a package
        function all of whose returns are such calls"""
        dotted = self.model.dotted(module, call.func)
        if dotted in ALIAS_FUNCS or dotted == "numpy.einsum":
            return True
        if dotted is not None and dotted.startswith("numpy"):
            return False
        if _depth >= 3:
            return False
        callee = self.resolve_callee(module, cls, call)
        if callee is None:
            return False
        rets = [n for n in _walk_local(callee.node)
                if isinstance(n, ast.Return)]
        return bool(rets) and all(
            isinstance(r.value, ast.Call) and self.call_returns_array(
                callee.module, callee.cls, r.value, _depth + 1)
            for r in rets)

    # ------------------------------------------------------------------
    def summarize(self, fn: FuncInfo, depth: int = 0) -> Summary:
        key = (id(fn.node), min(depth, self.max_depth))
        if key in self._cache:
            return self._cache[key]
        if id(fn.node) in self._active:
            return Summary(fn, fn.params())
        self._active.add(id(fn.node))
        try:
            s = _FunctionPass(self, fn.module, fn.node, fn.cls, depth,
                              outer_locals=None, fn=fn).run()
        finally:
            self._active.discard(id(fn.node))
        self._cache[key] = s
        return s

    def summarize_nested(self, module: ModuleInfo, node, cls,
                         outer_locals: Set[str], depth: int = 0) -> Summary:
        return _FunctionPass(self, module, node, cls, depth,
                             outer_locals=outer_locals, fn=None).run()

    # callee resolution -------------------------------------------------
    def resolve_callee(self, module: ModuleInfo, cls, call: ast.Call,
                       env_types: Dict[str, str] = None) -> Optional[FuncInfo]:
        f = call.func
        if isinstance(f, ast.Name):
            r = self.model.resolve(module, f.id)
            if r and r[0] == "func":
                return r[1]
            if r and r[0] == "class":
                return r[1].find_method("__init__")
            return None
        if isinstance(f, ast.Attribute):
            if isinstance(f.value, ast.Name) and f.value.id in ("self", "cls") \
                    and cls is not None:
                return cls.find_method(f.attr)
            if isinstance(f.value, ast.Call) and isinstance(
                    f.value.func, ast.Name) and f.value.func.id == "super" \
                    and cls is not None:
                for c in cls.mro()[1:]:
                    if f.attr in c.methods:
                        return c.methods[f.attr]
                return None
            r = self.model.resolve_expr(module, f)
            if r and r[0] == "func":
                return r[1]
        return None


class _FunctionPass:
    def __init__(self, an: Analyzer, module: ModuleInfo, node, cls, depth,
                 outer_locals, fn):
        self.an, self.module, self.node, self.cls = an, module, node, cls
        self.depth = depth
        self.fn = fn
        self.outer_locals = outer_locals or set()
        a = node.args
        self.params = [x.arg for x in a.posonlyargs + a.args]
        if a.vararg:
            self.params.append(a.vararg.arg)
        self.params += [x.arg for x in a.kwonlyargs]
        if a.kwarg:
            self.params.append(a.kwarg.arg)
        self.kwarg = a.kwarg.arg if a.kwarg else None
        self.vararg = a.vararg.arg if a.vararg else None
        self.summary = Summary(fn, list(self.params))
        self.last_tuple = None
        self.last_tuple_call = None
        self.locals: Set[str] = set(self.params)
        self.globals_decl: Set[str] = set()
        body = node.body if isinstance(node.body, list) else []
        for n in _walk_local(node):
            if isinstance(n, (ast.Name,)) and isinstance(n.ctx, ast.Store):
                self.locals.add(n.id)
            elif isinstance(n, ast.Global):
                self.globals_decl.update(n.names)
            elif isinstance(n, (ast.FunctionDef, ast.ClassDef)) and \
                    n is not node:
                self.locals.add(n.name)
            elif isinstance(n, ast.arg):
                pass
        self.locals -= self.globals_decl
        self.is_method = cls is not None and self.params and \
            self.params[0] in ("self", "cls") and not any(
                src(d) == "staticmethod" for d in node.decorator_list)

    # ------------------------------------------------------------------
    def initial_env(self) -> Dict[str, Roots]:
        env: Dict[str, Roots] = {}
        for i, p in enumerate(self.params):
            if i == 0 and self.is_method:
                env[p] = frozenset({"self"})
            elif p == self.kwarg:
                # **kwargs is always a new dict: storing into the container
                # is invisible to the caller
                env[p] = FRESH
            else:
                env[p] = frozenset({f"param:{p}"})
        return env

    def run(self) -> Summary:
        env = self.initial_env()
        if isinstance(self.node, ast.Lambda):
            self.summary.returns = self.roots(self.node.body, env)
            return self.summary
        self.block(self.node.body, env)
        return self.summary

    # ------------------------------------------------------------------
    def name_roots(self, name: str, env) -> Roots:
        if name in env:
            return env[name]
        if name in self.locals:
            return FRESH        # assigned later / loop variable
        if name in self.outer_locals:
            return frozenset({f"closure:{name}"})
        r = self.an.model.resolve(self.module, name)
        if r is not None and r[0] == "const":
            return frozenset({f"global:{name}"})
        return FRESH

    def ident_roots(self, e, env) -> Roots:
        """Roots whose *object identity* e may have (for attribute stores):
        views, reshapes and slices are new objects."""
        if isinstance(e, ast.Name):
            return env.get("#id:" + e.id, self.name_roots(e.id, env)
                           if e.id not in env else env[e.id])
        if isinstance(e, ast.Attribute):
            if e.attr in ("T", "real", "imag", "flat"):
                return FRESH
            if isinstance(e.value, ast.Name) and e.value.id == "self" and \
                    self.is_method and env.get("self") == frozenset({"self"}):
                if env.get("#fresh-attr:" + e.attr):
                    return FRESH
                return frozenset({f"self.{e.attr}"})
            return self.ident_roots(e.value, env)
        if isinstance(e, ast.Subscript):
            return self.ident_roots(e.value, env)
        if isinstance(e, ast.IfExp):
            return self.ident_roots(e.body, env) | \
                self.ident_roots(e.orelse, env)
        if isinstance(e, ast.Call):
            f = e.func
            d = self.an.model.dotted(self.module, f)
            if d in ("numpy.asarray", "numpy.asanyarray",
                     "numpy.ascontiguousarray") and e.args:
                return self.ident_roots(e.args[0], env)
            return FRESH
        return FRESH

    def _overwrite_idiom(self, e, env) -> Optional[Roots]:
        """``X if overwrite else X.copy()`` (or negated): the one accepted
        conditional-alias idiom, keyed on a parameter named overwrite."""
        if not isinstance(e, ast.IfExp):
            return None
        t = e.test
        neg = False
        if isinstance(t, ast.UnaryOp) and isinstance(t.op, ast.Not):
            t, neg = t.operand, True
        if not (isinstance(t, ast.Name) and t.id in self.params
                and "overwrite" in t.id):
            return None
        keep, cp = (e.orelse, e.body) if neg else (e.body, e.orelse)
        # X.copy() or X.astype(<type>) - astype copies unless copy=False
        if isinstance(cp, ast.Call) and isinstance(cp.func, ast.Attribute) \
                and ((cp.func.attr == "copy" and not cp.args)
                     or (cp.func.attr == "astype" and not any(
                         k.arg == "copy" for k in cp.keywords))) and \
                src(cp.func.value) == src(keep):
            base = self.roots(keep, env)
            return frozenset("ow:" + r if not r.startswith("ow:") else r
                             for r in base)
        return None

    def roots(self, e, env) -> Roots:  # noqa: C901
        if e is None:
            return FRESH
        if isinstance(e, ast.Name):
            return self.name_roots(e.id, env)
        ow = self._overwrite_idiom(e, env)
        if ow is not None:
            return ow
        if isinstance(e, ast.Attribute):
            if isinstance(e.value, ast.Name) and e.value.id == "self" \
                    and self.is_method:
                self.summary.attr_reads.add(e.attr)
                if env.get("self") == frozenset({"self"}):
                    prop = self.cls.find_method(e.attr) if self.cls else None
                    if prop is not None and any(
                            src(d) in ("property", "cached_property",
                                       "functools.cached_property")
                            for d in prop.node.decorator_list) and \
                            self.depth < self.an.max_depth and \
                            isinstance(e.ctx, ast.Load):
                        fake = ast.Call(func=e, args=[], keywords=[])
                        ast.copy_location(fake, e)
                        return self.apply_summary(
                            prop, fake, frozenset({"self"}), [], {}, env,
                            method=True)
                    if env.get("#fresh-attr:" + e.attr):
                        return FRESH
                    return frozenset({f"self.{e.attr}"})
            return self.roots(e.value, env)
        if isinstance(e, ast.Subscript):
            self.roots(e.slice, env) if isinstance(
                e.slice, (ast.Call, ast.NamedExpr)) else None
            return _unelem(self.roots(e.value, env))
        if isinstance(e, ast.Starred):
            return self.roots(e.value, env)
        if isinstance(e, ast.IfExp):
            return self.roots(e.body, env) | self.roots(e.orelse, env)
        if isinstance(e, ast.BoolOp):
            out = FRESH
            for v in e.values:
                out |= self.roots(v, env)
            return out
        if isinstance(e, (ast.Tuple, ast.List, ast.Set)):
            # a display is a new container whose *elements* are shared
            out = FRESH
            for v in e.elts:
                out |= self.roots(v, env)
            return _elem(out)
        if isinstance(e, ast.Dict):
            out = FRESH
            for k, v in zip(e.keys, e.values):
                r = self.roots(v, env)
                # {**a}: copies one level - a's values become our values
                out |= r if k is not None else _elem(_unelem(r))
            return _elem(out)
        if isinstance(e, ast.NamedExpr):
            r = self.roots(e.value, env)
            env[e.target.id] = r
            return r
        if isinstance(e, ast.Call):
            return self.call_roots(e, env)
        if isinstance(e, (ast.ListComp, ast.SetComp, ast.DictComp,
                          ast.GeneratorExp)):
            # a fresh container whose elements are what the element
            # expression evaluates to, with the comprehension variables
            # bound to the elements of their iterables
            loc = dict(env)
            for g in e.generators:
                it = _unelem(self.roots(g.iter, loc))
                if isinstance(g.target, (ast.Name, ast.Tuple, ast.List)):
                    self.bind(g.target, it, loc)
                for c in g.ifs:
                    self.roots(c, loc)
            if isinstance(e, ast.DictComp):
                self.roots(e.key, loc)
                r = self.roots(e.value, loc)
            else:
                r = self.roots(e.elt, loc)
            return frozenset("elem:" + x for x in _unelem(r))
        if isinstance(e, (ast.BinOp, ast.UnaryOp, ast.Compare, ast.Constant,
                          ast.JoinedStr, ast.Lambda)):
            self.scan_calls(e, env)
            return FRESH
        return FRESH

    def _arrayish(self, name: str) -> bool:
        """Evidence that a local name holds an array: it is subscripted,
        its .shape/.T/.dtype is read, or it is annotated ndarray."""
        if not hasattr(self, "_arr_ev"):
            ev = set()
            parents = {}
            for n in _walk_local(self.node):
                for c in ast.iter_child_nodes(n):
                    parents[id(c)] = n
            for n in _walk_local(self.node):
                if isinstance(n, ast.Subscript) and isinstance(n.value,
                                                               ast.Name):
                    ev.add(n.value.id)
                elif isinstance(n, ast.Attribute) and isinstance(
                        n.value, ast.Name) and n.attr in (
                        "shape", "T", "dtype", "ndim", "size", "flatten"):
                    ev.add(n.value.id)
                elif isinstance(n, ast.Call):
                    # operands of a dot product are vectors / matrices
                    f = n.func
                    if isinstance(f, ast.Attribute) and f.attr == "dot":
                        ops = list(n.args)
                        if not (isinstance(f.value, ast.Name)
                                and f.value.id in ("np", "numpy")):
                            ops.append(f.value)
                        for o in ops:
                            if isinstance(o, ast.Name):
                                ev.add(o.id)
                    # results of numpy array constructors / converters
                    if isinstance(f, ast.Attribute) and isinstance(
                            f.value, ast.Name) and f.value.id in (
                            "np", "numpy") and f.attr in (
                            "asarray", "array", "ascontiguousarray",
                            "asanyarray", "zeros", "ones", "empty",
                            "zeros_like", "ones_like", "empty_like",
                            "arange", "hstack", "vstack", "concatenate",
                            "copy", "cumsum", "sort", "unique"):
                        par = parents.get(id(n))
                        if isinstance(par, ast.Assign) and \
                                par.value is n:
                            for t in par.targets:
                                if isinstance(t, ast.Name):
                                    ev.add(t.id)
            # results of view-returning numpy calls, and of package
            # functions all of whose returns are such calls
            for n in _walk_local(self.node):
                if isinstance(n, ast.Assign) and isinstance(n.value,
                                                            ast.Call):
                    if self.an.call_returns_array(self.module, self.cls,
                                                  n.value):
                        for t in n.targets:
                            if isinstance(t, ast.Name):
                                ev.add(t.id)
            a = self.node.args
            for x in a.posonlyargs + a.args + a.kwonlyargs:
                if x.annotation is not None and "ndarray" in src(
                        x.annotation):
                    ev.add(x.arg)
            # plain copies 'x = b' name the same object: evidence is shared
            pairs = [(st.targets[0].id, st.value.id)
                     for st in _walk_local(self.node)
                     if isinstance(st, ast.Assign) and len(st.targets) == 1
                     and isinstance(st.targets[0], ast.Name)
                     and isinstance(st.value, ast.Name)]
            changed = True
            while changed:
                changed = False
                for a_, b_ in pairs:
                    if (a_ in ev) != (b_ in ev):
                        ev |= {a_, b_}
                        changed = True
            self._arr_ev = ev
        return name in self._arr_ev

    def _elements_immutable(self, name: str) -> bool:
        """the container ``name`` was built (list / comprehension / dict
        display) from expressions known to be numbers, strings or tuples:
        attributes declared with such a type or default anywhere in the
        package, len()/int()/float() calls, constants"""
        IMM = ("int", "float", "str", "bool", "tuple", "Tuple", "complex")

        def imm_attr(attr):
            found = False
            for c in self.an.model.all_classes():
                if attr in getattr(c, "ann_only", {}):
                    found = True
                    if not any(k in src(c.ann_only[attr]) for k in IMM):
                        return False
                if attr in c.attrs:
                    found = True
                    v = c.attrs[attr]
                    if not isinstance(v, (ast.Constant, ast.Tuple)):
                        return False
                m = c.methods.get(attr)
                if m is not None:
                    found = True
                    ann = src(m.node.returns) if m.node.returns is not None \
                        else ""
                    if not any(ann.startswith(k) for k in IMM):
                        return False
            return found

        def imm(e):
            if isinstance(e, (ast.Constant, ast.Tuple, ast.JoinedStr)):
                return True
            if isinstance(e, ast.Call) and src(e.func) in (
                    "len", "int", "float", "str", "bool", "tuple", "sum",
                    "max", "min", "abs", "round"):
                return True
            if isinstance(e, ast.Attribute):
                return imm_attr(e.attr)
            if isinstance(e, ast.BinOp):
                return imm(e.left) and imm(e.right)
            return False
        vals = []
        for st in _walk_local(self.node):
            if isinstance(st, ast.Assign) and any(
                    isinstance(t, ast.Name) and t.id == name
                    for t in st.targets):
                v = st.value
                if isinstance(v, (ast.ListComp, ast.SetComp,
                                  ast.GeneratorExp)):
                    vals.append(v.elt)
                elif isinstance(v, ast.DictComp):
                    vals.append(v.value)
                elif isinstance(v, (ast.List, ast.Tuple, ast.Set)):
                    vals.extend(v.elts)
                elif isinstance(v, ast.Dict):
                    vals.extend(x for x in v.values if x is not None)
                else:
                    return False
        return bool(vals) and all(imm(v) for v in vals)

    def scan_calls(self, e, env):
        """visit calls buried in an expression for their effects"""
        for n in ast.iter_child_nodes(e):
            if isinstance(n, ast.Call):
                self.call_roots(n, env)
            elif isinstance(n, (ast.Lambda, ast.FunctionDef)):
                continue
            elif isinstance(n, (ast.ListComp, ast.SetComp, ast.DictComp,
                                ast.GeneratorExp)):
                self.scan_calls(n, env)
            elif isinstance(n, ast.AST):
                self.scan_calls(n, env)

    # ------------------------------------------------------------------
    def effect(self, kind, roots: Roots, node, detail, via=None):
        # storing into a fresh container that merely *holds* shared
        # elements does not touch the elements
        roots = frozenset(r for r in roots if not r.startswith("elem:"))
        if kind not in ("global-state", "global-write") and not roots:
            return
        self.summary.effects.append(Effect(kind, roots, node, detail, via))

    def call_roots(self, call: ast.Call, env) -> Roots:  # noqa: C901
        f = call.func
        arg_roots = [self.roots(a, env) for a in call.args]
        kw_roots = {k.arg: self.roots(k.value, env) for k in call.keywords}
        dotted = self.an.model.dotted(self.module, f) if not (
            isinstance(f, ast.Name) and f.id in self.locals) else None
        if dotted is None and isinstance(f, ast.Name):
            # function-local 'from pkg import name' (also in an enclosing
            # function of a nested one)
            if not hasattr(self, "_local_imports"):
                li = {}
                scope = getattr(self, "outer_node", None) or self.node
                for x in ast.walk(scope):
                    if isinstance(x, ast.ImportFrom) and x.module:
                        for a_ in x.names:
                            li[a_.asname or a_.name] = \
                                f"{x.module}.{a_.name}"
                self._local_imports = li
            dotted = self._local_imports.get(f.id)
        # out= keyword
        if "out" in kw_roots and kw_roots["out"]:
            self.effect("out-kw", kw_roots["out"], call,
                        f"out= of {src(f)}")
        if dotted in GLOBAL_STATE_CALLS:
            self.effect("global-state", FRESH, call,
                        f"call of {dotted} changes process-global state")
        if dotted in INPLACE_FUNCS and call.args:
            self.effect("inplace-func", arg_roots[INPLACE_FUNCS[dotted]],
                        call, f"{dotted} writes its first argument")
        if dotted in CANONICALISERS and call.args:
            a0 = call.args[CANONICALISERS[dotted]]
            guarded = isinstance(a0, ast.Name) and env.get(
                "#canonical:" + a0.id)
            if not guarded:
                self.effect("inplace-func",
                            arg_roots[CANONICALISERS[dotted]], call,
                            f"{dotted} sorts the indices / sums the "
                            f"duplicates of a non-canonical matrix operand "
                            f"in place")
        if dotted in ("scipy.sparse.linalg.eigs",
                      "scipy.sparse.linalg.eigsh"):
            # regular mode (sigma=None) factorises M through M.T, a view
            for k in call.keywords:
                if k.arg == "M" and not (isinstance(k.value, ast.Name)
                                         and env.get("#canonical:"
                                                     + k.value.id)):
                    self.effect("inplace-func", kw_roots.get("M", FRESH),
                                call,
                                f"{dotted} (regular mode) sorts the indices "
                                f"of a non-canonical M operand in place "
                                f"through a view")
        if dotted in UFUNC_AT and call.args:
            self.effect("inplace-func", arg_roots[0], call,
                        f"{dotted} writes its first argument")
        if dotted in ALIAS_FUNCS and call.args:
            return arg_roots[0]
        if dotted == "numpy.einsum" and len(call.args) == 2 and \
                not any(k.arg == "out" for k in call.keywords):
            # one operand: einsum returns a *view* whenever the subscripts
            # only permute axes / take diagonals; it computes a new array
            # only if an index is summed away
            spec = call.args[0]
            summed = None
            if isinstance(spec, ast.Constant) and isinstance(spec.value,
                                                             str):
                sp = spec.value.replace(" ", "")
                if "->" in sp:
                    i_, o_ = sp.split("->")
                    summed = bool(set(i_.replace(".", "")) -
                                  set(o_.replace(".", "")))
                else:
                    letters = sp.replace(".", "")
                    summed = len(set(letters)) != len(letters)
            if summed is not True:
                return arg_roots[1]
        if dotted in ("copy.copy",) and call.args:
            return FRESH
        # method call on an object
        if isinstance(f, ast.Attribute):
            recv = self.roots(f.value, env)
            isnp = dotted is not None and (dotted.startswith("numpy")
                                           or dotted.startswith("scipy"))
            if f.attr in MUTATORS and recv and not isnp and \
                    not self._is_module(f.value):
                self.effect("mutator", recv, call,
                            f"{src(f.value)}.{f.attr}(...) mutates its "
                            f"receiver")
            callee = self.an.resolve_callee(self.module, self.cls, call)
            if callee is not None and self.depth < self.an.max_depth:
                return self.apply_summary(callee, call, recv, arg_roots,
                                          kw_roots, env, method=True)
            if f.attr in ("tocsr", "tocsc", "tocoo") and isinstance(
                    f.value, ast.Name) and env.get(
                    f"#notfmt:{f.value.id}:{f.attr[2:]}"):
                return FRESH          # known to have another format here
            if f.attr in VIEW_METHODS:
                return recv
            return FRESH
        # plain function / class call
        if isinstance(f, ast.Name) and f.id in env and f.id in self.locals:
            return FRESH
        callee = self.an.resolve_callee(self.module, self.cls, call)
        if callee is not None and self.depth < self.an.max_depth:
            return self.apply_summary(callee, call, FRESH, arg_roots,
                                      kw_roots, env, method=False)
        return FRESH

    def _is_module(self, e) -> bool:
        if isinstance(e, ast.Name) and e.id not in self.locals:
            r = self.an.model.resolve(self.module, e.id)
            return r is not None and r[0] in ("module", "external")
        if isinstance(e, ast.Attribute):
            return self._is_module(e.value)
        return False

    def apply_summary(self, callee: FuncInfo, call, recv: Roots, arg_roots,
                      kw_roots, env, method: bool) -> Roots:
        s = self.an.summarize(callee, self.depth + 1)
        params = list(s.params)
        binding: Dict[str, Roots] = {}
        decos = {src(d) for d in callee.node.decorator_list}
        has_self = callee.cls is not None and "staticmethod" not in decos
        is_ctor = callee.name == "__init__" and not (
            isinstance(call.func, ast.Attribute)
            and call.func.attr == "__init__")
        if has_self and params:
            binding["self"] = FRESH if is_ctor else recv
            params = params[1:]
        for p, r in zip(params, arg_roots):
            binding[f"param:{p}"] = r
        for k, r in kw_roots.items():
            if k is not None:
                binding[f"param:{k}"] = r

        def translate(roots: Roots) -> Roots:
            out = set()
            for r in roots:
                if r.startswith("elem:"):
                    out |= _elem(translate(frozenset({r[5:]})))
                    continue
                if r.startswith("ow:"):
                    out |= {"ow:" + x if not x.startswith("ow:") else x
                            for x in translate(frozenset({r[3:]}))}
                    continue
                if r == "self" or r.startswith("self."):
                    b = binding.get("self", FRESH)
                    if r != "self" and b == frozenset({"self"}):
                        out.add(r)          # same object: keep the field
                    else:
                        out |= b
                elif r.startswith("param:"):
                    out |= binding.get(r, FRESH)
                elif r.startswith("global:"):
                    out.add(r)
            return frozenset(out)
        if binding.get("self") == frozenset({"self"}):
            self.summary.attr_reads |= s.attr_reads
            self.summary.attr_stores_via |= s.attr_stores | s.attr_stores_via
        for e in s.effects:
            if e.kind in ("global-state", "global-write"):
                self.summary.effects.append(
                    Effect(e.kind, FRESH, call, e.detail,
                           via=callee.qualname))
                continue
            tr = translate(e.roots)
            if tr:
                self.summary.effects.append(
                    Effect("via-call", tr, call,
                           f"{callee.short()} -> {e.detail}",
                           via=callee.qualname))
        if is_ctor:
            return FRESH
        self.last_tuple = ([translate(r) for r in s.returns_tuple]
                           if s.returns_tuple is not None else None)
        self.last_tuple_call = call
        return translate(s.returns)

    # ------------------------------------------------------------------
    def block(self, body, env):
        for st in body:
            self.stmt(st, env)

    def join(self, a: Dict[str, Roots], b: Dict[str, Roots]):
        out = {}
        for k in set(a) | set(b):
            if k.startswith("#fresh-attr:"):
                # must hold on both paths
                if a.get(k) and b.get(k):
                    out[k] = a[k]
                continue
            out[k] = a.get(k, FRESH) | b.get(k, FRESH)
        return out

    def bind(self, target, roots: Roots, env, value=None):
        if isinstance(target, ast.Name):
            if target.id in self.globals_decl:
                self.effect("global-write", FRESH, target,
                            f"assignment to module global {target.id}")
            env[target.id] = roots
            env["#id:" + target.id] = self.ident_roots(value, env) \
                if value is not None else roots
            env["#imm:" + target.id] = frozenset({"1"}) if isinstance(
                value, (ast.Tuple, ast.Constant, ast.JoinedStr)) else FRESH
        elif isinstance(target, (ast.Tuple, ast.List)):
            vals = value.elts if isinstance(value, (ast.Tuple, ast.List)) \
                and len(value.elts) == len(target.elts) else None
            per = None
            if vals is None and isinstance(value, ast.Call) and \
                    getattr(self, "last_tuple_call", None) is value and \
                    self.last_tuple is not None and \
                    len(self.last_tuple) == len(target.elts):
                per = self.last_tuple
            for i, t in enumerate(target.elts):
                if vals is not None:
                    self.bind(t, self.roots(vals[i], env), env, vals[i])
                elif per is not None:
                    self.bind(t, per[i], env)
                else:
                    self.bind(t, _unelem(roots), env)
        elif isinstance(target, ast.Starred):
            self.bind(target.value, roots, env)
        elif isinstance(target, ast.Subscript):
            base = self.roots(target.value, env)
            self.roots(target.slice, env)
            self.effect("store", base, target,
                        f"in-place store into {src(target.value)}[...]")
        elif isinstance(target, ast.Attribute):
            self.roots(target.value, env)
            base = self.ident_roots(target.value, env)
            if isinstance(target.value, ast.Name) and \
                    target.value.id == "self" and self.is_method:
                self.summary.attr_stores.add(target.attr)
                # self.X rebound: later stores into self.X[...] in this
                # function go to the new object - fresh if the value is
                if not roots:
                    env["#fresh-attr:" + target.attr] = frozenset({"1"})
                else:
                    env.pop("#fresh-attr:" + target.attr, None)
            if isinstance(target.value, ast.Name) and \
                    target.value.id == "cls":
                self.effect("global-write", FRESH, target,
                            f"class attribute {src(target)} assigned "
                            f"through cls")
            self.effect("attr-store", base, target,
                        f"attribute store {src(target)} = ...")

    def stmt(self, st, env):  # noqa: C901
        if isinstance(st, ast.Assign):
            r = self.roots(st.value, env)
            for t in st.targets:
                self.bind(t, r, env, st.value)
        elif isinstance(st, ast.AnnAssign):
            if st.value is not None:
                self.bind(st.target, self.roots(st.value, env), env, st.value)
        elif isinstance(st, ast.AugAssign):
            self.roots(st.value, env)
            t = st.target
            if isinstance(t, ast.Name):
                base = self.name_roots(t.id, env)
                # x op= v mutates x in place when x is an ndarray; tuples,
                # numbers and strings are rebound instead
                if not env.get("#imm:" + t.id) and self._arrayish(t.id):
                    self.effect("augassign-name", base, st,
                                f"{t.id} {_op(st.op)}= ... mutates the array "
                                f"{t.id} in place")
                env["#imm:" + t.id] = env.get("#imm:" + t.id, FRESH)
            elif isinstance(t, ast.Subscript):
                base = self.roots(t.value, env)
                self.effect("store", base, st,
                            f"in-place {_op(st.op)}= into "
                            f"{src(t.value)}[...]")
                # c[k] op= v on a fresh container that holds shared
                # elements: the element itself is updated in place when it
                # is an array (numbers are rebound in the container)
                shared = frozenset(r[5:] for r in base
                                   if r.startswith("elem:"))
                if shared and isinstance(t.value, ast.Name) and \
                        not self._elements_immutable(t.value.id):
                    self.effect("augassign-name", shared, st,
                                f"{src(t)} {_op(st.op)}= ... updates the "
                                f"element of {t.value.id} in place - an "
                                f"object shared with "
                                f"{sorted(shared)[0].split(':')[-1]}")
            elif isinstance(t, ast.Attribute):
                base = self.roots(t.value, env)
                self.effect("attr-store", base, st,
                            f"attribute {src(t)} {_op(st.op)}= ...")
        elif isinstance(st, ast.Expr):
            self.roots(st.value, env)
        elif isinstance(st, ast.Return):
            if st.value is not None:
                self.summary.returns |= self.roots(st.value, env)
                sm = self.summary
                if isinstance(st.value, ast.Tuple) and not any(
                        isinstance(x, ast.Starred) for x in st.value.elts):
                    per = [self.roots(x, env) for x in st.value.elts]
                    if sm._ret_seen == 0:
                        sm.returns_tuple = per
                    elif sm.returns_tuple is not None and \
                            len(sm.returns_tuple) == len(per):
                        sm.returns_tuple = [a | b for a, b in
                                            zip(sm.returns_tuple, per)]
                    else:
                        sm.returns_tuple = None
                else:
                    sm.returns_tuple = None if sm._ret_seen else \
                        sm.returns_tuple
                    if sm._ret_seen == 0:
                        sm.returns_tuple = None
                    sm.returns_tuple = None
                sm._ret_seen += 1
        elif isinstance(st, ast.If):
            self.roots(st.test, env)
            e1, e2 = dict(env), dict(env)
            # X.format != 'csr' (== on the else side): on that branch
            # X.tocsr() builds a new matrix
            t0 = st.test
            if isinstance(t0, ast.Compare) and len(t0.ops) == 1 and \
                    isinstance(t0.left, ast.Attribute) and \
                    t0.left.attr == "format" and isinstance(
                        t0.left.value, ast.Name) and isinstance(
                        t0.comparators[0], ast.Constant):
                key = f"#notfmt:{t0.left.value.id}:{t0.comparators[0].value}"
                if isinstance(t0.ops[0], ast.NotEq):
                    e1[key] = frozenset({"y"})
                elif isinstance(t0.ops[0], ast.Eq):
                    e2[key] = frozenset({"y"})
                    # X.format == 'bsr': on that branch X is in none of the
                    # *other* formats, so X.tocsr() / tocsc() / tocoo()
                    # builds a new matrix there
                    for other in ("csr", "csc", "coo"):
                        if other != t0.comparators[0].value:
                            e1[f"#notfmt:{t0.left.value.id}:{other}"] = \
                                frozenset({"y"})
            # X is None / X is not None: on the branch where X is None it
            # designates no storage at all (a later 'X = {} if X is None
            # else X' or X.update(...) cannot reach the caller's object
            # through that path)
            if isinstance(t0, ast.Compare) and len(t0.ops) == 1 and \
                    isinstance(t0.left, ast.Name) and isinstance(
                        t0.comparators[0], ast.Constant) and \
                    t0.comparators[0].value is None and \
                    t0.left.id in env:
                if isinstance(t0.ops[0], ast.IsNot):
                    e2[t0.left.id] = FRESH
                elif isinstance(t0.ops[0], ast.Is):
                    e1[t0.left.id] = FRESH
            # not isspmatrix_csr(X) / isspmatrix_csr(X)
            neg, t1 = False, t0
            if isinstance(t1, ast.UnaryOp) and isinstance(t1.op, ast.Not):
                neg, t1 = True, t1.operand
            if isinstance(t1, ast.Call) and src(t1.func).split(".")[-1] in (
                    "isspmatrix_csr", "isspmatrix_csc",
                    "isspmatrix_coo") and t1.args and isinstance(
                    t1.args[0], ast.Name):
                fmt = src(t1.func).split(".")[-1][-3:]
                key = f"#notfmt:{t1.args[0].id}:{fmt}"
                (e1 if neg else e2)[key] = frozenset({"y"})
            self.block(st.body, e1)
            self.block(st.orelse, e2)
            env.clear()
            env.update(self.join(e1, e2))
            # 'if not X.has_canonical_format: X = X.copy()': afterwards X
            # is canonical or private - a canonicaliser leaves the caller's
            # object alone
            t = st.test
            if isinstance(t, ast.UnaryOp) and isinstance(t.op, ast.Not) and \
                    isinstance(t.operand, ast.Call) and \
                    src(t.operand.func) == "getattr" and \
                    len(t.operand.args) == 3 and \
                    isinstance(t.operand.args[1], ast.Constant) and \
                    isinstance(t.operand.args[1].value, str) and \
                    isinstance(t.operand.args[2], ast.Constant) and \
                    t.operand.args[2].value is True:
                # getattr(X, 'has_canonical_format', True): storage formats
                # without the flag (LIL, DOK, DIA) are converted - copied -
                # by the routine, never modified in place
                t = ast.UnaryOp(op=ast.Not(), operand=ast.Attribute(
                    value=t.operand.args[0],
                    attr=t.operand.args[1].value, ctx=ast.Load()))
            if isinstance(t, ast.UnaryOp) and isinstance(t.op, ast.Not) and \
                    isinstance(t.operand, ast.Attribute) and \
                    t.operand.attr in ("has_canonical_format",
                                       "has_sorted_indices") and \
                    isinstance(t.operand.value, ast.Name) and \
                    not st.orelse and len(st.body) == 1 and isinstance(
                        st.body[0], ast.Assign) and src(
                        st.body[0].targets[0]) == t.operand.value.id and \
                    isinstance(st.body[0].value, ast.Call) and src(
                        st.body[0].value.func) == \
                    t.operand.value.id + ".copy" and \
                    t.operand.attr == "has_canonical_format":
                env["#canonical:" + t.operand.value.id] = frozenset({"y"})
        elif isinstance(st, (ast.For, ast.AsyncFor)):
            it = self.roots(st.iter, env)
            it = _unelem(it)
            for _ in range(2):
                e1 = dict(env)
                self.bind(st.target, it, e1)
                n0 = len(self.summary.effects)
                self.block(st.body, e1)
                if _ == 0:
                    del self.summary.effects[n0:]
                j = self.join(env, e1)
                env.clear()
                env.update(j)
            self.block(st.orelse, env)
        elif isinstance(st, ast.While):
            self.roots(st.test, env)
            for _ in range(2):
                e1 = dict(env)
                n0 = len(self.summary.effects)
                self.block(st.body, e1)
                if _ == 0:
                    del self.summary.effects[n0:]
                j = self.join(env, e1)
                env.clear()
                env.update(j)
            self.block(st.orelse, env)
        elif isinstance(st, ast.Try):
            e0 = dict(env)
            self.block(st.body, env)
            outs = [dict(env)]
            for h in st.handlers:
                eh = self.join(e0, env)
                if h.name:
                    eh[h.name] = FRESH
                self.block(h.body, eh)
                outs.append(eh)
            self.block(st.orelse, env)
            outs.append(dict(env))
            j = outs[0]
            for o in outs[1:]:
                j = self.join(j, o)
            env.clear()
            env.update(j)
            self.block(st.finalbody, env)
        elif isinstance(st, (ast.With, ast.AsyncWith)):
            for it in st.items:
                r = self.roots(it.context_expr, env)
                if it.optional_vars is not None:
                    self.bind(it.optional_vars, r, env)
            self.block(st.body, env)
        elif isinstance(st, ast.Delete):
            for t in st.targets:
                if isinstance(t, ast.Subscript):
                    base = self.roots(t.value, env)
                    self.effect("store", base, st,
                                f"del {src(t.value)}[...]")
                elif isinstance(t, ast.Attribute):
                    base = self.roots(t.value, env)
                    self.effect("attr-store", base, st,
                                f"del {src(t)}")
        elif isinstance(st, (ast.FunctionDef, ast.AsyncFunctionDef)):
            # a nested function: its effects on captured names are effects
            # of *calling* it; recorded by the closure rule, not here
            env[st.name] = FRESH
        elif isinstance(st, (ast.Raise, ast.Assert)):
            for n in ast.iter_child_nodes(st):
                if isinstance(n, ast.expr):
                    self.roots(n, env)
        elif isinstance(st, ast.Global):
            pass
        elif isinstance(st, ast.Match):
            self.roots(st.subject, env)
            outs = []
            for c in st.cases:
                e1 = dict(env)
                self.block(c.body, e1)
                outs.append(e1)
            j = dict(env)
            for o in outs:
                j = self.join(j, o)
            env.clear()
            env.update(j)


def _elem(roots: Roots) -> Roots:
    return frozenset(r if r.startswith("elem:") else "elem:" + r
                     for r in roots)


def _unelem(roots: Roots) -> Roots:
    return frozenset(r[5:] if r.startswith("elem:") else r for r in roots)


def _op(op) -> str:
    return {ast.Add: "+", ast.Sub: "-", ast.Mult: "*", ast.Div: "/",
            ast.BitOr: "|", ast.BitAnd: "&", ast.FloorDiv: "//",
            ast.Mod: "%", ast.Pow: "**", ast.MatMult: "@",
            ast.LShift: "<<", ast.RShift: ">>",
            ast.BitXor: "^"}.get(type(op), "?")


def _walk_local(node):
    """Nodes of a function excluding nested function / class bodies."""
    stack = list(ast.iter_child_nodes(node))
    while stack:
        n = stack.pop()
        yield n
        if isinstance(n, (ast.FunctionDef, ast.AsyncFunctionDef, ast.Lambda,
                          ast.ClassDef)):
            continue
        stack.extend(ast.iter_child_nodes(n))


def local_names(node) -> Set[str]:
    out = set()
    a = node.args
    for x in a.posonlyargs + a.args + a.kwonlyargs:
        out.add(x.arg)
    if a.vararg:
        out.add(a.vararg.arg)
    if a.kwarg:
        out.add(a.kwarg.arg)
    if isinstance(node, ast.Lambda):
        return out
    for n in _walk_local(node):
        if isinstance(n, ast.Name) and isinstance(n.ctx, ast.Store):
            out.add(n.id)
        elif isinstance(n, (ast.FunctionDef, ast.ClassDef)):
            out.add(n.name)
    return out
