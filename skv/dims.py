"""Physical-dimension inference for a single function body.

Every value is abstracted to the exponent of the mesh's length unit it
carries (a Fraction), to ANY (zero, booleans, shapes, indices: compatible
with every dimension) or to a tuple of such.  Additions, comparisons and
clipping bounds must be homogeneous; a comparison of a dimensionful quantity
with a dimensionless constant is a test whose outcome changes when the same
geometry is expressed in other units - the static form of "holds for every
mesh, whatever its scale".

The evaluator covers the expression forms of the functions it is pointed at
and raises AnalysisError on anything else (fail closed).
"""
from __future__ import annotations

import ast
from fractions import Fraction
from typing import Any, Callable, Dict, List, Optional, Tuple

from .model import AnalysisError, src

ANY = "any"


class Inhomogeneous(Exception):
    def __init__(self, node, what):
        super().__init__(what)
        self.node, self.what = node, what


def show(d) -> str:
    if d == ANY:
        return "any"
    if isinstance(d, tuple):
        return "(" + ", ".join(show(x) for x in d) + ")"
    return "dimensionless" if d == 0 else f"length^{d}"


def unify(node, what, *ds):
    out = ANY
    for d in ds:
        if d == ANY:
            continue
        if isinstance(d, tuple):
            raise AnalysisError(f"dimension of a tuple used as a scalar: "
                                f"{src(node)}")
        if out == ANY:
            out = d
        elif out != d:
            raise Inhomogeneous(node, f"{what}: {src(node)[:90]} combines "
                                f"{show(out)} with {show(d)}")
    return out


class DimEval:
    """api: method name -> dimension of ``self.<name>(...)`` results;
    attrs: attribute name -> dimension of ``self.<name>``."""

    PASS_FUNCS = {"numpy.abs", "numpy.linalg.norm", "numpy.max", "numpy.min",
                  "numpy.sum", "numpy.mean", "numpy.array", "numpy.asarray",
                  "numpy.squeeze", "numpy.atleast_2d", "numpy.copy",
                  "numpy.broadcast_to", "numpy.tile", "numpy.repeat",
                  "numpy.transpose", "numpy.amax", "numpy.amin"}
    PASS_METHODS = {"all", "any", "max", "min", "sum", "copy", "flatten",
                    "reshape", "astype", "mean", "transpose"}

    def __init__(self, api: Dict[str, Any], attrs: Dict[str, Any],
                 dotted: Callable[[ast.AST], Optional[str]]):
        self.api, self.attrs, self.dotted = api, attrs, dotted
        self.checked: List[Tuple[ast.AST, str, Any]] = []
        self.failed: List[Inhomogeneous] = []

    # -- expressions
    def ev(self, e, env):
        if isinstance(e, ast.Constant):
            if isinstance(e.value, bool) or e.value is None or \
                    isinstance(e.value, str):
                return ANY
            if isinstance(e.value, (int, float)):
                return ANY if e.value == 0 else Fraction(0)
            raise AnalysisError(f"dims: constant {e.value!r}")
        if isinstance(e, ast.Name):
            if e.id in env:
                return env[e.id]
            raise AnalysisError(f"dims: unbound name {e.id}")
        if isinstance(e, ast.Tuple) or isinstance(e, ast.List):
            return tuple(self.ev(x, env) for x in e.elts)
        if isinstance(e, ast.UnaryOp):
            return ANY if isinstance(e.op, ast.Not) else self.ev(e.operand,
                                                                 env)
        if isinstance(e, ast.BoolOp):
            for v in e.values:
                self.ev(v, env)
            return ANY
        if isinstance(e, ast.Subscript):
            base = self.ev(e.value, env)
            self._ev_index(e.slice, env)
            return base
        if isinstance(e, ast.Attribute):
            if isinstance(e.value, ast.Name) and e.value.id == "self":
                if e.attr in self.attrs:
                    return self.attrs[e.attr]
                raise AnalysisError(f"dims: self.{e.attr} has no declared "
                                    f"dimension")
            if e.attr in ("shape", "ndim", "size", "dtype"):
                self.ev(e.value, env)
                return ANY
            if e.attr == "T":
                return self.ev(e.value, env)
            # dotted paths below self declared as a whole
            # (e.g. 'elem.refdom.p': reference coordinates, dimensionless)
            path = src(e)
            if path.startswith("self.") and path[5:] in self.attrs:
                return self.attrs[path[5:]]
            raise AnalysisError(f"dims: attribute {src(e)}")
        if isinstance(e, ast.BinOp):
            l, r = self.ev(e.left, env), self.ev(e.right, env)
            if isinstance(e.op, (ast.Add, ast.Sub)):
                return self._homog(e, "sum", l, r)
            if isinstance(l, tuple) or isinstance(r, tuple):
                raise AnalysisError(f"dims: arithmetic on tuple {src(e)}")
            if isinstance(e.op, (ast.Mult, ast.MatMult)):
                if l == ANY:
                    return r
                if r == ANY:
                    return l
                return l + r
            if isinstance(e.op, (ast.Div, ast.FloorDiv)):
                if l == ANY:
                    return ANY if r == ANY else -r
                return l if r == ANY else l - r
            if isinstance(e.op, ast.Pow):
                if isinstance(e.right, ast.Constant) and isinstance(
                        e.right.value, (int, float)):
                    return ANY if l == ANY else l * Fraction(e.right.value)
                raise AnalysisError(f"dims: non-constant power {src(e)}")
            raise AnalysisError(f"dims: operator in {src(e)}")
        if isinstance(e, ast.Compare):
            ds = [self.ev(e.left, env)] + [self.ev(c, env)
                                           for c in e.comparators]
            if all(isinstance(o, (ast.Is, ast.IsNot, ast.In, ast.NotIn))
                   for o in e.ops):
                return ANY
            self._homog(e, "comparison", *ds)
            return ANY
        if isinstance(e, ast.IfExp):
            self.ev(e.test, env)
            return self._homog(e, "conditional", self.ev(e.body, env),
                               self.ev(e.orelse, env))
        if isinstance(e, ast.Call):
            return self._call(e, env)
        if isinstance(e, ast.ListComp):
            loc = dict(env)
            for g in e.generators:
                self.ev(g.iter, loc)
                for n in ast.walk(g.target):
                    if isinstance(n, ast.Name):
                        loc[n.id] = ANY
            return self.ev(e.elt, loc)
        if isinstance(e, ast.JoinedStr):
            return ANY
        raise AnalysisError(f"dims: expression {type(e).__name__}: "
                            f"{src(e)[:60]}")

    def _ev_index(self, s, env):
        for n in ast.walk(s):
            if isinstance(n, ast.Name) and n.id not in env:
                raise AnalysisError(f"dims: unbound name {n.id} in index")

    def _homog(self, node, what, *ds):
        try:
            d = unify(node, what, *ds)
            self.checked.append((node, what, d))
            return d
        except Inhomogeneous as ex:
            self.failed.append(ex)
            return ANY

    def _call(self, e, env):
        f = e.func
        args = [self.ev(a, env) for a in e.args]
        for k in e.keywords:
            self.ev(k.value, env)
        if isinstance(f, ast.Attribute) and isinstance(f.value, ast.Name) \
                and f.value.id == "self":
            if f.attr in self.api:
                return self.api[f.attr]
            raise AnalysisError(f"dims: self.{f.attr}() has no declared "
                                f"dimension")
        d = self.dotted(f)
        if d in ("numpy.zeros", "numpy.empty", "numpy.zeros_like",
                 "numpy.empty_like", "numpy.arange", "numpy.nonzero",
                 "numpy.isnan", "numpy.isfinite"):
            return ANY
        if d in ("numpy.ones", "numpy.ones_like", "numpy.eye"):
            return Fraction(0)
        if d == "numpy.einsum":
            tot = Fraction(0)
            for a in args[1:]:
                if a == ANY:
                    return ANY
                if isinstance(a, tuple):
                    raise AnalysisError("dims: einsum of tuple")
                tot += a
            return tot
        if d == "numpy.clip":
            return self._homog(e, "clipping bounds", *args[:3])
        if d == "numpy.sqrt":
            return ANY if args[0] == ANY else args[0] / 2
        if d in self.PASS_FUNCS:
            return args[0]
        if d in ("numpy.maximum", "numpy.minimum"):
            return self._homog(e, "elementwise extremum", *args[:2])
        if isinstance(f, ast.Name) and f.id in ("range", "len", "int",
                                                "bool", "enumerate"):
            return ANY
        if isinstance(f, ast.Name) and f.id in ("float", "abs", "max", "min",
                                                "sum"):
            return args[0] if len(args) == 1 else \
                self._homog(e, "extremum", *args)
        if d in ("numpy.random.RandomState", "numpy.random.default_rng"):
            return ANY                      # a generator object
        if isinstance(f, ast.Attribute) and f.attr in (
                "random_sample", "random", "rand", "uniform",
                "standard_normal", "randn"):
            return Fraction(0)              # plain numbers
        if isinstance(f, ast.Attribute) and f.attr in self.PASS_METHODS:
            return self.ev(f.value, env)
        if isinstance(f, ast.Attribute) and f.attr == "format":
            return ANY
        if isinstance(f, ast.Name) and f.id in ("Exception", "ValueError",
                                                "RuntimeError"):
            return ANY
        raise AnalysisError(f"dims: call {src(f)} has no dimension rule")

    # -- statements
    def run(self, body, env):
        for st in body:
            self.stmt(st, env)

    def stmt(self, st, env):
        if isinstance(st, ast.Expr):
            if isinstance(st.value, ast.Constant):
                return
            self.ev(st.value, env)
        elif isinstance(st, ast.Assign):
            v = self.ev(st.value, env)
            for t in st.targets:
                self._bind(t, v, env)
        elif isinstance(st, ast.AugAssign):
            if not isinstance(st.target, ast.Name):
                raise AnalysisError("dims: augmented store to non-name")
            v = self.ev(ast.BinOp(left=st.target, op=st.op, right=st.value),
                        env)
            env[st.target.id] = v
        elif isinstance(st, ast.For):
            self.ev(st.iter, env)
            self._bind(st.target, ANY, env)
            # twice: dimensions assigned late in the body feed its start
            for _ in range(2):
                self.run(st.body, env)
            self.run(st.orelse, env)
        elif isinstance(st, ast.While):
            for _ in range(2):
                self.ev(st.test, env)
                self.run(st.body, env)
        elif isinstance(st, ast.If):
            self.ev(st.test, env)
            e1, e2 = dict(env), dict(env)
            self.run(st.body, e1)
            self.run(st.orelse, e2)
            for k in set(e1) | set(e2):
                a, b = e1.get(k, ANY), e2.get(k, ANY)
                if a == b or b == ANY:
                    env[k] = a
                elif a == ANY:
                    env[k] = b
                else:
                    raise AnalysisError(f"dims: {k} has dimension "
                                        f"{show(a)} or {show(b)} depending "
                                        f"on the branch")
        elif isinstance(st, ast.Return):
            if st.value is not None:
                self.ev(st.value, env)
        elif isinstance(st, ast.Raise):
            if st.exc is not None:
                self.ev(st.exc, env)
        elif isinstance(st, (ast.Pass, ast.Break, ast.Continue)):
            return
        else:
            raise AnalysisError(f"dims: statement {type(st).__name__}")

    def _bind(self, t, v, env):
        if isinstance(t, ast.Name):
            env[t.id] = v
        elif isinstance(t, (ast.Tuple, ast.List)):
            if isinstance(v, tuple) and len(v) == len(t.elts):
                for a, b in zip(t.elts, v):
                    self._bind(a, b, env)
            else:
                for a in t.elts:
                    self._bind(a, v if not isinstance(v, tuple) else ANY,
                               env)
        elif isinstance(t, ast.Subscript):
            if isinstance(t.value, ast.Name) and t.value.id in env:
                env[t.value.id] = self._homog(t, "stored element",
                                              env[t.value.id], v)
            else:
                raise AnalysisError("dims: store into unknown container")
        else:
            raise AnalysisError("dims: assignment target")
