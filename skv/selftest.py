"""Self-validation of the checkers (thorough tier): every property module may
list ``MUTANTS`` - small source edits that still compile and that break the
property - and ``TWINS`` - behaviour-preserving refactorings.  Each edit is
applied to an *in-memory overlay* of the current source (nothing is written
to /repo), the property's rules are re-run on it, and the result is recorded
in the evidence: a mutant must produce a new finding (or fail closed with an
analysis error), a twin must stay silent.

An edit whose anchor text is not present exactly once in today's source is
reported as 'not applicable' (the tree moved on), never as a failure.
"""
from __future__ import annotations

import os
from concurrent.futures import ProcessPoolExecutor
from typing import Dict, List, Tuple

from .model import AnalysisError, Model
from .report import Report

_MOD = None
_BASE_KEYS = None


def _apply(model: Model, edits) -> Dict[str, str]:
    overlay = {}
    for (path, old, new) in edits:
        s = overlay.get(path, model.sources.get(path))
        if s is None or s.count(old) != 1:
            return None
        overlay[path] = s.replace(old, new)
    return overlay


def _run_variant(args):
    import importlib
    pid, name, overlay, base_keys = args
    mod = importlib.import_module(f"skv.props.{pid.lower()}")
    rep = Report(pid, "quick")
    try:
        m = Model(overlay=overlay)
        mod.run(m, rep, "quick")
    except AnalysisError as e:
        new = [f for f in rep.findings if f.key() not in base_keys]
        if new:      # same policy as the cli: established violations count
            return name, "detected", [
                f"{f.rule} [{f.construct}] {f.message}"[:240]
                for f in new[:3]]
        return name, "analysis-error", [str(e)[:200]]
    except Exception as e:       # a checker crash is a fail-closed outcome
        return name, "analysis-error", [f"{type(e).__name__}: {e}"[:200]]
    new = [f for f in rep.findings if f.key() not in base_keys]
    if new:
        return name, "detected", [f"{f.rule} [{f.construct}] {f.message}"[:240]
                                  for f in new[:3]]
    return name, "silent", []


def self_validate(pid: str, mod, model: Model, rep: Report) -> None:
    mutants = list(getattr(mod, "MUTANTS", []))
    twins = list(getattr(mod, "TWINS", []))
    if not mutants and not twins:
        return
    base_keys = {f.key() for f in rep.findings}
    jobs, kinds, na = [], {}, []
    for kind, lst in (("mutant", mutants), ("twin", twins)):
        for item in lst:
            name, edits = item[0], item[1]
            if edits and isinstance(edits[0], str):
                edits = [edits]
            ov = _apply(model, edits)
            if ov is None:
                na.append(name)
                continue
            kinds[name] = (kind, item[2] if len(item) > 2 else None)
            jobs.append((pid, name, ov, base_keys))
    results = []
    if jobs:
        workers = min(16, len(jobs), os.cpu_count() or 1)
        with ProcessPoolExecutor(max_workers=workers) as ex:
            results = list(ex.map(_run_variant, jobs))
    out = {"mutants": [], "twins": [], "not_applicable": na}
    detected = missed = twin_ok = twin_bad = closed = 0
    for name, verdict, detail in results:
        kind, expect = kinds[name]
        rec = {"name": name, "verdict": verdict, "detail": detail}
        if kind == "mutant":
            if verdict == "detected":
                if expect and not any(d.startswith(expect) for d in detail):
                    rec["verdict"] = "detected-by-other-rule"
                detected += 1
            elif verdict == "analysis-error":
                closed += 1
                print(f"  selftest: mutant '{name}' fails closed: "
                      f"{detail[0][:160] if detail else ''}")
            else:
                missed += 1
                print(f"SELFTEST-MISS {pid}: mutant '{name}' not detected")
            out["mutants"].append(rec)
        else:
            if verdict == "silent":
                twin_ok += 1
            else:
                twin_bad += 1
                print(f"SELFTEST-FALSE-ALARM {pid}: twin '{name}' -> "
                      f"{verdict} {detail[:1]}")
            out["twins"].append(rec)
    out["summary"] = {"mutants_detected": detected,
                      "mutants_failed_closed": closed,
                      "mutants_missed": missed,
                      "twins_silent": twin_ok, "twins_alarmed": twin_bad}
    rep.extra["selftest"] = out
    for nm in na:
        print(f"  selftest: '{nm}' not applicable (anchor text not found "
              f"exactly once)")
    print(f"  selftest: {detected} mutants detected, {closed} failed closed, "
          f"{missed} missed; {twin_ok} twins silent, {twin_bad} alarmed; "
          f"{len(na)} not applicable")
