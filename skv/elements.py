"""Reference-element facts read from source: class attributes folded to
constants, ``Refdom`` tables, and the local basis of every element class
translated to exact polynomials (engine B)."""
from __future__ import annotations

import ast
from dataclasses import dataclass, field
from fractions import Fraction
from typing import Any, Dict, List, Optional, Tuple

from .interp import (Arr, Interp, Obj, Raised, Unsupported, ClassRef, PTS,
                     to_arr)
from .model import AnalysisError, ClassInfo, Model
from .poly import Poly, Rat, is_scalar

COORDS = ("x", "y", "z")


@dataclass
class RefdomInfo:
    cls: ClassInfo
    name: str
    dim: int
    p: List[Tuple[Fraction, ...]]            # vertices (list of points)
    facets: Optional[List[List[int]]]
    edges: Optional[List[List[int]]]
    normals: Optional[List[Tuple[Fraction, ...]]]
    nnodes: int
    nfacets: int
    nedges: int
    brefdom: Optional[str]

    @property
    def kind(self) -> str:
        return {"RefPoint": "point", "RefLine": "line", "RefTri": "simplex",
                "RefTet": "simplex", "RefQuad": "box", "RefHex": "box",
                "RefWedge": "prism"}.get(self.name, "?")


def _frac_table(v) -> List[Tuple[Fraction, ...]]:
    if not isinstance(v, Arr):
        raise Unsupported("table is not an array literal")
    rows = []
    for k in range(v.shape[0]):
        r = v[k]
        if isinstance(r, Arr):
            rows.append(tuple(Fraction(x) for x in r.flat()))
        else:
            rows.append((Fraction(r),))
    return rows


def _np_hook(interp, name, args, kwargs, node):
    # dtype= keyword etc. are irrelevant for the rational tables
    return NotImplemented


def load_refdoms(model: Model) -> Dict[str, RefdomInfo]:
    m = model.module("skfem.refdom")
    base = model.cls("skfem.refdom", "Refdom")
    out: Dict[str, RefdomInfo] = {}
    it = Interp(model)
    for c in m.classes.values():
        if c is base or not c.is_subclass_of("Refdom"):
            continue

        def attr(name, default=None):
            a = c.find_attr(name)
            if a is None:
                return default
            return it.eval(a[1], {}, a[0].module)
        try:
            p = attr("p")
            pt = p.transpose() if len(p.shape) == 2 else p
            pts = _frac_table(pt)
            dim = len(p.shape) and p.shape[0]
            if c.name == "RefPoint":
                dim = 0
            normals = attr("normals")
            facets = attr("facets")
            edges = attr("edges")
            br = c.find_attr("brefdom")
            brn = None
            if br is not None and isinstance(br[1], ast.Name):
                brn = br[1].id
            out[c.name] = RefdomInfo(
                c, c.name, dim, pts,
                [list(map(int, f)) for f in facets] if facets else None,
                [list(map(int, f)) for f in edges] if edges else None,
                _frac_table(normals) if normals is not None else None,
                int(attr("nnodes", 0)), int(attr("nfacets", 0)),
                int(attr("nedges", 0)), brn)
        except Unsupported as e:
            raise AnalysisError(f"Refdom table {c.name} outside the literal "
                                f"grammar: {e}")
    if len(out) < 7:
        raise AnalysisError(f"only {len(out)} Refdom subclasses found, 7 "
                            f"confirmed by hand")
    return out


@dataclass
class ElementInfo:
    cls: ClassInfo
    name: str
    family: str                    # h1 | hdiv | hcurl | matrix | global | other
    refdom: Optional[RefdomInfo]
    counts: Dict[str, int]         # nodal_dofs, facet_dofs, edge_dofs, interior_dofs
    maxdeg: Optional[int]
    dofnames: Optional[List[str]]
    doflocs: Optional[List[Tuple[Any, ...]]]
    nbfun: Optional[int] = None
    basis: Optional[List[Tuple[Any, Any]]] = None   # (phi, dphi) per local fn
    else_raises: Optional[bool] = None
    why_not: Optional[str] = None
    lbasis_owner: Optional[ClassInfo] = None
    approx: bool = False

    @property
    def dim(self) -> int:
        return self.refdom.dim if self.refdom else -1

    def block_sizes(self) -> List[int]:
        r = self.refdom
        return [self.counts["nodal_dofs"] * r.nnodes,
                self.counts["edge_dofs"] * r.nedges,
                self.counts["facet_dofs"] * r.nfacets,
                self.counts["interior_dofs"]]

    def entity_of(self, i: int) -> Tuple[str, int, int]:
        """(kind, entity index, dof row within entity) of local index i in
        the block order vertex, edge, facet, interior."""
        r = self.refdom
        for kind, per, n in (("vertex", self.counts["nodal_dofs"], r.nnodes),
                             ("edge", self.counts["edge_dofs"], r.nedges),
                             ("facet", self.counts["facet_dofs"], r.nfacets)):
            if i < per * n:
                return kind, i // per, i % per
            i -= per * n
        return "interior", 0, i


FAMILY_BASES = [("ElementMatrix", "matrix"), ("ElementHdiv", "hdiv"),
                ("ElementHcurl", "hcurl"), ("ElementGlobal", "global"),
                ("ElementH1", "h1")]

# classes whose constructor takes parameters or whose lbasis is built from
# run-time objects: one line of reason each (G5).
NOT_TRANSLATABLE = {
    "ElementLinePp": "Legendre tables built at run time from the degree p",
    "ElementQuadP": "Legendre tables built at run time from the degree p",
    "ElementTriSkeletonP0": "mask functions (Refdom.on_facet), not polynomials",
    "ElementTriSkeletonP1": "mask functions (Refdom.on_facet), not polynomials",
    "ElementTetSkeletonP0": "mask functions (Refdom.on_facet), not polynomials",
    "ElementHexSkeleton0": "mask functions (Refdom.on_facet), not polynomials",
}


def coord_point(dim: int) -> Arr:
    return Arr([Poly.sym(COORDS[k]) for k in range(dim)])


def load_elements(model: Model, refdoms: Dict[str, RefdomInfo] = None,
                  translate: bool = True) -> Dict[str, ElementInfo]:
    refdoms = refdoms or load_refdoms(model)
    out: Dict[str, ElementInfo] = {}
    for c in model.all_classes():
        if not c.module.name.startswith("skfem.element"):
            continue
        if not c.is_subclass_of("Element") or c.name == "Element":
            continue
        fam = "other"
        for b, f in FAMILY_BASES:
            if c.is_subclass_of(b) or c.name == b:
                fam = f
                break
        it = Interp(model)

        def attr(name, default=None):
            a = c.find_attr(name)
            if a is None:
                return default
            try:
                return it.eval(a[1], {}, a[0].module)
            except Unsupported:
                return default
        rd = None
        ra = c.find_attr("refdom")
        if ra is not None and isinstance(ra[1], ast.Name) and \
                ra[1].id in refdoms:
            rd = refdoms[ra[1].id]
        counts = {}
        for k in ("nodal_dofs", "facet_dofs", "edge_dofs", "interior_dofs"):
            v = attr(k, 0)
            counts[k] = int(v) if isinstance(v, (int, Fraction)) else None
        md = attr("maxdeg")
        dn = attr("dofnames")
        dl = attr("doflocs")
        dlr = None
        if isinstance(dl, Arr) and len(dl.shape) == 2:
            dlr = [tuple(dl[k].flat()) for k in range(dl.shape[0])]
        info = ElementInfo(c, c.name, fam, rd, counts,
                           int(md) if isinstance(md, (int, Fraction)) else None,
                           list(dn) if isinstance(dn, (list, tuple)) else None,
                           dlr)
        out[c.name] = info
        lb = c.find_method("lbasis")
        if lb is None or lb.cls.name in ("ElementH1", "ElementHdiv",
                                         "ElementHcurl", "ElementMatrix",
                                         "Element"):
            info.why_not = "no lbasis of its own (abstract or global element)"
            continue
        info.lbasis_owner = lb.cls
        if c.name in NOT_TRANSLATABLE:
            info.why_not = NOT_TRANSLATABLE[c.name]
            continue
        if rd is None or any(v is None for v in counts.values()):
            info.why_not = "reference domain or DOF counts not literal"
            continue
        if c.find_method("__init__") is not None and \
                c.find_method("__init__").cls.name != "Element":
            ini = c.find_method("__init__")
            if len(ini.params()) > 1:
                info.why_not = "constructor takes parameters"
                continue
        info.nbfun = sum(info.block_sizes())
        if translate:
            translate_lbasis(model, info)
    return out


def translate_lbasis(model: Model, info: ElementInfo) -> None:
    from .interp import Approx
    c = info.cls
    lb = c.find_method("lbasis")
    basis = []
    Approx.used = False
    try:
        for i in range(info.nbfun):
            it = Interp(model)
            obj = Obj(c)
            r = it.call(lb, [coord_point(info.dim), i], {}, self_obj=obj)
            if not isinstance(r, tuple) or len(r) < 1:
                raise Unsupported("lbasis does not return a tuple")
            basis.append(r)
        info.basis = basis
        info.approx = Approx.used
    except Raised as e:
        info.why_not = None
        info.basis = None
        info.else_raises = None
        info.why_not = f"RAISED-EARLY:{e.what}:{len(basis)}"
    except Unsupported as e:
        info.why_not = f"outside grammar: {e}"
        return
    # exhaustiveness: index N must reach the error helper / a raise
    try:
        Interp(model).call(lb, [coord_point(info.dim), info.nbfun], {},
                           self_obj=Obj(c))
        info.else_raises = False
    except Raised as e:
        # reaching the error helper / a raise statement counts; dying with
        # an UnboundLocalError on the fall-through path does not (that is
        # the 'else' branch missing, as before this was modelled)
        info.else_raises = not str(e.what).startswith("UnboundLocalError")
    except Unsupported:
        # e.g. falls through to 'return phi, dphi' with phi never bound:
        # at run time that is an UnboundLocalError, not the index error
        info.else_raises = False


# ----------------------------------------------------------------------
# vector calculus on translated values

def grad(phi, dim) -> List[Any]:
    return [pdiff(phi, COORDS[d]) for d in range(dim)]


def pdiff(v, s):
    if isinstance(v, Arr):
        return v.map(lambda t: pdiff(t, s))
    if isinstance(v, (int, Fraction)):
        return Poly()
    if isinstance(v, Poly):
        return v.diff(s)
    if isinstance(v, Rat):
        # quotient rule
        return Rat(v.n.diff(s) * v.d - v.n * v.d.diff(s), v.d * v.d)
    raise Unsupported(f"derivative of {type(v).__name__}")


def as_poly(v):
    if isinstance(v, (int, Fraction)):
        return Poly.const(v)
    return v


def eq(a, b) -> bool:
    a, b = as_poly(a), as_poly(b)
    if isinstance(a, Arr) or isinstance(b, Arr):
        if not (isinstance(a, Arr) and isinstance(b, Arr)):
            return False
        if a.shape != b.shape:
            return False
        return all(eq(x, y) for x, y in zip(a.flat(), b.flat()))
    try:
        return bool(a == b)
    except Exception:
        return False


def approx_eq(a, b, tol=Fraction(1, 10**11)) -> bool:
    """Equality up to coefficient noise, for obligations marked approximate
    because an irrational module constant was folded through a double."""
    a, b = as_poly(a), as_poly(b)
    if isinstance(a, Arr) and isinstance(b, Arr):
        return a.shape == b.shape and all(
            approx_eq(x, y, tol) for x, y in zip(a.flat(), b.flat()))
    if isinstance(a, Poly) and isinstance(b, Poly):
        return (a - b).max_abs_coeff() <= tol
    return eq(a, b)


def subs_point(v, pt: Tuple[Fraction, ...]):
    env = {COORDS[k]: Poly.const(pt[k]) for k in range(len(pt))}
    if isinstance(v, Arr):
        return v.map(lambda t: subs_point(t, pt))
    if isinstance(v, (int, Fraction)):
        return Fraction(v)
    if isinstance(v, Poly):
        r = v.subs(env)
        return r.const_value() if r.is_const() else r
    if isinstance(v, Rat):
        n, d = v.n.subs(env), v.d.subs(env)
        if n.is_const() and d.is_const():
            return n.const_value() / d.const_value()
        return Rat(n, d)
    raise Unsupported(f"substitution into {type(v).__name__}")
