"""Engine D (memo rule): find memoisation sites and decide whether the
staleness guard covers everything the cached value depends on."""
from __future__ import annotations

import ast
from dataclasses import dataclass, field
from typing import Dict, List, Optional, Set, Tuple

from .effects import Analyzer, _walk_local
from .model import FuncInfo, Model, src


@dataclass
class MemoSite:
    fn: FuncInfo
    node: ast.If
    cache_attrs: Set[str]
    guard: str
    deps: Set[str]                 # parameter access paths the value needs
    covered: Dict[str, str]        # path -> how (value / identity / key)
    weak: Dict[str, str]           # path -> insufficient test (shape, ...)
    keyfunc: Optional[str] = None
    via_helpers: List[str] = field(default_factory=list)
    self_reads: Set[str] = field(default_factory=set)
    stored_attrs: Set[str] = field(default_factory=set)
    notes: List[str] = field(default_factory=list)

    @property
    def construct(self) -> str:
        return f"{self.fn.short()}:memo[{','.join(sorted(self.cache_attrs))}]"


def _self_attr(e) -> Optional[str]:
    """``self.X`` (possibly followed by .shape / [k] / .attr) -> X"""
    while isinstance(e, (ast.Subscript, ast.Attribute)):
        if isinstance(e, ast.Attribute) and isinstance(e.value, ast.Name) \
                and e.value.id == "self":
            return e.attr
        e = e.value
    return None


def _param_path(e, params: Set[str]) -> Optional[str]:
    """``X`` / ``mapping.mesh`` -> dotted path rooted at a parameter."""
    parts = []
    while isinstance(e, ast.Attribute):
        parts.append(e.attr)
        e = e.value
    if isinstance(e, ast.Name) and e.id in params and e.id != "self":
        return ".".join([e.id] + parts[::-1])
    return None


class MemoFinder:
    def __init__(self, model: Model, analyzer: Analyzer):
        self.model, self.an = model, analyzer

    # ------------------------------------------------------------------
    def sites(self) -> List[MemoSite]:
        out = []
        for fn in self.model.all_functions():
            if fn.cls is None or fn.path.startswith("skfem/visuals"):
                continue
            if not fn.params() or fn.params()[0] != "self":
                continue
            for n in _walk_local(fn.node):
                if isinstance(n, ast.If):
                    s = self.site(fn, n)
                    if s is not None:
                        out.append(s)
        return out

    def tested_attrs(self, test) -> Tuple[Set[str], List[ast.AST]]:
        """self attributes whose presence / None-ness / key membership /
        shape / value the test inspects."""
        attrs, terms = set(), []
        for n in ast.walk(test):
            if isinstance(n, ast.Call) and isinstance(n.func, ast.Name) \
                    and n.func.id == "hasattr" and len(n.args) == 2 \
                    and isinstance(n.args[0], ast.Name) \
                    and n.args[0].id == "self" \
                    and isinstance(n.args[1], ast.Constant):
                attrs.add(n.args[1].value)
                terms.append(n)
            elif isinstance(n, ast.Compare):
                for side in [n.left] + n.comparators:
                    a = _self_attr(side)
                    if a is not None:
                        attrs.add(a)
                terms.append(n)
        return attrs, terms

    def site(self, fn: FuncInfo, node: ast.If) -> Optional[MemoSite]:
        attrs, terms = self.tested_attrs(node.test)
        if not attrs:
            return None
        params = set(fn.params())
        # stores in the body: direct, or through self-method calls
        stored: Set[str] = set()
        value_exprs: List[ast.expr] = []
        helpers: List[FuncInfo] = []
        snapshots: Dict[str, ast.expr] = {}
        for st in node.body:
            for n in [st] + list(_walk_local(st)):
                if isinstance(n, ast.Assign):
                    tg = []
                    for t in n.targets:
                        tg += t.elts if isinstance(t, (ast.Tuple, ast.List)) \
                            else [t]
                    hit = False
                    for t in tg:
                        a = _self_attr(t)
                        if a is not None:
                            stored.add(a)
                            hit = True
                            if isinstance(t, ast.Attribute):
                                snapshots[a] = n.value
                    if hit:
                        value_exprs.append(n.value)
                elif isinstance(n, ast.Call) and isinstance(
                        n.func, ast.Attribute) and isinstance(
                        n.func.value, ast.Name) and \
                        n.func.value.id == "self":
                    callee = fn.cls.find_method(n.func.attr)
                    if callee is not None:
                        s = self.an.summarize(callee)
                        st_all = s.attr_stores | s.attr_stores_via
                        if st_all & attrs:
                            stored |= st_all
                            helpers.append(callee)
                            value_exprs.extend(n.args)
                            value_exprs.extend(k.value for k in n.keywords)
        cache = attrs & stored
        if not cache:
            return None
        site = MemoSite(fn, node, cache, src(node.test), set(), {}, {})
        site.via_helpers = [h.short() for h in helpers]
        site.stored_attrs = set(stored)
        # dependencies on parameters
        deps: Set[str] = set()
        for e in value_exprs:
            deps |= self.param_deps(fn, e, params)
        # values that are pure snapshots of a parameter (self._X = X.copy())
        # are part of the guard mechanism, not of the cached value
        site.deps = {_strip_array_attrs(d) for d in deps}
        for h in helpers:
            site.self_reads |= self.an.summarize(h).attr_reads
        # everything self.<attr> read while (re)computing the value
        site.self_reads |= self.direct_self_reads(node.body)
        # guard coverage
        self.coverage(fn, node, site, snapshots, params)
        return site

    def direct_self_reads(self, exprs) -> Set[str]:
        out = set()
        for e in exprs:
            for n in ast.walk(e):
                if isinstance(n, ast.Attribute) and isinstance(
                        n.value, ast.Name) and n.value.id == "self":
                    out.add(n.attr)
        return out

    def param_deps(self, fn: FuncInfo, e, params: Set[str],
                   _seen=None) -> Set[str]:
        """Parameter access paths that flow into expression e (def-use
        closure over local assignments of the function)."""
        _seen = _seen if _seen is not None else set()
        out: Set[str] = set()
        skip: Set[int] = set()
        for n in ast.walk(e):
            if id(n) in skip:
                continue
            pth = _param_path(n, params)
            if pth is not None and isinstance(n, (ast.Attribute, ast.Name)):
                out.add(pth)
                for c in ast.walk(n):
                    skip.add(id(c))
                continue
            if isinstance(n, ast.Name) and n.id not in params and \
                    n.id not in _seen:
                _seen.add(n.id)
                for a in _walk_local(fn.node):
                    if isinstance(a, ast.Assign):
                        tg = []
                        for t in a.targets:
                            tg += [x for x in ast.walk(t)
                                   if isinstance(x, ast.Name)]
                        if any(x.id == n.id for x in tg):
                            out |= self.param_deps(fn, a.value, params,
                                                   _seen)
        # prefer the most specific paths: drop 'mapping' if only
        # 'mapping.mesh' style accesses occur is decided by the caller
        return out

    def coverage(self, fn, node, site: MemoSite, snapshots, params):
        test = node.test
        # key-based guard:  K not in self.C   with K = keyfunc(args)
        for n in ast.walk(test):
            if isinstance(n, ast.Compare) and len(n.ops) == 1 and \
                    isinstance(n.ops[0], (ast.NotIn, ast.In)):
                c = _self_attr(n.comparators[0])
                if c in site.cache_attrs:
                    key = n.left
                    kexpr = key
                    if isinstance(key, ast.Name):
                        for a in _walk_local(fn.node):
                            if isinstance(a, ast.Assign) and any(
                                    isinstance(t, ast.Name)
                                    and t.id == key.id for t in a.targets):
                                kexpr = a.value
                    if isinstance(kexpr, ast.Call):
                        site.keyfunc = self.model.dotted(fn.module,
                                                         kexpr.func) or \
                            src(kexpr.func)
                        for a in kexpr.args:
                            for p in self.param_deps(fn, a, params):
                                site.covered[p] = f"key:{site.keyfunc}"
                    else:
                        for p in self.param_deps(fn, kexpr, params):
                            site.covered[p] = "key:identity/hash of value"
        # comparisons of a stored snapshot with the parameter
        for n in ast.walk(test):
            if not isinstance(n, ast.Compare) or len(n.ops) != 1:
                continue
            sides = [n.left, n.comparators[0]]
            for a, b in (sides, sides[::-1]):
                sa = _self_attr(a)
                pb = _param_path(b, params)
                if sa is None:
                    continue
                whole_self = isinstance(a, ast.Attribute) and isinstance(
                    a.value, ast.Name) and a.value.id == "self"
                if pb is not None and whole_self:
                    snap = snapshots.get(sa)
                    if isinstance(n.ops[0], (ast.Is, ast.IsNot)):
                        if snap is not None and src(snap) == src(b):
                            site.covered[pb] = f"identity (self.{sa} is " \
                                               f"the object itself)"
                        else:
                            site.weak[pb] = f"identity test against " \
                                            f"self.{sa}, which is not " \
                                            f"stored from {pb}"
                    elif isinstance(n.ops[0], (ast.Eq, ast.NotEq)):
                        if snap is None:
                            site.weak[pb] = f"self.{sa} is compared but " \
                                            f"never refreshed"
                        elif self._is_copy_of(snap, b):
                            red = _reduction(test, n)
                            if red is None:
                                site.covered[pb] = f"value (== stored " \
                                                   f"copy self.{sa})"
                            else:
                                site.weak[pb] = (
                                    f"the elementwise comparison with the "
                                    f"stored copy self.{sa} is reduced by "
                                    f"{red}: the value is kept although "
                                    f"some entries of {pb} changed")
                        elif src(snap) == src(b):
                            site.weak[pb] = (f"self.{sa} aliases {pb} "
                                             f"(no copy): in-place changes "
                                             f"of the caller's array are "
                                             f"invisible")
                        else:
                            site.weak[pb] = f"self.{sa} not a copy of {pb}"
                else:
                    # shape-like comparison: self.A.shape ... vs X.shape ...
                    for pp in self.param_deps(fn, b, params):
                        if pp not in site.covered:
                            site.weak.setdefault(
                                pp, f"only '{src(n)}' is compared")
        site.covered = {_strip_array_attrs(k): v
                        for k, v in site.covered.items()}
        site.weak = {_strip_array_attrs(k): v for k, v in site.weak.items()}
        for p in list(site.weak):
            if p in site.covered:
                del site.weak[p]

    def _is_copy_of(self, snap, p) -> bool:
        if isinstance(snap, ast.Call):
            if isinstance(snap.func, ast.Attribute) and \
                    snap.func.attr == "copy" and \
                    src(snap.func.value) == src(p):
                return True
            if src(snap.func) in ("np.array", "np.copy", "numpy.array") and \
                    snap.args and src(snap.args[0]) == src(p):
                return True
        return False


def _reduction(test, cmp) -> Optional[str]:
    """How the elementwise comparison `cmp` (== / !=) inside the refresh
    condition `test` is reduced to a truth value.  The refresh has to happen
    as soon as ONE entry differs: '(a != b).any()' or 'not (a == b).all()'
    (and the np.any / np.all / np.array_equal spellings).  Returns None when
    the reduction is of that kind (or there is none: scalar comparison), else
    a description of the wrong reduction."""
    parent = {}
    for p in ast.walk(test):
        for c in ast.iter_child_nodes(p):
            parent[id(c)] = p
    red, node = None, cmp
    p = parent.get(id(node))
    if isinstance(p, ast.Attribute) and p.attr in ("any", "all") and \
            isinstance(parent.get(id(p)), ast.Call) and \
            parent[id(p)].func is p:
        red, node = p.attr, parent[id(p)]
    elif isinstance(p, ast.Call) and node in p.args and \
            src(p.func).split(".")[-1] in ("any", "all"):
        red, node = src(p.func).split(".")[-1], p
    if red is None:
        return None
    neg = False
    p = parent.get(id(node))
    while p is not None:
        if isinstance(p, ast.UnaryOp) and isinstance(p.op, ast.Not):
            neg = not neg
        elif not isinstance(p, ast.BoolOp):
            break
        p = parent.get(id(p))
    differs = isinstance(cmp.ops[0], ast.NotEq)
    if (differs, red, neg) in ((True, "any", False), (False, "all", True)):
        return None
    return (("not " if neg else "") + f"'.{red}()' over "
            f"'{'!=' if differs else '=='}'")


ARRAY_ATTRS = {"shape", "copy", "T", "dtype", "size", "ndim", "astype",
               "flatten", "any", "all", "tobytes", "ravel", "reshape"}


def _strip_array_attrs(path: str) -> str:
    parts = path.split(".")
    while len(parts) > 1 and parts[-1] in ARRAY_ATTRS:
        parts.pop()
    return ".".join(parts)


def normalise_deps(deps: Set[str]) -> Set[str]:
    """Drop a bare parameter when only sub-paths of it are used."""
    out = set(deps)
    for d in deps:
        if "." in d:
            root = d.split(".")[0]
            # keep the bare root only if it occurs on its own as well; the
            # finder adds the most specific path it sees for each use
    return out
