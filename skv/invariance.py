"""Similarity invariance of geometric decisions.

A decision the library takes from coordinates - which vertices of two meshes
coincide, which facets lie on the side of the bounding box, which edge of a
cell is the longest - must not depend on *where* the mesh lies nor on the
*unit* its coordinates are given in.  This module evaluates one expression
of a function body over a small abstract domain:

    ("aff", 1)    a position: moves with a translation of the mesh, scales
                  with the unit of length
    ("inv", d)    unchanged by a translation; scales with the d-th power of
                  the unit (d = 0: a pure number, a truth value, a count)
    ("bad", why)  neither - e.g. the absolute value of a position (a distance
                  from the origin), a position rounded to a fixed number of
                  decimals (an absolute tolerance), a product of positions

The evaluation is syntax directed over the definitions of the local names
(last definition before use is not tracked: the callers use it on straight-
line code and pass the definitions they want followed).  It is an abstract
interpretation, not an execution: nothing is computed.  A verdict "inv, 0"
for a comparison key / a Boolean selection means the decision is invariant
under translation and change of unit; "bad" names the sub-expression that
breaks it.
"""
from __future__ import annotations

import ast
from fractions import Fraction
from typing import Callable, Dict, Optional

from .model import src

AFF = ("aff", 1)
NUM = ("inv", 0)

PASS_THROUGH = ("copy", "astype", "ascontiguousarray", "asarray", "flatten",
                "ravel", "squeeze", "unique", "sort", "reshape", "array",
                "transpose", "atleast_1d", "atleast_2d", "view")
REDUCTIONS = ("min", "max", "amin", "amax", "mean", "median", "nanmin",
              "nanmax")
RANDOM = ("random_sample", "random", "rand", "uniform", "standard_normal",
          "randn")


def make_evaluator(defs: Dict[str, ast.expr],
                   position: Callable[[ast.expr], bool],
                   known: Optional[Callable[[ast.expr], Optional[tuple]]]
                   = None):
    """defs: local name -> defining expression; position(e): is e a
    coordinate array of the mesh; known(e): verdict for expressions the
    caller knows (e.g. self.params() -> ("inv", 1)) or None."""

    def axis_of(call):
        ax = [k.value for k in call.keywords if k.arg == "axis"]
        if ax:
            return ax[0]
        npfun = src(call.func).startswith(("np.", "numpy."))
        if len(call.args) >= (2 if npfun else 1):
            return call.args[1 if npfun else 0]
        return None

    def ev(e, depth=0):
        if depth > 40:
            return ("bad", "definition chain too deep")
        if known is not None:
            k = known(e)
            if k is not None:
                return k
        if position(e):
            return AFF
        if isinstance(e, ast.Constant):
            if isinstance(e.value, (int, float, bool)) or e.value is None:
                return NUM
            return ("bad", f"constant {e.value!r}")
        if isinstance(e, ast.Name):
            if e.id in defs:
                return ev(defs[e.id], depth + 1)
            return ("bad", f"unknown name {e.id}")
        if isinstance(e, ast.Attribute):
            if e.attr == "T":
                return ev(e.value, depth + 1)
            if e.attr in ("shape", "size", "ndim", "dtype"):
                return NUM
            return ("bad", f"attribute {src(e)[:30]}")
        if isinstance(e, ast.Subscript):
            # a selector computed from the geometry takes part in the
            # decision: a bad selector makes the selection bad
            comps = e.slice.elts if isinstance(e.slice, ast.Tuple) \
                else [e.slice]
            for c in comps:
                if isinstance(c, (ast.Slice, ast.Constant)):
                    continue
                sv = ev(c, depth + 1)
                if sv[0] == "bad" and not sv[1].startswith(
                        ("unknown name", "attribute", "call ",
                         "expression")):
                    return sv
            return ev(e.value, depth + 1)
        if isinstance(e, (ast.Tuple, ast.List)):
            vs = [ev(x, depth + 1) for x in e.elts]
            for v in vs:
                if v[0] == "bad":
                    return v
            if not vs:
                return NUM
            return vs[0] if len(set(vs)) == 1 else (
                "bad", f"'{src(e)[:40]}' mixes quantities of different kind")
        if isinstance(e, ast.IfExp):
            a, b = ev(e.body, depth + 1), ev(e.orelse, depth + 1)
            for v in (a, b):
                if v[0] == "bad":
                    return v
            return a if a == b else ("bad", f"branches of '{src(e)[:40]}' "
                                            f"differ in kind")
        if isinstance(e, ast.BoolOp):
            if isinstance(e.op, ast.Or) and len(e.values) == 2 and \
                    isinstance(e.values[1], ast.Constant):
                return ev(e.values[0], depth + 1)   # 'x or 1.'
            vs = [ev(x, depth + 1) for x in e.values]
            for v in vs:
                if v[0] == "bad":
                    return v
            return NUM
        if isinstance(e, ast.UnaryOp):
            v = ev(e.operand, depth + 1)
            if isinstance(e.op, (ast.Not, ast.Invert)):
                return v if v[0] == "bad" else NUM
            if isinstance(e.op, ast.USub) and v == AFF:
                return ("bad", f"'{src(e)[:40]}' negates positions")
            return v
        if isinstance(e, ast.Compare):
            vs = [ev(x, depth + 1) for x in [e.left] + list(e.comparators)]
            for v in vs:
                if v[0] == "bad":
                    return v
            if len(set(vs)) != 1:
                return ("bad", f"'{src(e)[:50]}' compares quantities of "
                               f"different kind (a position with a length, "
                               f"a length with a pure number)")
            return NUM
        if isinstance(e, ast.BinOp) and isinstance(e.op, ast.Mult) and any(
                isinstance(x, ast.Attribute) and x.attr == "eps"
                and isinstance(x.value, ast.Call)
                and src(x.value.func).endswith("finfo")
                for x in ast.walk(e)):
            # machine epsilon times the magnitude of the coordinates: the
            # round-off of the positions themselves - a length that may
            # serve as the *floor* of a tolerance (it is the one quantity
            # that legitimately grows with the distance from the origin)
            return ("inv", 1)
        if isinstance(e, ast.BinOp):
            a, b = ev(e.left, depth + 1), ev(e.right, depth + 1)
            for v in (a, b):
                if v[0] == "bad":
                    return v
            if isinstance(e.op, (ast.Add, ast.Sub)):
                if a == AFF and b == AFF:
                    return ("inv", 1) if isinstance(e.op, ast.Sub) else (
                        "bad", f"'{src(e)[:40]}' adds two positions")
                if AFF in (a, b):
                    o = b if a == AFF else a
                    if o == ("inv", 1) and (a == AFF or isinstance(
                            e.op, ast.Add)):
                        return AFF
                    return ("bad", f"'{src(e)[:50]}' adds a quantity of "
                                   f"another kind to a position")
                if a[1] != b[1]:
                    return ("bad", f"'{src(e)[:50]}' adds quantities of "
                                   f"different dimension")
                return a
            if isinstance(e.op, (ast.Mult, ast.Div, ast.MatMult)):
                if AFF in (a, b):
                    return ("bad", f"'{src(e)[:50]}' multiplies or divides "
                                   f"positions: the result depends on where "
                                   f"the mesh lies")
                return ("inv", a[1] + b[1] if not isinstance(e.op, ast.Div)
                        else a[1] - b[1])
            if isinstance(e.op, ast.Pow):
                if a == AFF:
                    return ("bad", f"'{src(e)[:40]}': power of positions")
                if isinstance(e.right, ast.Constant) and isinstance(
                        e.right.value, (int, float)):
                    return ("inv", a[1] * Fraction(e.right.value)
                            .limit_denominator(16))
                return a if a[1] == 0 else ("bad", "symbolic power")
            return ("bad", f"operator in '{src(e)[:40]}'")
        if isinstance(e, ast.Call):
            f = src(e.func)
            last = f.split(".")[-1]
            if f in ("min", "max") and len(e.args) == 1 and isinstance(
                    e.args[0], (ast.GeneratorExp, ast.ListComp)):
                return ev(e.args[0].elt, depth + 1)   # extremum of like terms
            if (f in ("min", "max") or last in ("maximum", "minimum",
                                                "fmax", "fmin")) \
                    and len(e.args) >= 2:
                # (np.maximum / np.minimum: the elementwise extremum)
                return ev(ast.Tuple(elts=list(e.args[:2] if last not in (
                    "min", "max") else e.args), ctx=ast.Load()), depth + 1)
            if last in RANDOM or f in ("len", "range", "np.arange",
                                       "np.ones", "np.zeros", "np.eye") \
                    or last in ("RandomState", "default_rng"):
                return NUM
            recv = None
            if isinstance(e.func, ast.Attribute) and src(
                    e.func.value) not in ("np", "numpy", "np.linalg"):
                recv = e.func.value
            elif e.args:
                recv = e.args[0]
            if last in ("hstack", "vstack", "concatenate", "stack",
                        "column_stack") and e.args:
                def seq_kind(x):
                    """kind of the members of a sequence expression"""
                    if isinstance(x, ast.BinOp) and isinstance(x.op, ast.Add):
                        a_, b_ = seq_kind(x.left), seq_kind(x.right)
                        for v_ in (a_, b_):
                            if v_[0] == "bad":
                                return v_
                        return a_ if a_ == b_ else (
                            "bad", "sequence of quantities of different kind")
                    if isinstance(x, ast.Call) and src(x.func) in (
                            "tuple", "list") and x.args:
                        return seq_kind(x.args[0])
                    if isinstance(x, (ast.ListComp, ast.GeneratorExp)):
                        return ev(x.elt, depth + 1)
                    return ev(x, depth + 1)
                return seq_kind(e.args[0])
            if recv is None:
                return ("bad", f"call {f}")
            if last in ("isclose", "allclose") and len(e.args) >= 2:
                a, b = ev(e.args[0], depth + 1), ev(e.args[1], depth + 1)
                for v in (a, b):
                    if v[0] == "bad":
                        return v
                if a != b:
                    return ("bad", f"'{src(e)[:50]}' compares quantities of "
                                   f"different kind")
                kw = {k.arg: k.value for k in e.keywords}
                rtol = kw.get("rtol", e.args[2] if len(e.args) > 2 else None)
                atol = kw.get("atol", e.args[3] if len(e.args) > 3 else None)
                if a == AFF and not (isinstance(rtol, ast.Constant)
                                     and rtol.value == 0):
                    return ("bad", f"'{src(e)[:60]}' applies the relative "
                                   f"tolerance rtol"
                                   f"{'' if rtol is not None else ' (default 1e-5)'}"
                                   f" to the absolute coordinate: the "
                                   f"accepted band grows with the distance "
                                   f"from the origin")
                if a != NUM:
                    if atol is None:
                        return ("bad", f"'{src(e)[:60]}' uses the default "
                                       f"absolute tolerance 1e-8 in the unit "
                                       f"of the coordinates")
                    t = ev(atol, depth + 1)
                    if t[0] == "bad":
                        return t
                    if t != ("inv", a[1]) and not (
                            isinstance(atol, ast.Constant)
                            and atol.value == 0):
                        return ("bad", f"'{src(e)[:60]}': the absolute "
                                       f"tolerance is not a length of the "
                                       f"mesh")
                return NUM
            v = ev(recv, depth + 1)
            if v[0] == "bad":
                return v
            if last in ("ptp", "diff", "ediff1d"):
                return ("inv", 1) if v == AFF else v
            if last in REDUCTIONS:
                one_row = isinstance(recv, ast.Subscript) and isinstance(
                    recv.slice, (ast.Name, ast.Constant))
                if v == AFF and axis_of(e) is None and not one_row:
                    return ("bad", f"'{src(e)[:50]}' reduces positions over "
                                   f"all axes: not carried along by a "
                                   f"translation")
                return v
            if last in ("sum", "cumsum", "dot", "prod", "cross"):
                if v == AFF:
                    return ("bad", f"'{src(e)[:50]}': sum / product of "
                                   f"positions")
                return v
            if last in ("abs", "absolute", "fabs", "norm"):
                if v == AFF:
                    return ("bad", f"'{src(e)[:50]}' takes the absolute "
                                   f"value of positions: a distance from "
                                   f"the origin, not a size of the mesh")
                return v
            if last == "sqrt":
                if v == AFF:
                    return ("bad", "square root of positions")
                return ("inv", Fraction(v[1]) / 2)
            if last in ("round", "around", "rint", "floor", "ceil", "trunc"):
                if v != NUM:
                    return ("bad", f"'{src(e)[:60]}' rounds "
                                   f"{'positions' if v == AFF else 'lengths'}"
                                   f" to a fixed number of decimals: an "
                                   f"absolute tolerance in the unit of the "
                                   f"coordinates")
                return v
            if last in ("argmin", "argmax", "argsort", "nonzero",
                        "count_nonzero", "any", "all", "searchsorted"):
                return NUM
            if last in PASS_THROUGH:
                return v
            if last in ("float", "int"):
                return v
            return ("bad", f"call {f}")
        return ("bad", f"expression {src(e)[:40]}")
    return ev


def straight_line(body, init_env, position=None, known=None):
    """Evaluate the assignments of a statement list in order (branches of
    ``if`` are walked one after the other, both contribute their bindings -
    the callers use it on code whose branches bind the same kinds).  Returns
    [(assign node, target name, abstract value)]; later uses of a name see
    the value of its latest assignment."""
    env = dict(init_env)
    out = []

    def kn(e):
        if known is not None:
            k = known(e)
            if k is not None:
                return k
        if isinstance(e, ast.Name) and e.id in env:
            return env[e.id]
        return None
    ev = make_evaluator({}, position or (lambda e: False), kn)

    def walk(stmts):
        for st in stmts:
            if isinstance(st, ast.Assign) and len(st.targets) == 1:
                t = st.targets[0]
                if isinstance(t, ast.Name):
                    v = ev(st.value)
                    env[t.id] = v
                    out.append((st, t.id, v))
                elif isinstance(t, ast.Tuple) and all(
                        isinstance(x, ast.Name) for x in t.elts):
                    v = ev(st.value)
                    for x in t.elts:
                        env[x.id] = v
                        out.append((st, x.id, v))
            elif isinstance(st, (ast.If, ast.For, ast.While, ast.With)):
                walk(st.body)
                walk(getattr(st, "orelse", []))
            elif isinstance(st, ast.Try):
                walk(st.body)
    walk(body)
    return out, env, ev
