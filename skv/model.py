"""Engine A: program model of the ``skfem`` package built from source text.

Modules, imports (absolute and relative, re-exports through ``__init__``),
classes with resolved bases and a C3 MRO, methods, class attributes, module
level assignments and functions.  Nothing is imported or executed.
"""
from __future__ import annotations

import ast
import hashlib
import os
from dataclasses import dataclass, field
from typing import Dict, Iterator, List, Optional, Tuple

REPO = os.environ.get("SKV_REPO", "/repo")
PKG = "skfem"


class AnalysisError(Exception):
    """An anchor is missing or a construct is outside what an engine knows.

    Reported as ``ANALYSIS-ERROR`` with exit status 2 - never a VIOLATION and
    never a silent pass.
    """


@dataclass
class FuncInfo:
    name: str
    qualname: str          # module-qualified, e.g. skfem.utils.enforce
    module: "ModuleInfo"
    node: ast.FunctionDef
    cls: Optional["ClassInfo"] = None

    @property
    def path(self) -> str:
        return self.module.relpath

    @property
    def lineno(self) -> int:
        return self.node.lineno

    def params(self) -> List[str]:
        a = self.node.args
        out = [x.arg for x in a.posonlyargs + a.args]
        if a.vararg:
            out.append(a.vararg.arg)
        out += [x.arg for x in a.kwonlyargs]
        if a.kwarg:
            out.append(a.kwarg.arg)
        return out

    def where(self) -> str:
        return f"{self.path}:{self.lineno} {self.short()}"

    def short(self) -> str:
        return (self.cls.name + "." if self.cls else "") + self.name


@dataclass
class ClassInfo:
    name: str
    qualname: str
    module: "ModuleInfo"
    node: ast.ClassDef
    base_exprs: List[ast.expr] = field(default_factory=list)
    bases: List["ClassInfo"] = field(default_factory=list)
    unresolved_bases: List[str] = field(default_factory=list)
    methods: Dict[str, FuncInfo] = field(default_factory=dict)
    attrs: Dict[str, ast.expr] = field(default_factory=dict)   # class-level
    ann_only: Dict[str, ast.expr] = field(default_factory=dict)
    _mro: Optional[List["ClassInfo"]] = None

    @property
    def path(self) -> str:
        return self.module.relpath

    def mro(self) -> List["ClassInfo"]:
        if self._mro is None:
            self._mro = _c3(self)
        return self._mro

    def find_method(self, name: str) -> Optional[FuncInfo]:
        for c in self.mro():
            if name in c.methods:
                return c.methods[name]
        return None

    def find_attr(self, name: str) -> Optional[Tuple["ClassInfo", ast.expr]]:
        for c in self.mro():
            if name in c.attrs:
                return c, c.attrs[name]
        return None

    def is_subclass_of(self, other_name: str) -> bool:
        return any(c.name == other_name for c in self.mro())

    def where(self) -> str:
        return f"{self.path}:{self.node.lineno} {self.name}"


def _c3(cls: ClassInfo) -> List[ClassInfo]:
    seqs = [list(b.mro()) for b in cls.bases] + [list(cls.bases)]
    res = [cls]
    seqs = [s for s in seqs if s]
    while seqs:
        for s in seqs:
            cand = s[0]
            if not any(cand in t[1:] for t in seqs):
                break
        else:
            raise AnalysisError(f"inconsistent MRO for {cls.qualname}")
        res.append(cand)
        seqs = [[x for x in s if x is not cand] for s in seqs]
        seqs = [s for s in seqs if s]
    return res


@dataclass
class ModuleInfo:
    name: str              # dotted module name
    relpath: str           # path relative to repo root
    src: str
    tree: ast.Module
    is_pkg: bool
    imports: Dict[str, Tuple[str, Optional[str]]] = field(default_factory=dict)
    # local name -> (module dotted name, attribute or None for the module)
    classes: Dict[str, ClassInfo] = field(default_factory=dict)
    functions: Dict[str, FuncInfo] = field(default_factory=dict)
    assigns: Dict[str, ast.expr] = field(default_factory=dict)

    @property
    def package(self) -> str:
        return self.name if self.is_pkg else self.name.rpartition(".")[0]


class Model:
    def __init__(self, repo: str = None, overlay: Dict[str, str] = None):
        self.repo = repo or REPO
        self.sources: Dict[str, str] = {}
        root = os.path.join(self.repo, PKG)
        if not os.path.isdir(root):
            raise AnalysisError(f"package directory {root} not found")
        for dp, dn, fn in os.walk(root):
            dn[:] = sorted(d for d in dn if d != "__pycache__")
            for f in sorted(fn):
                if f.endswith(".py"):
                    full = os.path.join(dp, f)
                    rel = os.path.relpath(full, self.repo)
                    with open(full, encoding="utf-8") as fh:
                        self.sources[rel] = fh.read()
        if overlay:
            self.sources.update(overlay)
        self.modules: Dict[str, ModuleInfo] = {}
        for rel, src in self.sources.items():
            try:
                tree = ast.parse(src, filename=rel)
            except SyntaxError as e:
                raise AnalysisError(f"{rel} does not parse: {e}")
            parts = rel[:-3].split(os.sep)
            is_pkg = parts[-1] == "__init__"
            if is_pkg:
                parts = parts[:-1]
            name = ".".join(parts)
            self.modules[name] = ModuleInfo(name, rel, src, tree, is_pkg)
        for m in self.modules.values():
            self._index_module(m)
        for m in self.modules.values():
            for c in m.classes.values():
                self._resolve_bases(c)

    # ------------------------------------------------------------------
    def digest(self) -> str:
        h = hashlib.sha256()
        for rel in sorted(self.sources):
            h.update(rel.encode())
            h.update(self.sources[rel].encode())
        return h.hexdigest()[:16]

    def _index_module(self, m: ModuleInfo) -> None:
        def visit_body(body):
            for st in body:
                if isinstance(st, ast.Import):
                    for a in st.names:
                        local = a.asname or a.name.split(".")[0]
                        tgt = a.name if a.asname else a.name.split(".")[0]
                        m.imports[local] = (tgt, None)
                elif isinstance(st, ast.ImportFrom):
                    if st.level:
                        base = m.package.split(".")
                        if st.level > 1:
                            base = base[: len(base) - (st.level - 1)]
                        mod = ".".join(base + ([st.module] if st.module else []))
                    else:
                        mod = st.module or ""
                    for a in st.names:
                        m.imports[a.asname or a.name] = (mod, a.name)
                elif isinstance(st, ast.ClassDef):
                    ci = ClassInfo(st.name, f"{m.name}.{st.name}", m, st,
                                   base_exprs=list(st.bases))
                    for b in st.body:
                        if isinstance(b, (ast.FunctionDef,)):
                            ci.methods[b.name] = FuncInfo(
                                b.name, f"{ci.qualname}.{b.name}", m, b, ci)
                        elif isinstance(b, ast.Assign):
                            for t in b.targets:
                                if isinstance(t, ast.Name):
                                    ci.attrs[t.id] = b.value
                        elif isinstance(b, ast.AnnAssign) and \
                                isinstance(b.target, ast.Name):
                            if b.value is not None:
                                ci.attrs[b.target.id] = b.value
                            else:
                                ci.ann_only[b.target.id] = b.annotation
                    m.classes[st.name] = ci
                elif isinstance(st, ast.FunctionDef):
                    m.functions[st.name] = FuncInfo(
                        st.name, f"{m.name}.{st.name}", m, st)
                elif isinstance(st, ast.Assign):
                    for t in st.targets:
                        if isinstance(t, ast.Name):
                            m.assigns[t.id] = st.value
                elif isinstance(st, ast.AnnAssign) and \
                        isinstance(st.target, ast.Name) and st.value is not None:
                    m.assigns[st.target.id] = st.value
                elif isinstance(st, (ast.If, ast.Try)):
                    # conditional imports / definitions at module level
                    visit_body(st.body)
                    for h in getattr(st, "handlers", []):
                        visit_body(h.body)
                    visit_body(st.orelse)
        visit_body(m.tree.body)

    # ------------------------------------------------------------------
    def resolve(self, m: ModuleInfo, name: str, _depth: int = 0):
        """Resolve a bare name in module *m*.

        Returns ("class", ClassInfo) | ("func", FuncInfo) |
        ("const", (ModuleInfo, expr)) | ("module", ModuleInfo) |
        ("external", dotted) | None.
        """
        if _depth > 12:
            return None
        if name in m.classes:
            return "class", m.classes[name]
        if name in m.functions:
            return "func", m.functions[name]
        if name in m.assigns:
            return "const", (m, m.assigns[name])
        if name in m.imports:
            return self.resolve_import(*m.imports[name], _depth=_depth)
        return None

    def import_target(self, m: ModuleInfo, st) -> Dict[str, tuple]:
        """local name -> (module, attribute) of an import statement found
        inside a function of module *m*"""
        out = {}
        if isinstance(st, ast.Import):
            for a in st.names:
                local = a.asname or a.name.split(".")[0]
                out[local] = (a.name if a.asname else a.name.split(".")[0],
                              None)
        else:
            if st.level:
                base = m.package.split(".")
                if st.level > 1:
                    base = base[: len(base) - (st.level - 1)]
                mod = ".".join(base + ([st.module] if st.module else []))
            else:
                mod = st.module or ""
            for a in st.names:
                out[a.asname or a.name] = (mod, a.name)
        return out

    def resolve_import(self, mod, attr, _depth: int = 0):
        if True:
            if attr is None:
                if mod in self.modules:
                    return "module", self.modules[mod]
                return "external", mod
            if mod in self.modules:
                tm = self.modules[mod]
                sub = f"{mod}.{attr}"
                r = self.resolve(tm, attr, _depth + 1)
                if r is not None:
                    return r
                if sub in self.modules:
                    return "module", self.modules[sub]
                return None
            sub = f"{mod}.{attr}" if mod else attr
            if sub in self.modules:
                return "module", self.modules[sub]
            return "external", sub
        return None

    def resolve_expr(self, m: ModuleInfo, e: ast.expr):
        """Resolve Name / dotted Attribute expression."""
        if isinstance(e, ast.Name):
            return self.resolve(m, e.id)
        if isinstance(e, ast.Attribute):
            base = self.resolve_expr(m, e.value)
            if base is None:
                return None
            k, v = base
            if k == "module":
                return self.resolve(v, e.attr)
            if k == "external":
                return "external", f"{v}.{e.attr}"
            if k == "class":
                meth = v.find_method(e.attr)
                if meth:
                    return "func", meth
                at = v.find_attr(e.attr)
                if at:
                    return "const", (at[0].module, at[1])
        return None

    def dotted(self, m: ModuleInfo, e: ast.expr) -> Optional[str]:
        """Canonical dotted name of a call target such as ``np.abs`` ->
        ``numpy.abs``; names defined in the package resolve to their
        qualified name; unknown -> None."""
        if isinstance(e, ast.Name):
            r = self.resolve(m, e.id)
            if r is None:
                return None
            k, v = r
            if k == "external":
                return v
            if k == "module":
                return v.name
            if k in ("class", "func"):
                return v.qualname
            return None
        if isinstance(e, ast.Attribute):
            b = self.dotted(m, e.value)
            if b is None:
                return None
            return f"{b}.{e.attr}"
        return None

    def _resolve_bases(self, c: ClassInfo) -> None:
        for b in c.base_exprs:
            r = self.resolve_expr(c.module, b)
            if r and r[0] == "class":
                c.bases.append(r[1])
            else:
                try:
                    c.unresolved_bases.append(ast.unparse(b))
                except Exception:
                    c.unresolved_bases.append("?")

    # ------------------------------------------------------------------
    def all_classes(self) -> Iterator[ClassInfo]:
        for mn in sorted(self.modules):
            m = self.modules[mn]
            for cn in m.classes:
                yield m.classes[cn]

    def all_functions(self) -> Iterator[FuncInfo]:
        """Module-level functions and methods (not nested functions)."""
        for mn in sorted(self.modules):
            m = self.modules[mn]
            for f in m.functions.values():
                yield f
            for c in m.classes.values():
                for f in c.methods.values():
                    yield f

    def module(self, name: str) -> ModuleInfo:
        if name not in self.modules:
            raise AnalysisError(f"anchor module {name} not found")
        return self.modules[name]

    def cls(self, module: str, name: str) -> ClassInfo:
        m = self.module(module)
        if name not in m.classes:
            raise AnalysisError(f"anchor class {module}.{name} not found")
        return m.classes[name]

    def func(self, module: str, name: str) -> FuncInfo:
        """``name`` is ``func`` or ``Class.method``."""
        m = self.module(module)
        if "." in name:
            cn, fn = name.split(".", 1)
            if cn not in m.classes or fn not in m.classes[cn].methods:
                raise AnalysisError(f"anchor {module}::{name} not found")
            return m.classes[cn].methods[fn]
        if name not in m.functions:
            raise AnalysisError(f"anchor {module}::{name} not found")
        return m.functions[name]

    def class_by_name(self, name: str) -> ClassInfo:
        found = [c for c in self.all_classes() if c.name == name]
        if not found:
            raise AnalysisError(f"anchor class {name} not found")
        if len(found) > 1:
            raise AnalysisError(f"class name {name} ambiguous")
        return found[0]

    def subclasses_of(self, name: str) -> List[ClassInfo]:
        return [c for c in self.all_classes()
                if c.name != name and c.is_subclass_of(name)]


# ----------------------------------------------------------------------
# small AST helpers shared by the rules

def src(node: ast.AST) -> str:
    try:
        return ast.unparse(node)
    except Exception:
        return "<?>"


def walk_no_nested(node: ast.AST) -> Iterator[ast.AST]:
    """Walk a function body without descending into nested defs/lambdas."""
    stack = list(ast.iter_child_nodes(node))
    while stack:
        n = stack.pop()
        yield n
        if isinstance(n, (ast.FunctionDef, ast.AsyncFunctionDef, ast.Lambda,
                          ast.ClassDef)):
            continue
        stack.extend(ast.iter_child_nodes(n))


def nested_functions(fn: ast.FunctionDef) -> List[ast.FunctionDef]:
    out = []
    for n in ast.walk(fn):
        if n is not fn and isinstance(n, (ast.FunctionDef, ast.Lambda)):
            out.append(n)
    return out


def attr_chain(e: ast.expr) -> Optional[List[str]]:
    """``a.b.c`` -> ['a','b','c']; None if not a pure chain."""
    parts = []
    while isinstance(e, ast.Attribute):
        parts.append(e.attr)
        e = e.value
    if isinstance(e, ast.Name):
        parts.append(e.id)
        return parts[::-1]
    return None


def const_int(e: ast.expr) -> Optional[int]:
    if isinstance(e, ast.Constant) and isinstance(e.value, int) \
            and not isinstance(e.value, bool):
        return e.value
    if isinstance(e, ast.UnaryOp) and isinstance(e.op, ast.USub):
        v = const_int(e.operand)
        return -v if v is not None else None
    return None


def staged(*thunks):
    """Run independent rule groups one after the other.  An AnalysisError
    in one group does not keep the later groups from recording what they
    find; the first error is raised again at the end, so the run still
    fails closed unless a definite violation was established (cli policy)."""
    first = None
    for t in thunks:
        try:
            t()
        except AnalysisError as e:
            if first is None:
                first = e
    if first is not None:
        raise first
