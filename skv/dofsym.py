"""Symbolic run of ``Dofs.__init__`` (engine E): entity counts of the mesh
are polynomial symbols, per-entity DOF counts are ``SymInt`` (symbolic in
arithmetic, representative value for the guards), connectivity tables are
stubs that record which table and which local slot a gather goes through."""
from __future__ import annotations

import ast
from dataclasses import dataclass, field
from fractions import Fraction
from typing import Any, Dict, List, Optional

from .interp import (Interp, Obj, PyFunc, Raised, SymInt, Unsupported, PTS,
                     Opaque)
from .model import AnalysisError, Model
from .poly import Poly

KINDS = ("nodal", "edge", "facet", "interior")
ENT = {"nodal": "nvertices", "edge": "nedges", "facet": "nfacets",
       "interior": "nelements"}


class ARange:
    def __init__(self, n):
        self.n = Poly.coerce(n)


class NumBlock:
    """``reshape(arange(n), (k, m), order) + offset``"""
    def __init__(self, n, shape, order, offset=None):
        self.n, self.shape, self.order = n, shape, order
        self.offset = offset if offset is not None else Poly()

    def skv_binop(self, op, other, reflected):
        if isinstance(op, ast.Add) and isinstance(other, (int, Fraction,
                                                          Poly)):
            return NumBlock(self.n, self.shape, self.order,
                            self.offset + other)
        raise Unsupported("arithmetic on a numbering block")

    def skv_getitem(self, ix):
        if isinstance(ix, tuple) and len(ix) == 2 and isinstance(
                ix[0], slice) and ix[0] == slice(None) and isinstance(
                ix[1], TableRow):
            return Gather(self, ix[1])
        raise Unsupported(f"index {ix!r} into a numbering block")

    def skv_getattr(self, name):
        if name == "shape":
            return self.shape
        raise Unsupported(f"block attribute {name}")


class EmptyBlock:
    shape = (0, 0)

    def skv_getattr(self, name):
        if name == "shape":
            return (0, 0)
        raise Unsupported(f"empty block attribute {name}")


class TableRow:
    def __init__(self, table, row):
        self.table, self.row = table, row


class Table:
    def __init__(self, name, nrows):
        self.name, self.nrows = name, nrows

    def skv_getattr(self, name):
        if name == "shape":
            return (self.nrows, PTS)
        raise Unsupported(f"table attribute {name}")

    def skv_getitem(self, ix):
        if isinstance(ix, Fraction):
            ix = int(ix)
        if isinstance(ix, int) and 0 <= ix < self.nrows:
            return TableRow(self.name, ix)
        raise Unsupported(f"index {ix!r} into table {self.name}")


class Gather:
    def __init__(self, block, trow):
        self.block, self.trow = block, trow


class RowStack:
    def __init__(self, parts):
        self.parts = parts


@dataclass
class DofsRun:
    blocks: Dict[str, Any]
    stack: List[Any]
    final_offset: Any
    counts: Dict[str, SymInt]
    sizes: Dict[str, int]
    dim: int


def run_dofs(model: Model, dim: int, counts: Dict[str, int],
             tables: Dict[str, int], elem_dim: int = None) -> DofsRun:
    """dim: dimension of the cells; elem_dim: what ``element.dim`` answers -
    for ElementVector that is the number of *components*, which need not
    equal the dimension of the cells"""
    if elem_dim is None:
        elem_dim = dim
    cls = model.cls("skfem.assembly.dofs", "Dofs")
    fn = cls.methods.get("__init__")
    if fn is None:
        raise AnalysisError("Dofs.__init__ not found")
    sym = {k: SymInt(f"{k}_dofs", v) for k, v in counts.items()}

    class Element:
        def skv_getattr(self, name):
            if name == "dim":
                return elem_dim
            if name == "refdom":
                return Obj(None, {"dim": PyFunc(lambda a, k, n: dim)})
            if name.endswith("_dofs") and name[:-5] in sym:
                return sym[name[:-5]]
            raise Unsupported(f"element.{name}")

    class Topo:
        def skv_getattr(self, name):
            if name in ("nvertices", "nedges", "nfacets", "nelements"):
                return Poly.sym(name)
            if name == "dim":
                return PyFunc(lambda a, k, n: dim)
            if name in tables:
                return Table(name, tables[name])
            raise Unsupported(f"topo.{name}")

    def call_hook(interp, name, args, kwargs, node):
        if name == "numpy.arange":
            return ARange(args[0])
        if name == "numpy.reshape":
            a, shp = args[0], args[1]
            order = kwargs.get("order", args[2] if len(args) > 2 else "C")
            if not isinstance(a, ARange):
                raise Unsupported("reshape of a non-arange", node)
            return NumBlock(a.n, tuple(shp), order)
        if name in ("numpy.empty", "numpy.zeros"):
            shp = args[0]
            if isinstance(shp, tuple) and shp and shp[0] == 0:
                return RowStack([]) if name == "numpy.zeros" else EmptyBlock()
            return NotImplemented
        if name == "numpy.vstack":
            seq = args[0]
            parts = []
            for s in seq:
                if isinstance(s, RowStack):
                    parts.extend(s.parts)
                elif isinstance(s, (Gather, NumBlock)):
                    parts.append(s)
                elif isinstance(s, EmptyBlock):
                    continue
                else:
                    raise Unsupported("vstack operand", node)
            return RowStack(parts)
        if name == "numpy.max":
            return Poly.sym("max")
        return NotImplemented
    it = Interp(model, call_hook=call_hook)
    obj = Obj(cls)
    try:
        it.call(fn, [Topo(), Element()], {}, self_obj=obj)
    except Raised as e:
        raise AnalysisError(f"Dofs.__init__ raises on the symbolic run: "
                            f"{e.what}")
    except Unsupported as e:
        raise AnalysisError(f"Dofs.__init__ outside grammar: {e}")
    blocks = {k: obj.attrs.get(f"{k}_dofs") for k in KINDS}
    st = obj.attrs.get("element_dofs")
    if not isinstance(st, RowStack):
        raise AnalysisError("Dofs.__init__: element_dofs is not a row stack")
    return DofsRun(blocks, st.parts, None, sym, counts, dim)
