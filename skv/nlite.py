"""A very small exact model of the numpy index operations, for interpreting
routines that touch their data *only through comparisons and indexing*
(point location in 1-D, index-table bookkeeping).  For such routines the
outcome depends on the order type of the inputs alone, so evaluating them on
one exact representative per order type (Fractions, never floats) decides
them for every input of that order type.

``NArr`` holds nested Python lists of int / Fraction / bool and implements
the stub protocol of the interpreter (skv_getitem, skv_setitem, skv_compare,
skv_binop, skv_getattr, skv_len).  ``hook`` supplies the numpy functions.
Anything not modelled raises Unsupported (the caller fails closed).
"""
from __future__ import annotations

import ast
from fractions import Fraction
from typing import Any, List

from .interp import PyFunc, Raised, Unsupported

Num = (int, Fraction, bool)


def _shape(d):
    s = []
    while isinstance(d, list):
        s.append(len(d))
        d = d[0] if d else None
    return tuple(s)


def _map(d, f):
    return [_map(x, f) for x in d] if isinstance(d, list) else f(d)


def _zip(a, b, f):
    """elementwise with numpy broadcasting of scalars and length-1 axes"""
    if not isinstance(a, list) and not isinstance(b, list):
        return f(a, b)
    if not isinstance(a, list):
        return [_zip(a, y, f) for y in b]
    if not isinstance(b, list):
        return [_zip(x, b, f) for x in a]
    sa, sb = _shape(a), _shape(b)
    if len(sa) < len(sb):
        return [_zip(a, y, f) for y in b] if len(sb) - len(sa) >= 1 and \
            True else None
    if len(sb) < len(sa):
        return [_zip(x, b, f) for x in a]
    if len(a) == len(b):
        return [_zip(x, y, f) for x, y in zip(a, b)]
    if len(a) == 1:
        return [_zip(a[0], y, f) for y in b]
    if len(b) == 1:
        return [_zip(x, b[0], f) for x in a]
    raise Raised(f"operands could not be broadcast together "
                 f"{sa} {sb}")


def _flat(d):
    if isinstance(d, list):
        out = []
        for x in d:
            out += _flat(x)
        return out
    return [d]


class NArr:
    skv_isarray = True

    def __init__(self, data):
        self.data = data

    @property
    def shape(self):
        return _shape(self.data)

    def tolist(self):
        return self.data

    def __repr__(self):
        return f"NArr({self.data})"

    def skv_len(self):
        if not isinstance(self.data, list):
            raise Raised("len() of unsized object")
        return len(self.data)

    def skv_iter(self):
        return [NArr(x) if isinstance(x, list) else x for x in self.data]

    # -- indexing
    @staticmethod
    def _norm(i, n):
        if isinstance(i, Fraction) and i.denominator == 1:
            i = int(i)
        if isinstance(i, bool) or not isinstance(i, int):
            raise Unsupported(f"index {i!r}")
        if i < -n or i >= n:
            raise Raised(f"IndexError: index {i} is out of bounds for axis "
                         f"with size {n}")
        return i % n if n else 0

    def _get(self, d, ix):
        if not ix:
            return d
        i, rest = ix[0], ix[1:]
        if i is None:
            return [self._get(d, rest)]
        if not isinstance(d, list):
            raise Raised("IndexError: too many indices")
        if isinstance(i, slice):
            return [self._get(x, rest) for x in d[i]]
        if isinstance(i, NArr):
            idx = i.data
            if _flat(idx) and all(isinstance(v, bool) for v in _flat(idx)):
                if _shape(idx) != _shape(d)[:len(_shape(idx))]:
                    raise Raised("IndexError: boolean index shape mismatch")
                if len(_shape(idx)) == 1:
                    return [self._get(x, rest)
                            for x, m in zip(d, idx) if m]
                if rest:
                    raise Unsupported("boolean matrix index with more "
                                      "indices")
                return [x for x, m in zip(_flat_to(d, len(_shape(idx))),
                                          _flat(idx)) if m]
            # integer array index (no pairing with other arrays here)
            if any(isinstance(r, NArr) for r in rest):
                raise Unsupported("paired integer array indices")
            return _map(idx, lambda v: self._get(d[self._norm(v, len(d))],
                                                 rest))
        return self._get(d[self._norm(i, len(d))], rest)

    def skv_getitem(self, ix):
        if isinstance(ix, list):
            ix = NArr(list(ix))            # a[[0, 1, 4, 3]]
        if not isinstance(ix, tuple):
            ix = (ix,)
        ix = tuple(NArr(list(i)) if isinstance(i, list) else i for i in ix)
        # paired integer-array indexing a[I, J]
        arrs = [k for k, i in enumerate(ix) if isinstance(i, NArr)
                and not all(isinstance(v, bool) for v in _flat(i.data))]
        if len(arrs) == 2 and len(ix) == 2:
            I, J = ix[0].data, ix[1].data
            out = _zip(I, J, lambda a, b: self.data[
                self._norm(a, len(self.data))][
                self._norm(b, len(self.data[0]))])
            return NArr(out)
        r = self._get(self.data, list(ix))
        return NArr(r) if isinstance(r, list) else r

    def skv_setitem(self, ix, v):
        val = v.data if isinstance(v, NArr) else v
        if isinstance(ix, NArr) and all(isinstance(m, bool)
                                        for m in _flat(ix.data)) and \
                len(_shape(ix.data)) == 1 == len(self.shape):
            pos = [k for k, m in enumerate(ix.data) if m]
            vals = val if isinstance(val, list) else [val] * len(pos)
            if len(vals) != len(pos):
                raise Raised("ValueError: shape mismatch in boolean store")
            for k, x in zip(pos, vals):
                self.data[k] = x
            return
        if isinstance(ix, (int, Fraction)) and len(self.shape) == 1:
            self.data[self._norm(ix, len(self.data))] = val
            return
        if isinstance(ix, (int, Fraction)) and len(self.shape) == 2:
            # a whole row
            n = self.shape[1]
            row = list(val) if isinstance(val, list) else [val] * n
            if len(row) != n:
                raise Raised("ValueError: shape mismatch in row store")
            self.data[self._norm(ix, len(self.data))] = row
            return
        if isinstance(ix, NArr) and len(self.shape) == 1:
            idx = _flat(ix.data)
            vals = _flat(val) if isinstance(val, list) else [val] * len(idx)
            for k, x in zip(idx, vals):
                self.data[self._norm(k, len(self.data))] = x
            return
        if isinstance(ix, tuple) and len(ix) == 2 and len(self.shape) == 2:
            r, c = ix
            rows = [self._norm(r, self.shape[0])] if isinstance(
                r, (int, Fraction)) else (
                list(range(self.shape[0]))[r] if isinstance(r, slice)
                else None)
            if rows is None:
                raise Unsupported("row index of a store")
            if isinstance(c, NArr) and all(isinstance(m, bool)
                                           for m in _flat(c.data)):
                cols = [k for k, m in enumerate(c.data) if m]
            elif isinstance(c, NArr):
                cols = [self._norm(k, self.shape[1]) for k in _flat(c.data)]
            elif isinstance(c, slice):
                cols = list(range(self.shape[1]))[c]
            elif isinstance(c, (int, Fraction)):
                cols = [self._norm(c, self.shape[1])]
            else:
                raise Unsupported("column index of a store")
            for a, rr in enumerate(rows):
                for b, cc in enumerate(cols):
                    if isinstance(val, list):
                        x = val[a][b] if isinstance(val[0], list) and \
                            len(rows) > 1 else (
                                val[b] if not isinstance(val[0], list)
                                else val[0][b])
                    else:
                        x = val
                    self.data[rr][cc] = x
            return
        raise Unsupported(f"store with index {ix!r}")

    # -- arithmetic / comparison
    def skv_compare(self, op, other):
        o = other.data if isinstance(other, NArr) else other
        fn = {ast.Eq: lambda a, b: a == b, ast.NotEq: lambda a, b: a != b,
              ast.Lt: lambda a, b: a < b, ast.LtE: lambda a, b: a <= b,
              ast.Gt: lambda a, b: a > b, ast.GtE: lambda a, b: a >= b}.get(
                  type(op))
        if fn is None:
            raise Unsupported("comparison operator")
        return NArr(_zip(self.data, o, lambda a, b: bool(fn(a, b))))

    def skv_binop(self, op, other, reflected):
        o = other.data if isinstance(other, NArr) else other
        if not isinstance(o, list) and not isinstance(o, Num):
            raise Unsupported(f"arithmetic with {type(other).__name__}")

        def f(a, b):
            if reflected:
                a, b = b, a
            if isinstance(op, ast.Add):
                return a + b
            if isinstance(op, ast.Sub):
                return a - b
            if isinstance(op, ast.Mult):
                return a * b
            if isinstance(op, ast.FloorDiv):
                return a // b
            if isinstance(op, ast.Mod):
                return a % b
            if isinstance(op, ast.Div):
                return Fraction(a) / b
            if isinstance(op, ast.BitAnd):
                return a & b
            if isinstance(op, ast.BitOr):
                return a | b
            raise Unsupported("operator")
        return NArr(_zip(self.data, o, f))

    def skv_neg(self):
        return NArr(_map(self.data, lambda a: -a))

    def skv_invert(self):
        return NArr(_map(self.data, lambda a: (not a) if isinstance(a, bool)
                         else ~a))

    def skv_getattr(self, name):
        if name == "shape":
            return self.shape
        if name == "T":
            if len(self.shape) == 1:
                return self
            return NArr([list(r) for r in zip(*self.data)])
        if name == "copy":
            return PyFunc(lambda a, k, n: NArr(_map(self.data, lambda v: v)))
        if name == "astype":
            def astype(a, k, n):
                t = getattr(a[0], "name", None) or str(a[0])
                if "bool" in t:
                    return NArr(_map(self.data, bool))
                if "int" in t:
                    return NArr(_map(self.data, lambda v: int(v)))
                return NArr(_map(self.data, lambda v: v))
            return PyFunc(astype)
        if name == "mean":
            def mean(a, k, n):
                if a or k:
                    raise Unsupported("mean over an axis")
                f = _flat(self.data)
                return sum(Fraction(x) for x in f) / len(f)
            return PyFunc(mean)
        if name in ("any", "all", "max", "min", "argmax", "argmin", "sum"):
            def red(a, k, n, name=name):
                ax = a[0] if a else k.get("axis")
                fn = {"any": lambda c: bool(any(c)),
                      "all": lambda c: bool(all(c)),
                      "max": max, "min": min, "sum": sum,
                      "argmax": lambda c: max(range(len(c)),
                                              key=lambda i: (c[i], -i)),
                      "argmin": lambda c: max(range(len(c)),
                                              key=lambda i: (-c[i], -i)),
                      }[name]
                if ax is None:
                    f = _flat(self.data)
                    if not f and name in ("max", "min", "argmax", "argmin"):
                        raise Raised("ValueError: reduction of an empty "
                                     "array")
                    return fn(f)
                if isinstance(ax, Fraction):
                    ax = int(ax)
                if len(self.shape) == 2 and ax in (0, 1):
                    cols = [list(c) for c in zip(*self.data)] if ax == 0 \
                        else [list(r) for r in self.data]
                    if ax == 0 and not self.data:
                        raise Raised("ValueError: reduction of an empty "
                                     "array")
                    return NArr([fn(c) for c in cols])
                if len(self.shape) == 1 and ax == 0:
                    return fn(list(self.data))
                if len(self.shape) == 3 and ax == 1 and self.data and \
                        name in ("sum", "max", "min", "any", "all"):
                    # reduce the middle axis of each leading slice
                    return NArr([[fn(list(c)) for c in zip(*blk)]
                                 for blk in self.data])
                raise Unsupported(f"{name} over axis {ax}")
            return PyFunc(red)
        if name == "dtype":
            return "DTYPE"
        if name == "reshape":
            def reshape(a, k, n):
                shp = a[0] if len(a) == 1 and isinstance(a[0], tuple) else a
                shp = [int(x) for x in shp]
                if k.get("order", "C") not in ("C", "c"):
                    raise Unsupported("non-C reshape")
                fl = _flat(self.data)
                if len(shp) == 1 and shp[0] in (-1, len(fl)):
                    return NArr(fl)
                if len(shp) == 2:
                    r, c = shp
                    if r == -1:
                        r = len(fl) // c
                    if c == -1:
                        c = len(fl) // r
                    if r * c != len(fl):
                        raise Raised("ValueError: cannot reshape")
                    return NArr([fl[i * c:(i + 1) * c] for i in range(r)])
                raise Unsupported("reshape to rank > 2")
            return PyFunc(reshape)
        if name == "flatten":
            def flatten(a, k, n):
                order = a[0] if a else k.get("order", "C")
                if order in ("F", "f") and len(self.shape) == 2:
                    return NArr([x for col in zip(*self.data) for x in col])
                return NArr(_flat(self.data))
            return PyFunc(flatten)
        if name == "nonzero":
            return PyFunc(lambda a, k, n: nonzero(self))
        if name == "max":
            return PyFunc(lambda a, k, n: max(_flat(self.data)))
        if name == "min":
            return PyFunc(lambda a, k, n: min(_flat(self.data)))
        if name == "sum":
            return PyFunc(lambda a, k, n: sum(_flat(self.data)))
        raise Unsupported(f"array attribute {name}")


def _flat_to(d, depth):
    if depth <= 1:
        return list(d)
    out = []
    for x in d:
        out += _flat_to(x, depth - 1)
    return out


def nonzero(a: NArr):
    sh = a.shape
    if len(sh) == 1:
        return (NArr([k for k, v in enumerate(a.data) if v]),)
    if len(sh) == 2:
        rs, cs = [], []
        for i, row in enumerate(a.data):
            for j, v in enumerate(row):
                if v:
                    rs.append(i)
                    cs.append(j)
        return (NArr(rs), NArr(cs))
    raise Unsupported("nonzero of a >2-D array")


def hook(interp, name, args, kwargs, node):
    """numpy functions over NArr; NotImplemented for anything else"""
    a0 = args[0] if args else None
    if name == "numpy.argsort" and isinstance(a0, NArr) and \
            len(a0.shape) == 1:
        return NArr(sorted(range(len(a0.data)), key=lambda k: (a0.data[k],
                                                               k)))
    if name == "numpy.hstack" and isinstance(a0, (list, tuple)) and a0 and \
            all(isinstance(x, NArr) for x in a0):
        if all(len(x.shape) == 1 for x in a0):
            return NArr([v for x in a0 for v in x.data])
        if all(len(x.shape) == 2 for x in a0):
            nr = a0[0].shape[0]
            return NArr([[v for x in a0 for v in x.data[r]]
                         for r in range(nr)])
        raise Unsupported("hstack of mixed ranks")
    if name == "numpy.vstack" and isinstance(a0, (list, tuple)) and a0 and \
            all(isinstance(x, NArr) for x in a0):
        rows = []
        for x in a0:
            rows += [list(x.data)] if len(x.shape) == 1 else \
                [list(r) for r in x.data]
        return NArr(rows)
    if name == "numpy.ascontiguousarray" and isinstance(a0, NArr):
        return a0
    if name == "numpy.sort" and isinstance(a0, NArr) and \
            len(a0.shape) == 2 and int(kwargs.get("axis", -1)) == 0:
        cols = [sorted(c) for c in zip(*a0.data)]
        return NArr([list(r) for r in zip(*cols)])
    if name == "numpy.unique" and isinstance(a0, NArr) and \
            len(a0.shape) == 2 and int(kwargs.get("axis", -9)) == 1:
        cols = [tuple(c) for c in zip(*a0.data)]
        vals = sorted(set(cols))
        out = [NArr([list(r) for r in zip(*vals)])]
        if kwargs.get("return_index"):
            out.append(NArr([cols.index(v) for v in vals]))
        if kwargs.get("return_inverse"):
            out.append(NArr([vals.index(c) for c in cols]))
        if kwargs.get("return_counts"):
            out.append(NArr([cols.count(v) for v in vals]))
        return tuple(out) if len(out) > 1 else out[0]
    if name == "numpy.sort" and isinstance(a0, NArr) and len(a0.shape) == 1:
        return NArr(sorted(a0.data))
    if name == "numpy.arange" and all(isinstance(a, (int, Fraction))
                                      for a in args):
        return NArr(list(range(*[int(a) for a in args])))
    if name in ("numpy.argmax", "numpy.argmin") and isinstance(a0, NArr):
        ax = args[1] if len(args) > 1 else kwargs.get("axis")
        sg = 1 if name == "numpy.argmax" else -1
        if len(a0.shape) == 1 and ax in (None, 0):
            return max(range(len(a0.data)),
                       key=lambda k: (sg * a0.data[k], -k))
        if len(a0.shape) == 2 and ax == 0:
            cols = list(zip(*a0.data))
            return NArr([max(range(len(c)), key=lambda k: (sg * c[k], -k))
                         for c in cols])
        raise Unsupported("argmax/argmin axis")
    if name == "numpy.digitize" and isinstance(a0, NArr) and isinstance(
            args[1], NArr) and not kwargs and len(args) == 2:
        bins = args[1].data
        if any(bins[i] > bins[i + 1] for i in range(len(bins) - 1)):
            raise Unsupported("digitize with non-increasing bins")
        # right=False: bins[i-1] <= x < bins[i]
        return NArr(_map(a0.data,
                         lambda x: sum(1 for b in bins if b <= x)))
    if name in ("numpy.nonzero",) and isinstance(a0, NArr):
        return nonzero(a0)
    if name == "numpy.unique" and isinstance(a0, NArr) and not kwargs:
        return NArr(sorted(set(_flat(a0.data))))
    if name == "numpy.unique" and isinstance(a0, NArr) and \
            set(kwargs) == {"return_index"} and kwargs["return_index"] \
            and len(a0.shape) == 1:
        vals = sorted(set(a0.data))
        return (NArr(vals), NArr([a0.data.index(v) for v in vals]))
    if name == "numpy.unique" and isinstance(a0, NArr) and \
            set(kwargs) == {"return_counts"} and kwargs["return_counts"]:
        fl = _flat(a0.data)
        vals = sorted(set(fl))
        return (NArr(vals), NArr([fl.count(v) for v in vals]))
    if name == "numpy.where" and len(args) == 3 and isinstance(a0, NArr):
        def pick(c, x, y):
            return x if c else y
        xa = args[1].data if isinstance(args[1], NArr) else args[1]
        ya = args[2].data if isinstance(args[2], NArr) else args[2]
        return NArr(_zip(_zip(a0.data, xa, lambda c, x: (c, x)), ya,
                         lambda cx, y: cx[1] if cx[0] else y))
    if name == "numpy.finfo":
        from .interp import Obj
        return Obj(None, {"eps": Fraction(1, 2 ** 52)})
    if name in ("numpy.array", "numpy.copy") and isinstance(a0, NArr):
        import copy as _copy
        return NArr(_copy.deepcopy(a0.data))    # np.array copies
    if name == "numpy.array" and isinstance(a0, (list, tuple)):
        def conv(v):
            if isinstance(v, NArr):
                return v.data
            if isinstance(v, (list, tuple)):
                return [conv(x) for x in v]
            return v
        return NArr(conv(list(a0)))
    if name in ("numpy.ones", "numpy.zeros") and len(args) >= 1 and \
            isinstance(a0, (int, Fraction)):
        return NArr([1 if name == "numpy.ones" else 0] * int(a0))
    if name in ("numpy.ones", "numpy.zeros") and len(args) >= 1 and \
            isinstance(a0, tuple) and a0 and all(
                isinstance(x, (int, Fraction)) for x in a0):
        v = 1 if name == "numpy.ones" else 0

        def build(shp):
            return [build(shp[1:]) for _ in range(int(shp[0]))] \
                if len(shp) > 1 else [v] * int(shp[0])
        return NArr(build(a0))
    if name == "numpy.count_nonzero" and isinstance(a0, NArr) and \
            len(args) == 1 and not kwargs:
        return sum(1 for v in _flat(a0.data) if v)
    if name == "numpy.max" and isinstance(a0, NArr) and len(args) == 1:
        return max(_flat(a0.data))
    if name == "numpy.min" and isinstance(a0, NArr) and len(args) == 1:
        return min(_flat(a0.data))
    if name == "numpy.abs" and isinstance(a0, NArr):
        return NArr(_map(a0.data, abs))
    if name in ("numpy.isin", "numpy.in1d") and isinstance(a0, NArr):
        s = set(_flat(args[1].data if isinstance(args[1], NArr)
                      else list(args[1])))
        return NArr(_map(a0.data, lambda v: v in s))
    return NotImplemented
