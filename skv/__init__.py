"""skv - static verification engines for scikit-fem (stdlib only).

Nothing in this package imports ``skfem`` or ``numpy``; every verdict is
computed from the source text under ``<repo>/skfem``.
"""
