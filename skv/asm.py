"""Symbolic run of the COO producers (engine E + B): the ``_assemble``
methods are interpreted with stub bases whose local sizes are symbolic
(``SymInt``: a polynomial symbol with a small representative value used only
to unroll the loops over local indices), a symbolic number of cells ``nt``
and tagged basis functions / DOF rows.  The outcome is, per output array, a
list of *blocks* - flat position as an affine function of the cell index,
with the tag of what was stored there - from which the role and layout
obligations of C01 / C16 / C19 / C20 are read off as polynomial identities.

No repository code is executed; numpy/threading/jax calls are modelled by the
hooks below (documented contracts only).
"""
from __future__ import annotations

import ast
from dataclasses import dataclass, field
from fractions import Fraction
from typing import Any, Dict, List, Optional, Tuple

from .interp import (Arr, Interp, Obj, PyFunc, Raised, SymInt, Unsupported,
                     Bound, Closure, Lam, Opaque)
from .model import AnalysisError, Model, src
from .poly import Poly, is_scalar

NT = Poly.sym("nt")


class FieldTag:
    """the i-th local basis function (all its fields) of a basis"""
    def __init__(self, basis, i, kind="basis"):
        self.basis, self.i, self.kind = basis, i, kind

    def skv_getattr(self, name):
        if name == "astuple":
            return (self,)
        raise Unsupported(f"field attribute {name}")

    def __repr__(self):
        return f"{self.basis}.{self.kind}[{self.i}]"


class DofRow:
    def __init__(self, basis, i):
        self.basis, self.i = basis, i

    def __repr__(self):
        return f"{self.basis}.element_dofs[{self.i}]"


class Buf:
    def __init__(self, run, shape, label=None):
        self.run, self.shape = run, tuple(shape)
        self.stores: List[Tuple[Any, Any, Optional[int]]] = []
        self.reads = 0
        self.label = label
        run.bufs.append(self)

    def skv_setitem(self, ix, v):
        self.stores.append((ix, v, self.run.current_thread))

    def skv_getitem(self, ix):
        self.reads += 1
        raise Unsupported("read of an output buffer inside the producer")

    def skv_getattr(self, name):
        if name in ("flatten", "ravel"):
            def fl(args, kwargs, node):
                order = kwargs.get("order", args[0] if args else "C")
                self.run.events.append(("flatten", self, node))
                return FlatBuf(self, order)
            return PyFunc(fl)
        if name == "shape":
            return self.shape
        if name == "reshape":
            def rs(args, kwargs, node):
                shp = args[0] if len(args) == 1 and isinstance(
                    args[0], tuple) else tuple(args)
                if kwargs.get("order", "C") not in ("C", "c"):
                    raise Unsupported("non-C reshape of an output buffer")
                return ViewBuf(self, shp)
            return PyFunc(rs)
        raise Unsupported(f"buffer attribute {name}")

    def skv_neg(self):
        return FlatBuf(self, None, neg=True)


def _rep(v):
    """representative integer of an extent"""
    if isinstance(v, SymInt):
        return int(v.value)
    if isinstance(v, Fraction) and v.denominator == 1:
        return int(v)
    if isinstance(v, int):
        return v
    return None


class ViewBuf:
    """``buf.reshape(-1, last)``: a view whose leading axes merge leading
    axes of the buffer in C order.  A store at a (merged) leading index is
    translated back to the buffer's own index, with the representative
    local sizes of the run; an index outside the merged extent raises like
    numpy does."""

    def __init__(self, base: "Buf", shape):
        self.base = base
        shape = list(shape)
        bshape = list(base.shape)
        # trailing axes kept as they are
        k = 0
        while k < len(shape) - 1 and k < len(bshape) - 1 and \
                _rep(shape[-1 - k]) is None and \
                shape[-1 - k] == bshape[-1 - k]:
            k += 1
        if k == 0 and shape and bshape and shape[-1] == bshape[-1]:
            k = 1
        self.ntrail = k
        lead_b = [_rep(x) for x in bshape[:len(bshape) - k]]
        lead_v = shape[:len(shape) - k]
        if any(x is None for x in lead_b):
            raise Unsupported("view of a buffer with symbolic leading "
                              "extents")
        total = 1
        for x in lead_b:
            total *= x
        known = [(_rep(x) if _rep(x) is not None else None) for x in lead_v]
        if known.count(-1) > 1 or any(x is None for x in known):
            raise Unsupported("view shape")
        prod = 1
        for x in known:
            if x != -1:
                prod *= x
        if -1 in known:
            if prod == 0 or total % prod:
                raise Raised("ValueError: cannot reshape")
            known[known.index(-1)] = total // prod
        elif prod != total:
            raise Raised("ValueError: cannot reshape")
        self.lead_v, self.lead_b = known, lead_b
        self.shape = tuple(known) + tuple(bshape[len(bshape) - k:])

    def skv_getattr(self, name):
        if name == "shape":
            return self.shape
        raise Unsupported(f"view attribute {name}")

    def skv_getitem(self, ix):
        raise Unsupported("read of an output buffer inside the producer")

    def skv_setitem(self, ix, v):
        ixs = list(ix) if isinstance(ix, tuple) else [ix]
        ints = []
        for x in ixs:
            if isinstance(x, Fraction) and x.denominator == 1:
                x = int(x)
            if isinstance(x, Poly) and x.is_const():
                x = int(x.const_value())
            if not isinstance(x, int):
                raise Unsupported("symbolic index into a buffer view")
            ints.append(x)
        if len(ints) != len(self.lead_v):
            raise Unsupported("partial index into a buffer view")
        flat = 0
        for x, n in zip(ints, self.lead_v):
            if x < -n or x >= n:
                raise Raised(f"IndexError: index {x} is out of bounds for "
                             f"axis with size {n}")
            flat = flat * n + (x % n)
        back = []
        for n in reversed(self.lead_b):
            back.append(flat % n)
            flat //= n
        self.base.skv_setitem(tuple(reversed(back)), v)


class FlatBuf:
    def __init__(self, buf, order, neg=False):
        self.buf, self.order, self.neg = buf, order, neg

    def skv_neg(self):
        return FlatBuf(self.buf, self.order, not self.neg)


class Params(dict):
    """stands for FormExtraParams: a dict with attribute access.  Whatever
    the interpreted code derives from it with plain dict operations
    (``.copy()``, ``dict(w)``, ``{**w}``) is an ordinary dict again - as in
    Python, where the subclass does not override them."""


class IndexStack:
    def __init__(self, rows):
        self.rows = rows


class ThreadStub:
    def __init__(self, run, target, args, node):
        self.run, self.target, self.args, self.node = run, target, args, node
        self.started = self.joined = False
        self.tid = len(run.threads)
        run.threads.append(self)

    def skv_getattr(self, name):
        if name == "start":
            def start(a, k, node):
                self.started = True
                self.run.events.append(("start", self, node))
                if self.run.schedule == "late":
                    return None
                self._body(node)
            return PyFunc(start)
        if name == "join":
            def join(a, k, node):
                if self.run.schedule == "late" and self.started \
                        and not self.joined:
                    # the latest moment the worker's body can run
                    self._body(node)
                self.joined = True
                self.run.events.append(("join", self, node))
            return PyFunc(join)
        raise Unsupported(f"thread attribute {name}")

    def _body(self, node):
        if True:
            if True:
                prev = self.run.current_thread
                self.run.current_thread = self.tid
                try:
                    self.run.interp.apply(self.target, list(self.args), {},
                                          node)
                except Raised as e:
                    # an exception in a worker thread does not propagate:
                    # its remaining slots simply stay unwritten
                    self.run.events.append(("thread-raised", self, e.what))
                finally:
                    self.run.current_thread = prev


class BasisList:
    def __init__(self, tag, n):
        self.tag, self.n = tag, n

    def skv_getitem(self, i):
        if isinstance(i, Fraction):
            i = int(i)
        return (FieldTag(self.tag, int(i)),)

    def skv_len(self):
        return self.n


class DofTable:
    def __init__(self, tag):
        self.tag = tag

    def skv_getitem(self, i):
        if isinstance(i, Fraction):
            i = int(i)
        return DofRow(self.tag, int(i))


class XStub:
    def __init__(self, tag, nq=None):
        self.tag, self.nq = tag, nq

    def skv_getattr(self, name):
        if name == "shape":
            tag, nq = self.tag, self.nq

            class Sh:
                def skv_getitem(self, k):
                    return nq if nq is not None else Poly.sym(f"nqp[{tag}]")
            return Sh()
        raise Unsupported("X." + name)


class BasisStub:
    def __init__(self, run, tag, nb):
        self.run, self.tag = run, tag
        self.Nbfun = SymInt(f"{tag}.Nbfun", nb)

    def skv_getattr(self, name):
        t = self.tag
        if name == "Nbfun":
            return self.Nbfun
        if name == "N":
            return Poly.sym(f"{t}.N")
        if name == "nelems":
            return NT
        if name == "dx":
            return Poly.sym(f"dx[{t}]")
        if name == "X":
            return XStub(t, getattr(self.run, "nqp", {}).get(t))
        if name == "basis":
            return BasisList(t, self.Nbfun.value)
        if name == "element_dofs":
            return DofTable(t)
        if name == "default_parameters":
            def dp(a, k, n):
                self.run.events.append(("defaults", t, n))
                return {f"defaults@{t}": FieldTag(t, 0, "defaults")}
            return PyFunc(dp)
        if name == "zeros":
            return PyFunc(lambda a, k, n: (FieldTag(t, 0, "x"),))
        if name == "interpolate":
            return PyFunc(lambda a, k, n: (FieldTag(t, 0, "x"),))
        raise Unsupported(f"basis attribute {name}")


@dataclass
class Block:
    base: Poly
    stride: Poly
    length: Poly
    value: Any
    thread: Optional[int]


class Run:
    def __init__(self, model: Model, cls_name: str, method: str,
                 sizes: Dict[str, int], nthreads: int = 0,
                 pass_v: bool = True, extra_args=(),
                 schedule: str = "eager", nqp: Dict[str, int] = None,
                 fail_tags: str = None, worker_raise_ok: bool = False):
        self.model = model
        self.worker_raise_ok = worker_raise_ok
        self.fail_tags = fail_tags   # the integrand raises for this pair
        self.raised = None
        self.schedule = schedule
        self.nqp = nqp or {}     # concrete numbers of quadrature points
        self.bufs: List[Buf] = []
        self.threads: List[ThreadStub] = []
        self.events: List[tuple] = []
        self.form_calls: List[tuple] = []
        self.current_thread: Optional[int] = None
        self.cls = model.class_by_name(cls_name)
        self.fn = self.cls.find_method(method)
        if self.fn is None:
            raise AnalysisError(f"{cls_name}.{method} not found")
        self.bases = {t: BasisStub(self, t, n) for t, n in sizes.items()}
        self.kernel_sums: List[Any] = []
        run = self

        def attr_hook(interp, o, name, node):
            if isinstance(o, Poly) and name == "sum":
                def psum(a, k, n):
                    ax = a[0] if a else k.get("axis")
                    return o * Poly.sym(f"SUM[axis={ax}]")
                return PyFunc(psum)
            return NotImplemented

        def call_hook(interp, name, args, kwargs, node):
            if name in ("numpy.zeros", "numpy.empty"):
                shp = args[0]
                if not isinstance(shp, tuple):
                    shp = (shp,)
                if all(isinstance(s, (int, Poly)) for s in shp):
                    return Buf(run, shp)
                return NotImplemented
            if name == "numpy.array":
                v = args[0]
                if isinstance(v, list) and v and all(
                        isinstance(x, (Buf, FlatBuf)) for x in v):
                    return IndexStack(v)
                return NotImplemented
            if name == "numpy.sum":
                x = args[0]
                ax = kwargs.get("axis", args[1] if len(args) > 1 else None)
                if isinstance(x, Poly):
                    return x * Poly.sym(f"SUM[axis={ax}]")
                return NotImplemented
            if name == "itertools.product":
                from itertools import product
                return list(product(*[list(a) for a in args]))
            if name == "numpy.array_split":
                arr, k = args[0], args[1]
                ax = kwargs.get("axis", args[2] if len(args) > 2 else 0)
                if not isinstance(arr, Arr) or not isinstance(k, int):
                    raise Unsupported("array_split operands", node)
                run.events.append(("array_split", ax, node))
                rows = [arr[i] for i in range(arr.shape[0])]
                if ax != 0:
                    # splitting along the pair axis: columns
                    cols = [Arr([r[c] for r in rows])
                            for c in range(arr.shape[1])]
                    n, q = len(cols), k
                    out, pos = [], 0
                    for c in range(q):
                        ln = n // q + (1 if c < n % q else 0)
                        part = cols[pos:pos + ln]
                        pos += ln
                        out.append(Arr([[col[r] for col in part]
                                        for r in range(len(rows))]))
                    return out
                n = len(rows)
                out, pos = [], 0
                for c in range(k):
                    ln = n // k + (1 if c < n % k else 0)
                    out.append(Arr([r.data for r in rows[pos:pos + ln]]))
                    pos += ln
                return out
            if name == "threading.Thread":
                return ThreadStub(run, kwargs.get("target"),
                                  kwargs.get("args", ()), node)
            if name.endswith("FormExtraParams"):
                run.events.append(("params", args[0], node))
                return Params(args[0])
            if name.endswith("JaxDiscreteField"):
                return args[0] if args else None
            if name in ("jax.linearize",):
                f, x = args
                y = interp.apply(f, [x], {}, node)

                def DF(a, k, n, f=f, x=x):
                    direction = a[0]
                    v = interp.apply(f, [direction], {}, n)
                    # the derivative applied to a direction: same call with
                    # the linearisation point replaced by the direction
                    return Poly.sym("D") * v
                return (y, PyFunc(DF))
            if name in ("jax.numpy.asarray",):
                return args[0]
            return NotImplemented
        self.interp = Interp(model, attr_hook=attr_hook, call_hook=call_hook)
        self.interp.trailing = 2
        self.obj = Obj(self.cls, {"nthreads": nthreads,
                                  "dtype": Opaque("dtype"),
                                  "params": {}})

        def form(a, k, n):
            tags = []
            for x in a:
                if isinstance(x, FieldTag):
                    tags.append(repr(x))
                elif isinstance(x, dict):
                    tags.append("w")
                else:
                    tags.append("?")
            for x in a:
                if isinstance(x, dict) and not isinstance(x, Params):
                    run.events.append(("plain-dict-params",
                                       run.current_thread, n))
            run.form_calls.append((list(a), n))
            if run.fail_tags is not None and ";".join(tags) == run.fail_tags:
                raise Raised("IntegrandError")
            return Poly.sym("form(" + ";".join(tags) + ")")
        self.obj.attrs["form"] = PyFunc(form)

        def norm(a, k, n):
            b = a[1] if len(a) > 1 else None
            t = b.tag if isinstance(b, BasisStub) else "?"
            run.events.append(("kwargs", t, n))
            return {f"kwargs@{t}": f"kwargs@{t}"}
        self.obj.attrs["_normalize_asm_kwargs"] = PyFunc(norm)
        names = list(sizes)
        args = [self.bases[names[0]]]
        for nme in names[1:]:
            args.append(self.bases[nme] if pass_v else None)
        args += list(extra_args)
        try:
            self.result = self.interp.call(self.fn, args, {},
                                           self_obj=self.obj)
        except Raised as e:
            if self.nqp or self.fail_tags is not None or \
                    self.worker_raise_ok:
                self.raised = e.what
                self.result = None
                return
            raise AnalysisError(f"{cls_name}.{method}: reaches "
                                f"'{e.what[:60]}' on the symbolic run")
        except Unsupported as e:
            raise AnalysisError(f"{cls_name}.{method}: outside grammar: {e}")

    # ------------------------------------------------------------------
    def blocks(self, fb) -> Tuple[List[Block], bool]:
        """Flat layout of a (flattened) buffer; second value: negated."""
        neg = False
        order = "C"
        if isinstance(fb, FlatBuf):
            buf, neg = fb.buf, fb.neg
            order = fb.order or "C"
        else:
            buf = fb
        shp = buf.shape
        out = []
        for ix, v, th in buf.stores:
            if len(shp) == 1:
                if isinstance(ix, slice) and ix.step is None:
                    lo = Poly.coerce(ix.start if ix.start is not None else 0)
                    hi = Poly.coerce(ix.stop if ix.stop is not None
                                     else shp[0])
                    out.append(Block(lo, Poly.const(1), hi - lo, v, th))
                    continue
                raise AnalysisError(f"store index {ix!r} into a 1-D buffer "
                                    f"outside the slice grammar")
            if not isinstance(ix, tuple):
                ix = (ix,)
            ix = [k for k in ix if not (isinstance(k, slice)
                                        and k == slice(None))
                  and k is not Ellipsis]
            lead = len(shp) - 1
            if len(ix) != lead or not all(
                    isinstance(k, (int, Fraction)) for k in ix):
                raise AnalysisError(f"store index {ix!r} does not address "
                                    f"one local slot of a buffer of shape "
                                    f"{shp}")
            ix = [int(k) for k in ix]
            if order in ("C", "c", None):
                base = Poly()
                for k in range(lead):
                    base = base * Poly.coerce(shp[k]) + ix[k]
                out.append(Block(base * Poly.coerce(shp[-1]), Poly.const(1),
                                 Poly.coerce(shp[-1]), v, th))
            elif order in ("F", "f"):
                base, mul = Poly(), Poly.const(1)
                for k in range(lead):
                    base = base + mul * ix[k]
                    mul = mul * Poly.coerce(shp[k])
                out.append(Block(base, mul, Poly.coerce(shp[-1]), v, th))
            else:
                raise AnalysisError(f"flatten order {order!r}")
        return out, neg


def field_tags(args) -> List[FieldTag]:
    return [a for a in args if isinstance(a, FieldTag)]
