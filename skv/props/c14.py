"""C14 - point location and point evaluation: error discipline of the
simplex finders, child-to-parent modulo versus the block layout and geometry
of the simplex splits, layout agreement inside probes/interpolator."""
from __future__ import annotations

import ast
from fractions import Fraction
from typing import Any, Dict, List, Optional

from ..elements import load_refdoms, RefdomInfo
from ..interp import Interp, Obj, PyFunc, Raised, SymInt, Unsupported
from ..model import AnalysisError, Model, src, walk_no_nested, \
    nested_functions
from ..poly import Poly
from ..refcell import (Child, ChildList, ConnTable, Mask, NT, PStub,
                       PointTable, RowSel, IdxArr, SZ, inside_ref, make_hook,
                       mesh_obj, ref_volume, resolve, simplex_volume)

PID = "C14"
LEVEL = "other"
TECHNIQUE = ("structural error-discipline rule on the finder closures "
             "(containment test as polynomial conditions, every index "
             "return dominated by the 'found' test, exhaustive pass ends in "
             "raise); reference-cell interpretation of the simplex splits "
             "(blocks, partition) tied to the '% nt' child-to-parent map; "
             "layout algebra over probes/interpolator")
LEVEL_TEXT = (
    "Decides: (R1) in the triangle and tetrahedron finders the containment "
    "test is the conjunction of all d+1 barycentric conditions (>= -eps), "
    "a cell index is returned only after the 'every point found' test, the "
    "candidate pass falls back to the exhaustive pass and the exhaustive "
    "pass raises; the 1-D finder raises when fewer cells than points "
    "matched; (R2) quadrilateral / hexahedron / prism finders map a simplex "
    "child to its parent by '% nt', which is right because the split is an "
    "hstack of whole-mesh blocks of the parent's rows, and the split "
    "simplices are non-degenerate, lie in and add up to the reference cell; "
    "(R3) in probes the evaluated values, the row indices and the column "
    "indices are flattened in one (basis function, component, point) "
    "order, and interpolator reshapes rows as (component, point). The "
    "KD-tree candidate search, tolerance behaviour on facets, non-"
    "parallelepiped hexahedra and numerical exactness are not decided.")
LEVEL_TEXT += (
    " Added after the seeding phase: the 1-D finder is interpreted on "
    "exact representatives of every order type of (vertices, query "
    "points) for meshes of one to three cells - all vertex numberings, "
    "cell orientations and cell orders; points of the interval get a "
    "containing cell, points outside raise, alone or in a batch.")
LEVEL_TEXT += (
    " Added in the hunting round (defects found by independent agents "
    "on the unchanged tree, DESIGN.md 9.4 / 9.6): "
    "the located cells index the mesh-wide DOF table; finder closures "
    "work on float copies of the query; the interpolator keeps "
    "component axes for points with trailing axes.")
LEVEL_TEXT += (
    " Added in the second hunting round (DESIGN.md 9.6): "
    "elem.dim is read as a number of components only (under an "
    "ElementVector test); point_source hands on every component row of "
    "probes().")
LEVEL_NOTE = ("Trusted: numpy argmax/max/all/tile/flatten; scipy cKDTree "
              "returns candidate cells; gbasis value layout (components..., "
              "cell, point).")
EXPLANATION = "Structural finder rules + reference-cell split audit + layout."
TRUSTED = ["numpy argmax/tile/flatten", "documented gbasis value layout"]
ASSUMPTIONS = ["cells are affine images of the reference cell for the "
               "containment test"]

SPLITS = [("skfem.mesh.mesh_quad_1", "MeshQuad1", "to_meshtri", "RefQuad",
           [{}, {"style": "x"}]),
          ("skfem.mesh.mesh_hex_1", "MeshHex1", "to_meshtet", "RefHex", [{}]),
          ("skfem.mesh.mesh_wedge_1", "MeshWedge1", "to_meshtet", "RefWedge",
           [{}])]


class PV:
    """polynomial-valued per-point quantity; comparisons become conditions"""
    skv_isarray = True

    def __init__(self, p):
        self.p = Poly.coerce(p)

    def skv_binop(self, op, other, reflected):
        o = other.p if isinstance(other, PV) else Poly.coerce(other)
        a, b = (o, self.p) if reflected else (self.p, o)
        if isinstance(op, ast.Add):
            return PV(a + b)
        if isinstance(op, ast.Sub):
            return PV(a - b)
        if isinstance(op, ast.Mult):
            return PV(a * b)
        raise Unsupported("arithmetic on a coordinate value")

    def skv_neg(self):
        return PV(-self.p)

    def skv_compare(self, op, other):
        o = other.p if isinstance(other, PV) else Poly.coerce(other)
        if isinstance(op, ast.GtE):
            return Mask("ge", ("ge", self.p - o))
        if isinstance(op, ast.LtE):
            return Mask("ge", ("ge", o - self.p))
        if isinstance(op, ast.Gt):
            return Mask("gt", ("gt", self.p - o))
        if isinstance(op, ast.Lt):
            return Mask("gt", ("gt", o - self.p))
        raise Unsupported("comparison on a coordinate value")


def _conds(m, acc):
    e = m.expr
    if e[0] == "and":
        _conds(e[1], acc)
        _conds(e[2], acc)
    else:
        acc.append(e)
    return acc


def _finders(model, rep):
    R1 = "C14-R1"
    for modn, clsn, dim in (("skfem.mesh.mesh_tri_1", "MeshTri1", 2),
                            ("skfem.mesh.mesh_tet_1", "MeshTet1", 3)):
        fn = model.func(modn, f"{clsn}.element_finder")
        inner = [n for n in nested_functions(fn.node)
                 if isinstance(n, ast.FunctionDef)]
        if len(inner) != 1:
            raise AnalysisError(f"{clsn}.element_finder: closure not found")
        f = inner[0]
        path, line = fn.path, f.lineno
        # ---- containment test
        asg = [n for n in ast.walk(f) if isinstance(n, ast.Assign)
               and src(n.targets[0]) == "inside"]
        if len(asg) != 1:
            raise AnalysisError(f"{clsn}: 'inside' assignment")

        class XS:
            def skv_getitem(self, k):
                return PV(Poly.sym(f"X{int(k)}"))
        try:
            m = Interp(model).eval(asg[0].value,
                                   {"X": XS(), "eps": PV(Poly.sym("eps"))},
                                   fn.module)
        except Unsupported as e:
            raise AnalysisError(f"{clsn}: containment test outside grammar: "
                                f"{e}")
        conds = _conds(m, []) if isinstance(m, Mask) else []
        eps = Poly.sym("eps")
        want = [Poly.sym(f"X{k}") + eps for k in range(dim)]
        last = Poly.const(1) + eps
        for k in range(dim):
            last = last - Poly.sym(f"X{k}")
        want.append(last)
        got = [c[1] for c in conds if c[0] == "ge"]
        ok = len(conds) == dim + 1 and len(got) == dim + 1 and \
            all(any(g == w for g in got) for w in want)
        cons = f"{clsn}.finder:containment"
        if ok:
            rep.ok(R1, cons, f"all {dim + 1} barycentric coordinates >= "
                   f"-eps")
        else:
            rep.fail(R1, path, f"{clsn}.element_finder", cons,
                     f"the containment test checks "
                     f"{[str(c[1]) + (' >= 0' if c[0] == 'ge' else ' > 0') for c in conds]}"
                     f", not all {dim + 1} barycentric conditions "
                     f"(>= -eps): points outside a candidate cell are "
                     f"accepted, or points on a facet rejected", asg[0].lineno)
        # ---- X from invF of the query points on the candidates
        xa = [n for n in ast.walk(f) if isinstance(n, ast.Assign)
              and src(n.targets[0]) == "X"]
        okx = len(xa) == 1 and isinstance(xa[0].value, ast.Call) and \
            src(xa[0].value.func) == "mapping.invF" and \
            len(xa[0].value.args) == 2 and src(xa[0].value.args[1]) == "ix"
        _v(rep, R1, okx, f"{clsn}.finder:pull-back",
           "reference coordinates = invF(points, candidate cells)", path,
           f"{clsn}.element_finder", "the query points are not pulled back "
           "through the inverse map of the candidate cells", line)
        _finder_logic(model, rep, modn, clsn, dim, path, line)
    _line_finder(model, rep)


def _finder_logic(model, rep, modn, clsn, dim, path, line):
    """Everything in the simplex finder after the containment test is
    boolean bookkeeping over (candidate cells) x (query points).  The
    KD-tree and the inverse map are replaced by oracles - arbitrary
    candidate lists and an arbitrary containment relation - and the finder
    is interpreted on a family of small cases: every point must get a cell
    that contains it (whether or not that cell was among its candidates),
    and the call must raise when some point lies in no cell, alone or in a
    batch with points that are found."""
    from itertools import product
    from .. import nlite
    from ..nlite import NArr
    R1 = "C14-R1"
    cls = model.cls(modn, clsn)
    fn = cls.methods["element_finder"]
    # number of candidates asked from the tree: min(K, nelems)
    ks = [int(n.args[0].value) for n in ast.walk(fn.node)
          if isinstance(n, ast.Call) and src(n.func) == "min"
          and len(n.args) == 2 and isinstance(n.args[0], ast.Constant)]
    K = ks[0] if ks else 5
    NE = K + 2
    cont_opts = [frozenset(), frozenset({0}), frozenset({K // 2}),
                 frozenset({NE - 1}), frozenset({1, 2})]
    cand_opts = [list(range(K)), list(range(NE - K, NE)),
                 [NE - 1, 0] + list(range(2, K))]
    inside_val = Fraction(1, dim + 2)
    first_bad = {}
    ncase = 0
    for conts in product(cont_opts, repeat=2):
        for cands in product(cand_opts, repeat=2):
            ncase += 1
            asked = {}

            class Tree:
                def skv_getattr(self, name):
                    if name == "query":
                        def q(a, k, n):
                            asked["k"] = a[1]
                            return (None, NArr([list(c) for c in cands]))
                        return PyFunc(q)
                    raise Unsupported("tree." + name)

            def invF(a, k, n):
                ix = a[1] if len(a) > 1 else k.get("tind")
                cells = [int(c) for c in ix.data]
                asked["ix"] = cells
                return NArr([[[inside_val if c in conts[q] else Fraction(-1)
                               for q in range(2)] for c in cells]
                             for _ in range(dim)])
            mapping = Obj(None, {"invF": PyFunc(invF)})

            class TS:
                def skv_getattr(self, name):
                    if name == "shape":
                        return (dim + 1, NE)
                    raise Unsupported("t." + name)
            obj = Obj(cls, {"_cached_tree": Tree(), "t": TS()})
            try:
                it = Interp(model, call_hook=nlite.hook)
                finder = it.call(fn, [], {"mapping": mapping}, self_obj=obj)
                pts = [NArr([Fraction(0), Fraction(1)]) for _ in range(dim)]
                try:
                    r = it.apply(finder, pts, {}, fn.node)
                    out = ("ok", [int(v) for v in r.data])
                except Raised as e:
                    out = ("raised", e.what)
            except Unsupported as e:
                raise AnalysisError(f"{clsn}.element_finder outside "
                                    f"grammar: {e}")
            except Raised as e:
                raise AnalysisError(f"{clsn}.element_finder raises while "
                                    f"being set up: {e.what}")
            desc = (f"points contained in cells {[sorted(c) for c in conts]}"
                    f", candidates {list(cands)} of {NE} cells")
            if any(not c for c in conts):
                if out[0] != "raised":
                    first_bad.setdefault(
                        "outside", f"a point that lies in no cell gets "
                        f"cell(s) {out[1]} instead of an error ({desc})")
            else:
                if out[0] != "ok":
                    first_bad.setdefault(
                        "inside", f"points that lie in the mesh make the "
                        f"finder raise ({out[1]}; {desc})")
                elif len(out[1]) != 2 or any(
                        out[1][q] not in conts[q] for q in range(2)):
                    first_bad.setdefault(
                        "inside", f"the finder returns cells {out[1]} "
                        f"({desc}): a point is assigned a cell that does "
                        f"not contain it")
    for key, okmsg in (("inside", "every point gets a cell that contains "
                        "it, whether or not the cell was among its "
                        "candidates"),
                       ("outside", "a point in no cell raises, alone or "
                        "in a batch with points that are found")):
        cons = f"{clsn}.finder:error-discipline[{key}]"
        if key in first_bad:
            rep.fail(R1, path, f"{clsn}.element_finder", cons,
                     first_bad[key], line)
        else:
            rep.ok(R1, cons, okmsg + f" ({ncase} oracle cases, "
                   f"{NE} cells, {K} candidates per point)")


def _line_finder(model, rep):
    """1-D finder: it touches coordinates only through comparisons, sorting
    and digitize (plus one mean of the two right-most vertices), so its
    outcome depends on the order type of (vertices, query points) alone.
    It is interpreted on exact representatives of every order type for
    meshes of one to three cells: all vertex numberings, both orientations
    of every cell, all cell orders; query points at every vertex, inside
    every cell, left and right of the interval, alone and mixed."""
    from itertools import permutations, product
    from .. import nlite
    from ..nlite import NArr
    R1 = "C14-R1"
    cls = model.cls("skfem.mesh.mesh_line_1", "MeshLine1")
    fn = cls.methods.get("element_finder")
    if fn is None:
        raise AnalysisError("MeshLine1.element_finder not found")
    q = "MeshLine1.element_finder"
    ncfg = 0
    first_bad: Dict[str, str] = {}

    def meshes():
        for k in (1, 2, 3):
            cells = [(i, i + 1) for i in range(k)]       # in sorted positions
            perms = list(permutations(range(k + 1)))
            for vp in perms:
                for flips in product((0, 1), repeat=k):
                    yield k, vp, flips, tuple(range(k))
            for cp in permutations(range(k)):
                if cp != tuple(range(k)):
                    yield k, tuple(range(k + 1)), (0,) * k, cp

    for k, vp, flips, cp in meshes():
        ncfg += 1
        # vertex number vp[i] sits at coordinate i
        coord = {vp[i]: Fraction(i) for i in range(k + 1)}
        pdata = [[coord[v] for v in range(k + 1)]]
        tcols = []
        for c in cp:
            a, b = vp[c], vp[c + 1]
            tcols.append((b, a) if flips[c] else (a, b))
        tdata = [[c[0] for c in tcols], [c[1] for c in tcols]]
        span = [(min(coord[a], coord[b]), max(coord[a], coord[b]))
                for a, b in tcols]
        obj = Obj(cls, {"p": NArr(pdata), "t": NArr(tdata)})
        it = Interp(model, call_hook=nlite.hook)
        try:
            finder = it.call(fn, [], {}, self_obj=obj)
        except (Unsupported, Raised) as e:
            raise AnalysisError(f"{q} outside grammar: {e}")
        inside = [Fraction(i) for i in range(k + 1)] + \
            [Fraction(2 * i + 1, 2) for i in range(k)]
        outside = [Fraction(-1, 2), Fraction(2 * k + 1, 2), Fraction(-3),
                   Fraction(k + 5)]
        desc = f"{k} cell(s), vertex numbering {vp}, flips {flips}, " \
               f"cell order {cp}"

        def call(xs):
            it2 = Interp(model, call_hook=nlite.hook)
            try:
                r = it2.apply(finder, [NArr(list(xs))], {}, fn.node)
                return "ok", r
            except Raised as e:
                return "raised", e.what
            except Unsupported as e:
                raise AnalysisError(f"{q}.finder outside grammar: {e}")
        st, r = call(inside)
        if st != "ok":
            first_bad.setdefault(
                "inside", f"points of the interval make the finder raise "
                f"({r}) on a mesh of {desc}")
        else:
            got = r.data if isinstance(r, NArr) else None
            if got is None or len(got) != len(inside):
                first_bad.setdefault(
                    "inside", f"{len(inside)} points in, "
                    f"{None if got is None else len(got)} cells out ({desc})")
            else:
                for x, c in zip(inside, got):
                    if not (0 <= c < k and span[c][0] <= x <= span[c][1]):
                        first_bad.setdefault(
                            "inside", f"the point x = {x} is assigned to "
                            f"cell {c} = [{span[c][0] if 0 <= c < k else '?'}"
                            f", {span[c][1] if 0 <= c < k else '?'}] which "
                            f"does not contain it ({desc})")
                        break
        for xo in outside:
            for batch in ([xo], [inside[0], xo], [xo, inside[-1]],
                          [inside[1 % len(inside)], xo, inside[0]]):
                st, r = call(batch)
                if st != "raised":
                    side = "left" if xo < 0 else "right"
                    first_bad.setdefault(
                        "outside-" + side,
                        f"the point x = {xo} to the {side} of the interval "
                        f"[0, {k}] (queried as {[str(b) for b in batch]}) "
                        f"does not raise but is assigned "
                        f"{r.data if isinstance(r, NArr) else r} ({desc})")
    for key in ("inside", "outside-left", "outside-right"):
        cons = f"MeshLine1.finder:{key}"
        if key in first_bad:
            rep.fail(R1, fn.path, q, cons, first_bad[key], fn.lineno)
        else:
            rep.ok(R1, cons,
                   {"inside": "every vertex and interior point is assigned "
                    "a cell that contains it",
                    "outside-left": "points left of the interval raise, "
                    "alone or in a batch",
                    "outside-right": "points right of the interval raise, "
                    "alone or in a batch"}[key] +
                   f" ({ncfg} order types of meshes with 1-3 cells)")
    rep.units("1-D finder order types", ncfg)


def _v(rep, rule, ok, cons, okmsg, path, qual, badmsg, line):
    if ok:
        rep.ok(rule, cons, okmsg)
    else:
        rep.fail(rule, path, qual, cons, badmsg, line)


def run_split(model: Model, modname, clsname, meth, rd: RefdomInfo, kwargs):
    cls = model.cls(modname, clsname)
    fn = cls.methods.get(meth)
    if fn is None:
        raise AnalysisError(f"{clsname}.{meth} not found")
    cap: Dict[str, Any] = {}
    base = make_hook(rd, cap)

    def hook(interp, name, args, kwargs_, node):
        if name.endswith(".MeshTri1") or name.endswith(".MeshTet1"):
            cap["ctor"] = (name.rsplit(".", 1)[1], args, kwargs_)
            return Obj(None, {"facets": "FACETS"})
        if name == "numpy.concatenate":
            return list(args[0])
        if name == "numpy.tile" and len(args) == 2:
            return ("tile", args[0], args[1])
        if name == "numpy.argsort" and isinstance(args[0], tuple) and \
                args[0][:1] == ("tile",):
            from ..refcell import ColPerm
            return ColPerm(f"the cells sorted by a {args[0][2]}-fold tiled "
                           f"index: the blocks are interleaved")
        if name == "numpy.arange" and len(args) == 2:
            lo, hi = (Poly.coerce(a) for a in args)
            if hi - lo == NT:
                from ..refcell import IdxArr
                return IdxArr("cell", 0, lo)
        r = base(interp, name, args, kwargs_, node)
        return r
    obj = mesh_obj(model, cls, rd, tags=False)
    obj.attrs["subdomains"] = {"s": Poly.sym("v")}
    obj.attrs["boundaries"] = None
    obj.attrs["_subdomains"] = {"s": Poly.sym("v")}
    obj.attrs["_boundaries"] = None
    it = Interp(model, call_hook=hook)
    try:
        it.call(fn, [], dict(kwargs), self_obj=obj)
    except Raised as e:
        raise AnalysisError(f"{clsname}.{meth} raises: {e.what}")
    except Unsupported as e:
        raise AnalysisError(f"{clsname}.{meth} outside grammar: {e}")
    return fn, cap


def _face_diagonals(rd, cells_v):
    """the diagonal each quadrilateral face of the 3-D reference cell is cut
    along by the simplices: {face index: (i, j) local vertex indices}, or a
    string describing what is wrong"""
    idx = {tuple(p): k for k, p in enumerate(rd.p)}
    edges = set()
    for vs in cells_v:
        loc = [idx.get(tuple(p)) for p in vs]
        if None in loc:
            return "a simplex vertex is not a vertex of the cell"
        edges |= {frozenset((a, b)) for a in loc for b in loc if a != b}
    out = {}
    for fi, f in enumerate(rd.facets or []):
        if len(set(f)) != 4:
            continue
        used = [d for d in ((f[0], f[2]), (f[1], f[3]))
                if frozenset(d) in edges]
        if len(used) != 1:
            return (f"face {f} is cut along {len(used)} diagonals by the "
                    f"simplices")
        out[fi] = used[0]
    return out


def _conformity(rd, cells_v):
    """necessary condition for the simplices of neighbouring cells to meet
    in whole faces.  Box: cells of a tensor grid are translates of each
    other, so the cut of a face must be the translate of the cut of the
    opposite face.  Prism: an extruded mesh of sorted triangles numbers
    the base of each prism in increasing global order, and a neighbour can
    see the shared base edge as any of its local edges, so the diagonal must
    be chosen by one rule of the local order on all three side faces.
    Returns (ok, text)."""
    dg = _face_diagonals(rd, cells_v)
    if isinstance(dg, str):
        return False, dg
    P = rd.p

    def sub(a, b):
        return tuple(x - y for x, y in zip(a, b))
    if rd.kind == "box":
        seen = 0
        for fa, da in dg.items():
            A = rd.facets[fa]
            for fb, db in dg.items():
                if fb <= fa:
                    continue
                B = rd.facets[fb]
                ds = {sub(P[b], P[a]) for a in A for b in B}
                shift = [d for d in ds
                         if {tuple(x + y for x, y in zip(P[a], d))
                             for a in A} == {tuple(P[b]) for b in B}]
                if not shift:
                    continue
                seen += 1
                d = shift[0]
                moved = {tuple(x + y for x, y in zip(P[a], d)) for a in da}
                if moved != {tuple(P[b]) for b in db}:
                    return False, (
                        f"face {A} is cut along {da} but the opposite face "
                        f"{B} along {db}, which is not its translate: the "
                        f"neighbouring cells of a tensor grid cut their "
                        f"common face along different diagonals")
        if seen != 3:
            return False, f"{seen} pairs of opposite faces recognised, not 3"
        return True, "3 pairs of opposite faces are cut along translated " \
                     "diagonals"
    if rd.kind == "prism":
        classes = {}
        for fa, da in dg.items():
            A = rd.facets[fa]
            # pair the vertices of the face along the extrusion direction
            lo = [a for a in A if any(
                sub(P[b], P[a]) == (0,) * (rd.dim - 1) + (1,) for b in A)]
            if len(lo) != 2:
                return False, f"side face {A} not recognised as extruded"
            bottom = [a for a in da if a in lo]
            if len(bottom) != 1:
                return False, f"face {A}: {da} is not a diagonal"
            classes[tuple(A)] = ("lower" if bottom[0] == min(lo)
                                 else "higher")
        if len(classes) != 3:
            return False, f"{len(classes)} side faces recognised, not 3"
        if len(set(classes.values())) != 1:
            return False, (
                "the side faces are not cut by one rule: " + ", ".join(
                    f"face {list(k)} from the {v}-numbered base vertex"
                    for k, v in classes.items()) +
                "; a neighbouring prism that sees the shared base edge as "
                "another local edge cuts the common face along the other "
                "diagonal")
        return True, (f"all 3 side faces are cut from the "
                      f"{next(iter(classes.values()))}-numbered vertex of "
                      f"the base edge")
    return True, "2-D split: cells meet in whole edges"


def split_rules(model, rep, rule_geo, rule_blocks, rule_sub=None,
                rule_conf=None):
    refdoms = load_refdoms(model)
    out = 0
    for modn, clsn, meth, rdn, variants in SPLITS:
        rd = refdoms[rdn]
        for kw in variants:
            fn, cap = run_split(model, modn, clsn, meth, rd, kw)
            tag = f"{clsn}.{meth}" + (f"[{kw}]" if kw else "")
            ctor = cap.get("ctor")
            if not ctor or len(ctor[1]) < 2 or not isinstance(ctor[1][1],
                                                              ChildList):
                raise AnalysisError(f"{tag}: simplex mesh construction not "
                                    f"recognised")
            pts, cl = ctor[1][0], ctor[1][1]
            if isinstance(pts, PStub):
                pts = PointTable(["old"])
            srd = refdoms["RefTri" if ctor[0] == "MeshTri1" else "RefTet"]
            out += 1
            # blocks: every child is a whole-mesh block (no mask)
            whole = all(not c.mask for c in cl.children) and \
                not getattr(cl, "permuted", None)
            _v(rep, rule_blocks, whole, f"{tag}:blocks",
               f"{len(cl.children)} whole-mesh blocks: child b of cell k is "
               f"simplex k + b*nt, so 'simplex % nt' is its parent",
               fn.path, f"{clsn}.{meth}",
               "the simplices are not stored as whole-mesh blocks: "
               "'% nt' does not recover the parent cell", fn.lineno)
            # geometry
            bad = None
            vol = Fraction(0)
            cells_v = []
            for ci, c in enumerate(cl.children):
                vs = []
                for r in c.rows:
                    p = resolve(rd, pts, r)
                    if isinstance(p, str):
                        bad = f"simplex {ci}: {p}"
                        break
                    vs.append(p)
                if bad:
                    break
                if len(vs) != srd.nnodes:
                    bad = f"simplex {ci} has {len(vs)} vertices"
                    break
                v = abs(simplex_volume(vs))
                if v == 0:
                    bad = f"simplex {ci} is degenerate"
                    break
                if not all(inside_ref(rd, p) for p in vs):
                    bad = f"simplex {ci} leaves the cell"
                    break
                vol += v
                cells_v.append(vs)
            if bad is None and vol != ref_volume(rd):
                bad = (f"the simplices' volumes add up to {vol}, the cell "
                       f"has {ref_volume(rd)}")
            if bad is None:
                from ..refcell import first_overlap
                ov = first_overlap(cells_v)
                if ov:
                    bad = (f"simplices {ov[0]} and {ov[1]} overlap (and, "
                           f"the volumes adding up, part of the cell is "
                           f"not covered)")
            if bad:
                rep.fail(rule_geo, fn.path, f"{clsn}.{meth}", f"{tag}:partition",
                         bad + ": points of the cell are located in no (or "
                         "two) simplices", fn.lineno)
            else:
                rep.ok(rule_geo, f"{tag}:partition",
                       f"{len(cl.children)} non-degenerate simplices inside "
                       f"the cell, volumes sum to {ref_volume(rd)}",
                       sample=(clsn == "MeshHex1"))
            if rule_conf and not bad and rd.dim == 3:
                okc, txt = _conformity(rd, cells_v)
                _v(rep, rule_conf, okc, f"{tag}:conforming", txt, fn.path,
                   f"{clsn}.{meth}", txt, fn.lineno)
            if rule_conf and rd.dim == 3 and any(
                    len(set(f)) == 4 for f in (rd.facets or [])):
                # A quadrilateral face shared by two cells can be seen by
                # them with local numberings that differ by any symmetry of
                # the face; neither of its diagonals is invariant under a
                # quarter turn.  A split that selects rows of t by a fixed
                # local pattern therefore cuts the common face along
                # different diagonals for some admissible numbering: the
                # choice has to depend on *global* vertex numbers
                # (comparisons / argsort / argmin over self.t).
                looks = any(
                    (isinstance(n, ast.Compare) and "self.t" in src(n))
                    or (isinstance(n, ast.Call) and src(n.func).split(".")[-1]
                        in ("argsort", "argmin", "argmax", "sort", "min",
                            "max", "lexsort", "take_along_axis")
                        and "self.t" in src(n))
                    for n in walk_no_nested(fn.node))
                _v(rep, rule_conf, looks, f"{tag}:any-numbering",
                   "the diagonal of every quadrilateral face is chosen from "
                   "global vertex numbers", fn.path, f"{clsn}.{meth}",
                   f"{clsn}.{meth} selects the vertices of every simplex by "
                   f"fixed local positions and never looks at the global "
                   f"vertex numbers: two cells that see their common "
                   f"quadrilateral face with different local numberings "
                   f"(any mesh not built as a tensor grid / as an extrusion "
                   f"of index-sorted triangles, e.g. after oriented() or "
                   f"joining rotated parts) cut it along different "
                   f"diagonals - the simplex mesh has the right volume but "
                   f"is not conforming (interior faces with one neighbour)",
                   fn.lineno)
            if rule_sub and "replace" in cap:
                sub = cap["replace"][-1][1].get("_subdomains")
                nb = len(cl.children)
                want = [Poly.sym("v") + NT * b for b in range(nb)]
                got = sub.get("s") if isinstance(sub, dict) else None
                okm = isinstance(got, list) and \
                    [Poly.coerce(g) for g in got] == want
                _v(rep, rule_sub, okm, f"{tag}:subdomain-offsets",
                   f"cell v of a subdomain becomes simplices v + b*nt, "
                   f"b < {nb}", fn.path, f"{clsn}.{meth}",
                   f"subdomain cells are mapped to {got}, but the simplices "
                   f"of cell v are v + b*nt for b < {nb}", fn.lineno)
    return out


def _modulo(model, rep):
    """finder of a split cell type: the simplex finder of the split mesh,
    reduced modulo the number of parent cells - by symbolic run"""
    R2 = "C14-R2"
    NTP = Poly.sym("nparents")

    class Idx:
        skv_isarray = True

        def __init__(self, args):
            self.args = args

        def skv_binop(self, op, other, reflected):
            if isinstance(op, ast.Mod) and not reflected:
                return ("mod", self, other)
            raise Unsupported("arithmetic on the simplex index")
    for modn, clsn, meth, rdn, _ in SPLITS:
        cls = model.cls(modn, clsn)
        fn = cls.methods["element_finder"]
        log = []

        def split(a, k, n):
            log.append(("split", tuple(a), dict(k)))
            return Obj(None, {"element_finder": PyFunc(
                lambda a2, k2, n2: PyFunc(lambda a3, k3, n3: Idx(a3)))})

        class TS:
            def skv_getattr(self, name):
                if name == "shape":
                    return (4, NTP)
                raise Unsupported("t." + name)
        obj = Obj(cls, {meth: PyFunc(split), "t": TS()})
        try:
            it = Interp(model)
            f = it.call(fn, [], {}, self_obj=obj)
            r = it.apply(f, ["X", "Y"], {}, fn.node)
        except (Unsupported, Raised) as e:
            raise AnalysisError(f"{clsn}.element_finder: {e}")
        ok = (isinstance(r, tuple) and r[0] == "mod"
              and isinstance(r[1], Idx) and list(r[1].args) == ["X", "Y"]
              and Poly.coerce(r[2]) == NTP and len(log) == 1)
        _v(rep, R2, ok, f"{clsn}.finder:modulo",
           f"simplex index of {meth}() at the same points, taken modulo "
           f"the number of parent cells", fn.path,
           f"{clsn}.element_finder",
           f"the finder returns {r!r}: not the simplex index of {meth}() "
           f"reduced modulo the number of parent cells", fn.lineno)


def _probes(model, rep):
    R3 = "C14-R3"
    fn = model.func("skfem.assembly.basis.cell_basis", "CellBasis.probes")
    path, line = fn.path, fn.lineno
    NB, CP, NP = (Poly.sym(x) for x in ("Nbfun", "comp", "npts"))

    class L:
        """flat array with role layout (major -> minor)"""
        skv_isarray = True

        def __init__(self, dims, what):
            self.dims, self.what = list(dims), what

        def skv_getattr(self, name):
            if name == "flatten":
                return PyFunc(lambda a, k, n: self)
            if name == "shape":
                return tuple(e for _, e in self.dims)
            raise Unsupported("layout." + name)

    class Cells:
        skv_isarray = True

    class X:
        skv_isarray = True

        def __init__(self, npts):
            self.npts = npts

        def skv_getattr(self, name):
            if name == "shape":
                return (2, self.npts)
            raise Unsupported("x." + name)

        def skv_getitem(self, ix):
            if isinstance(ix, tuple) and len(ix) == 2 and isinstance(
                    ix[1], slice) and ix[1] != slice(None):
                lo, hi = ix[1].start or 0, ix[1].stop
                if isinstance(lo, int) and isinstance(hi, int):
                    # a block of points: its own extent
                    n = min(hi, getattr(self.npts, "value", hi)) - lo
                    return X(SymInt(f"npts[{lo}:{hi}]", n))
                raise Unsupported("symbolic slice of the points")
            return self

        def skv_iter(self):
            return ["x0", "x1"]
    cells = Cells()

    class ED:
        """a cell-to-DOF table; its columns are numbered either like the
        cells of the mesh or like the cells of the basis (positions in
        tind, for a basis on a subset of the cells)"""
        def __init__(self, columns):
            self.columns = columns

        def skv_getitem(self, ix):
            if isinstance(ix, tuple) and len(ix) == 2 and isinstance(
                    ix[1], L):
                return L([("fn", NB)] + ix[1].dims,
                         f"element_dofs[{self.columns}]")
            raise Unsupported("element_dofs index")
    cap = {}

    def hook(interp, name, args, kwargs, node):
        if name == "numpy.array" and isinstance(args[0], list) and args[0] \
                and all(isinstance(a, L) for a in args[0]):
            return L([("fn", NB)] + args[0][0].dims, "phis")
        if name == "numpy.prod":
            return CP
        if name == "numpy.arange":
            n = Poly.coerce(args[0])
            if n == CP * cur["np"]:
                return L([("row", n)], "arange")
            return NotImplemented
        if name == "numpy.tile":
            a, n = args
            if isinstance(a, Cells):
                return L([("comp", Poly.coerce(n)), ("pt", cur["np"])],
                         "cells")
            if isinstance(a, L):
                return L([("rep", Poly.coerce(n))] + a.dims, a.what)
        if name == "numpy.repeat" and len(args) == 2 and isinstance(
                args[0], L):
            # every element repeated n times: the repetition is minor
            return L(args[0].dims + [("rep", Poly.coerce(args[1]))],
                     args[0].what)
        if name.endswith("coo_matrix"):
            cap.setdefault("all", []).append((args, kwargs, cur["np"]))
            cap["coo"] = (args, kwargs)
            return ("COO", len(cap["all"]) - 1)
        if name.endswith("sparse.vstack") or name.endswith(".vstack"):
            seq = list(args[0])
            if seq and all(isinstance(x, tuple) and x and x[0] == "COO"
                           for x in seq):
                return ("VSTACK", [x[1] for x in seq])
            return NotImplemented
        return NotImplemented
    cur = {"np": NP}

    def gbasis(a, k, n):
        return (L([("comp", CP), ("pt", cur["np"]),
                   ("one", Poly.const(1))], f"gbasis[{a[2]}]"),)
    def find(a2, k2, n2):
        return cells
    finder = PyFunc(lambda a, k, n: PyFunc(find))
    obj = Obj(model.cls("skfem.assembly.basis.cell_basis", "CellBasis"), {
        "mesh": Obj(None, {"element_finder": finder}),
        "mapping": Obj(None, {"invF": PyFunc(lambda a, k, n: "PTS")}),
        "elem": Obj(None, {"gbasis": PyFunc(gbasis)}),
        "Nbfun": SymInt("Nbfun", 3), "_base_tensor_order": (2,),
        "element_dofs": ED("cells of the basis"),
        "dofs": Obj(None, {"element_dofs": ED("cells of the mesh")}),
        "N": Poly.sym("N")})
    it = Interp(model, call_hook=hook)

    def int_builtin(a, k, n):
        return a[0]
    try:
        # int(np.prod(...)) -> comp symbol
        it.overrides = {}
        NP = SymInt("npts", 3)
        cur["np"] = NP
        r = it.call(fn, [X(NP)], {}, self_obj=obj)
    except (Unsupported, Raised) as e:
        raise AnalysisError(f"CellBasis.probes: {e}")
    if not (isinstance(r, tuple) and r and r[0] == "COO"):
        raise AnalysisError(f"CellBasis.probes returns {r!r}")
    if "coo" not in cap:
        raise AnalysisError("CellBasis.probes: coo_matrix not built")
    (data_idx,), kw = cap["coo"][0][:1], cap["coo"][1]
    phis, (rows, cols) = data_idx[0], data_idx[1]

    def roles(l):
        return [r for r, e in l.dims if e != Poly.const(1)]
    ok_phis = isinstance(phis, L) and roles(phis) == ["fn", "comp", "pt"]
    ok_cols = isinstance(cols, L) and roles(cols) == ["fn", "comp", "pt"]
    ok_rows = isinstance(rows, L) and roles(rows) == ["rep", "row"] and \
        rows.dims[0][1] == NB and rows.dims[1][1] == CP * NP
    _v(rep, R3, ok_phis and ok_cols and ok_rows, "probes:layout",
       "values [fn][comp][pt], columns element_dofs[fn, cells[pt]] in "
       "[fn][comp][pt], rows = (comp*npts row numbers) repeated per fn",
       path, "CellBasis.probes",
       f"values {getattr(phis, 'dims', phis)}, rows "
       f"{getattr(rows, 'dims', rows)}, cols {getattr(cols, 'dims', cols)} "
       f"are not flattened in one (basis function, component, point) "
       f"order: entries are paired with wrong rows or DOFs", line)
    # the finder returns cell numbers of the *mesh*: the table they index
    # must have one column per mesh cell.  AbstractBasis.element_dofs is
    # restricted to the cells of the basis (dofs.element_dofs[:, tind])
    _v(rep, R3, isinstance(cols, L) and cols.what ==
       "element_dofs[cells of the mesh]", "probes:cell-numbering",
       "the located cells (mesh numbering) index the mesh-wide DOF table",
       path, "CellBasis.probes",
       f"the cells returned by the finder are numbered like the cells of "
       f"the mesh, but they index {getattr(cols, 'what', cols)}: for a "
       f"basis on a subset of the cells column k of that table belongs to "
       f"cell tind[k], so the shape functions of the located cell are "
       f"paired with the DOFs of another cell (or the index is out of "
       f"range)", line)
    sh = kw.get("shape")
    _v(rep, R3, isinstance(sh, tuple) and len(sh) == 2
       and Poly.coerce(sh[0]) == CP * NP and Poly.coerce(sh[1]) == Poly.sym("N"),
       "probes:shape", "matrix shape (comp*npts, N)", path,
       "CellBasis.probes", f"matrix shape is {sh}", line)
    # a large point set (more points than any block size a memory-saving
    # rewrite might choose): the matrix must still be ONE (comp, pt) row
    # layout over all points
    cap.clear()
    BIG = SymInt("npts", 250000)

    class ProbeObj(Obj):
        pass
    orig_call = None
    seen_np = []

    def hook2(interp, name, args, kwargs, node):
        return hook(interp, name, args, kwargs, node)
    it2 = Interp(model, call_hook=hook2)
    # every (recursive) entry into probes announces the extent of its x
    base_call = it2.call

    def call2(f, args, kwargs=None, self_obj=None):
        if f is fn and args and isinstance(args[0], X):
            prev = cur["np"]
            cur["np"] = args[0].npts
            try:
                return base_call(f, args, kwargs, self_obj=self_obj)
            finally:
                cur["np"] = prev
        return base_call(f, args, kwargs, self_obj=self_obj)
    it2.call = call2
    try:
        r2 = it2.call(fn, [X(BIG)], {}, self_obj=obj)
    except (Unsupported, Raised) as e:
        raise AnalysisError(f"CellBasis.probes (large point set): {e}")
    if isinstance(r2, tuple) and r2 and r2[0] == "COO":
        rep.ok(R3, "probes:large-point-set", "one matrix in the (comp, pt) "
               "row layout also for 250000 points")
    elif isinstance(r2, tuple) and r2 and r2[0] == "VSTACK":
        rep.fail(R3, path, "CellBasis.probes", "probes:large-point-set",
                 f"for a large point set the matrix is a vertical stack of "
                 f"{len(r2[1])} per-block matrices: rows run (block, "
                 f"component, point in block) instead of (component, "
                 f"point) - for vector- and tensor-valued bases probes(x) "
                 f"@ y and the interpolator mix up components as soon as "
                 f"the number of points exceeds the block size", line)
    else:
        raise AnalysisError(f"CellBasis.probes (large point set) returns "
                            f"{r2!r}")
    fi = model.func("skfem.assembly.basis.cell_basis",
                    "CellBasis.interpolator")
    # symbolic run: probes(x) @ y has one row per (component, point) in
    # that order; the interpolator must hand back (components..., points)
    from .c19 import AxArr
    bcls = model.cls("skfem.assembly.basis.cell_basis", "CellBasis")
    for tensor, comp_axes in (((), ()), ((Poly.sym("n_comp"),), ("comp",)),
                              ((Poly.sym("n_c1"), Poly.sym("n_c2")),
                               ("c1", "c2"))):
        # points given as (dim, npts) and with trailing axes (dim, a, b)
        for pts_axes in (("pt",), ("a", "b")):
            xs = AxArr(("d",) + pts_axes, "x")
            probed = []

            class Mat:
                def skv_binop(self, op, other, reflected):
                    if isinstance(op, ast.MatMult) and not reflected and \
                            other == "Y":
                        px = probed[-1]
                        if not (isinstance(px, AxArr) and len(px.axes) == 2
                                and px.axes[0] == "d"):
                            raise Unsupported("probes() of points that are "
                                              "not (dim, npts)")
                        p_ = px.axes[1]
                        rows = tuple(comp_axes) + (
                            tuple(p_) if isinstance(p_, tuple) else (p_,))
                        return AxArr((rows,) if len(rows) > 1 else rows,
                                     "values")
                    raise Unsupported("matrix product")

            def probes(a, k, n):
                probed.append(a[0])
                return Mat()
            obj = Obj(bcls, {"probes": PyFunc(probes),
                             "_base_tensor_order": tensor})
            try:
                it = Interp(model)
                f = it.call(fi, ["Y"], {}, self_obj=obj)
                r = it.apply(f, [xs], {}, fi.node)
            except (Unsupported, Raised) as e:
                raise AnalysisError(f"CellBasis.interpolator: {e}")
            want = tuple(comp_axes) + pts_axes
            ok = isinstance(r, AxArr) and bool(probed) and (
                r.axes == want or (len(want) == 1 and r.axes in (want,
                                                                 (want,))))
            tagp = "" if pts_axes == ("pt",) else ",trailing axes"
            _v(rep, R3, ok,
               f"interpolator:reshape[{len(tensor)}-tensor{tagp}]",
               f"values come back with axes {want}: row comp*npts + pt of "
               f"the probing matrix is component comp at point pt",
               fi.path, "CellBasis.interpolator",
               f"for points with axes {('d',) + pts_axes} and "
               f"{len(tensor)} component axes the probed values come back "
               f"as {r!r}, not with axes {want} (MISMATCH: the requested "
               f"shape does not hold the values - numpy raises)",
               fi.lineno)


def _finder_dtypes(model, rep):
    """Query points may come as integer arrays (grid points, np.arange).  A
    finder that writes computed coordinates into a copy of the query array
    truncates them to integers: the point is then located in another cell,
    silently.  Every finder closure under skfem/mesh is scanned for stores
    of foreign data into copies of its arguments (skv/dtypeflow.py); a
    buffer created as a float array is accepted (coordinates are real)."""
    from ..dtypeflow import lossy_store_sites
    R1 = "C14-R1"
    nf = 0
    for fn in model.all_functions():
        if fn.name != "element_finder" or not fn.path.startswith(
                "skfem/mesh/"):
            continue
        for inner in ast.walk(fn.node):
            if not isinstance(inner, ast.FunctionDef) or inner is fn.node:
                continue
            nf += 1
            params = [a.arg for a in inner.args.posonlyargs
                      + inner.args.args]
            if inner.args.vararg:
                params.append(inner.args.vararg.arg)
            sites = lossy_store_sites(inner, params, accept_float=True)
            cons = f"{fn.short()}.{inner.name}:query-dtype"
            bad = [x for x in sites if not x[5]]
            if bad:
                buf, own, who, d, node, _ = bad[0]
                rep.fail(R1, fn.path, fn.short(), cons,
                         f"'{src(d)[:50]}' makes '{buf}' a copy of the query "
                         f"points in *their* dtype, then "
                         f"'{src(node)[:60]}' stores a computed coordinate "
                         f"into it: for integer query arrays (grid points) "
                         f"it is truncated and the point is located in "
                         f"another cell", node.lineno)
            else:
                rep.ok(R1, cons, f"{len(sites)} store(s) into copies of the "
                                 f"query points, none in the caller's "
                                 f"dtype", sample=bool(sites))
    if nf < 4:
        raise AnalysisError(f"only {nf} finder closures found")


def _spatial_dimension_and_components(model, rep):
    """(a) ``element.dim`` is the spatial dimension for scalar elements but
    the *number of components* for ElementVector (which accepts any count).
    Code in skfem/assembly that needs the dimension of the points has to ask
    the mesh; a read of ``<basis>.elem.dim`` is sound only under a test that
    the element is an ElementVector (where it means components).  probes /
    interpolator / point_source size their probe points through
    _base_tensor_order.  (b) probes() returns comp * npts rows, component
    major; point_source() must hand all comp rows on (or refuse) - taking
    row 0 silently keeps the first component of a vector / tensor basis."""
    R3 = "C14-R3"
    n = 0
    for fn in model.all_functions():
        if not fn.path.startswith("skfem/assembly/"):
            continue
        parent = {}
        for a in ast.walk(fn.node):
            for b in ast.iter_child_nodes(a):
                parent[id(b)] = a
        for x in ast.walk(fn.node):
            if not (isinstance(x, ast.Attribute) and x.attr == "dim"
                    and isinstance(x.value, ast.Attribute)
                    and x.value.attr == "elem"
                    and isinstance(x.ctx, ast.Load)):
                continue
            if isinstance(parent.get(id(x)), ast.Call) and \
                    parent[id(x)].func is x:
                continue                 # a method call, not the attribute
            n += 1
            guarded, c = False, x
            while id(c) in parent:
                p_ = parent[id(c)]
                if isinstance(p_, ast.If) and "ElementVector" in src(p_.test):
                    guarded = True
                c = p_
            cons = f"{fn.short()}:{src(x)}@{n}:components-not-dimension"
            cons = f"{fn.short()}:{src(x)}:components-not-dimension"
            if guarded:
                rep.ok(R3, cons, "read as the number of components, under a "
                       "test for ElementVector")
            else:
                rep.fail(R3, fn.path, fn.short(), cons,
                         f"'{src(x)}' is used as the dimension of the points "
                         f"but is the number of components for an "
                         f"ElementVector: probes, interpolator and "
                         f"point_source raise (too many / not enough values "
                         f"to unpack) for ElementVector(elem, dim) with dim "
                         f"different from the mesh dimension, which Basis, "
                         f"asm and interpolate handle", x.lineno)
    if n < 2:
        raise AnalysisError(f"only {n} reads of elem.dim under "
                            f"skfem/assembly found, 3 confirmed by hand")
    ps = model.func("skfem.assembly.basis.cell_basis",
                    "CellBasis.point_source")
    rets = [r.value for r in ast.walk(ps.node) if isinstance(r, ast.Return)
            and r.value is not None]
    if len(rets) != 1:
        raise AnalysisError("CellBasis.point_source: return not found")
    row0 = any(isinstance(x, ast.Subscript) and isinstance(
        x.slice, ast.Constant) and x.slice.value == 0 and "probes" in src(
        x.value) for x in ast.walk(rets[0]))
    refuses = any(isinstance(x, ast.Raise) for x in ast.walk(ps.node))
    cons = "CellBasis.point_source:all-components"
    if row0 and not refuses:
        rep.fail(R3, ps.path, "CellBasis.point_source", cons,
                 f"'{src(rets[0])[:60]}' keeps row 0 of the comp * npts rows "
                 f"of probes(): for a vector- or tensor-valued basis the "
                 f"result is the first component only (entries on the DOFs "
                 f"of the other components are exactly 0), silently",
                 rets[0].lineno)
    else:
        rep.ok(R3, cons, "all component rows of probes() are handed on (or "
               "non-scalar bases are refused)")


def run(model: Model, rep, tier: str) -> None:
    rep.rule("C14-R1", "finder error discipline and complete containment "
             "test")
    rep.rule("C14-R2", "child-to-parent modulo agrees with the block layout "
             "of the simplex split; split partitions the cell")
    rep.rule("C14-R3", "probes: values, rows and columns in one layout; "
             "interpolator reshape")
    _finders(model, rep)
    _finder_dtypes(model, rep)
    n = split_rules(model, rep, "C14-R2", "C14-R2")
    if n < 4:
        raise AnalysisError(f"{n} simplex splits analysed, 4 expected")
    _modulo(model, rep)
    _probes(model, rep)
    _spatial_dimension_and_components(model, rep)
    rep.require_min("C14-R1", 9)
    rep.require_min("C14-R2", 11)
    rep.require_min("C14-R3", 3)


_TR = "skfem/mesh/mesh_tri_1.py"
_TE = "skfem/mesh/mesh_tet_1.py"
_QU = "skfem/mesh/mesh_quad_1.py"
_HE = "skfem/mesh/mesh_hex_1.py"
_WE = "skfem/mesh/mesh_wedge_1.py"
_CB = "skfem/assembly/basis/cell_basis.py"
_LN = "skfem/mesh/mesh_line_1.py"
MUTANTS = [
    ("tensor-order probe sized by the element's dim",
     ("skfem/assembly/basis/cell_basis.py",
      "        loc_pts = np.zeros((self.mesh.dim(), 1))[:, :, np.newaxis]",
      "        loc_pts = np.zeros((self.elem.dim, 1))[:, :, np.newaxis]"),
     "C14-R3"),
    ("point source keeps the first row of the probe matrix",
     ("skfem/assembly/basis/cell_basis.py",
      "        return (self.probes(x[:, None]).toarray()\n"
      "                .reshape(self._base_tensor_order + (-1,)))",
      "        return self.probes(x[:, None]).toarray()[0]"), "C14-R3"),
    ("line finder writes the end-point fix into a copy in the query's dtype",
     ("skfem/mesh/mesh_line_1.py",
      "            xin = np.array(x, dtype=np.float64)",
      "            xin = x.copy()"), "C14-R1"),
    ("probes indexes the DOF table of the basis with mesh cell numbers",
     ("skfem/assembly/basis/cell_basis.py",
      "        cols = self.dofs.element_dofs[:, np.tile(cells, comp)]",
      "        cols = self.element_dofs[:, np.tile(cells, comp)]"),
     "C14-R3"),
    ("interpolator drops the component axes for points with trailing axes",
     ("skfem/assembly/basis/cell_basis.py",
      "                return out.reshape(self._base_tensor_order + "
      "shape[1:])", "                return out.reshape(*shape[1:])"),
     "C14-R3"),
    ("1-D finder pulls every point right of the interval inside",
     (_LN, "            xin[x == self.p[0, ix[-1]]] = ",
      "            xin[x >= self.p[0, ix[-1]]] = "), "C14-R1"),
    ("1-D finder moves the right end point into the first cell",
     (_LN, "self.p[0, ix[-2:]].mean()", "self.p[0, ix[:2]].mean()"),
     "C14-R1"),
    ("1-D finder keys cells by their left vertex",
     (_LN, "        maxt = self.t[np.argmax(self.p[0, self.t], 0),",
      "        maxt = self.t[np.argmin(self.p[0, self.t], 0),"), "C14-R1"),
    ("1-D finder assumes row 1 holds the right vertex",
     (_LN, "        maxt = self.t[np.argmax(self.p[0, self.t], 0),\n"
      "                      np.arange(self.t.shape[1])]",
      "        maxt = self.t[1]"), "C14-R1"),
    ("triangle finder returns the nearest candidate instead of raising",
     (_TR, "                if _search_all:\n                    raise "
      "ValueError(\"Point is outside of the mesh.\")\n                "
      "return finder(x, y, _search_all=True)",
      "                if not _search_all:\n                    return "
      "finder(x, y, _search_all=True)"), "C14-R1"),
    ("tetrahedron finder drops the fourth barycentric condition",
     (_TE, "                      (X[2] >= -eps) *\n                      "
      "(1 - X[0] - X[1] - X[2] >= -eps))",
      "                      (X[2] >= -eps) *\n                      "
      "(1 - X[0] - X[1] >= -eps))"), "C14-R1"),
    ("triangle finder tests strict positivity",
     (_TR, "            inside = ((X[0] >= -eps) *", "            inside = "
      "((X[0] > eps) *"), "C14-R1"),
    ("tetrahedron finder skips the 'found' test",
     (_TE, "            if not inside.max(axis=0).all():\n", "            if "
      "False:\n"), "C14-R1"),
    ("1-D finder no longer raises",
     ("skfem/mesh/mesh_line_1.py", "            if len(elems) < len(x):\n"
      "                raise ValueError(\"Point is outside of the mesh.\")\n",
      ""), "C14-R1"),
    ("fallback pass searches the candidates again",
     (_TR, "                ix = np.arange(nelems, dtype=np.int32)",
      "                ix = ix"), None),
    ("quadrilateral split blocks interleaved",
     (_QU, "            t = np.hstack((self.t[[0, 1, 3]], self.t[[1, 2, 3]]))",
      "            t = np.hstack((self.t[[0, 1, 3]], self.t[[1, 2, 3]]))"
      "[:, np.argsort(np.tile(np.arange(self.t.shape[1]), 2), "
      "kind='stable')]"), "C14-R2"),
    ("quadrilateral split leaves a gap",
     (_QU, "            t = np.hstack((self.t[[0, 1, 3]], self.t[[1, 2, 3]]))",
      "            t = np.hstack((self.t[[0, 1, 3]], self.t[[0, 1, 2]]))"),
     "C14-R2"),
    ("hexahedron split: one tetrahedron degenerate",
     (_HE, "            self.t[[3, 4, 5, 7]],", "            self.t[[3, 4, 5, "
      "1]],"), "C14-R2"),
    ("prism split overlaps",
     (_WE, "            self.t[[2, 3, 4, 5]],", "            self.t[[1, 3, 4, "
      "5]],"), "C14-R2"),
    ("hexahedron finder reduces modulo the number of vertices",
     (_HE, "            return tet_finder(*args) % self.t.shape[1]",
      "            return tet_finder(*args) % self.t.shape[0]"), "C14-R2"),
    ("probes: row indices repeated per point instead of tiled",
     (_CB, "        rows = np.tile(np.arange(comp * x.shape[1],\n"
      "                                 dtype=np.int32), self.Nbfun)",
      "        rows = np.repeat(np.arange(comp * x.shape[1],\n"
      "                                   dtype=np.int32), self.Nbfun)"),
     None),
    ("probes: columns not tiled over the components",
     (_CB, "        cols = self.dofs.element_dofs[:, np.tile(cells, comp)]."
      "flatten()", "        cols = self.dofs.element_dofs[:, np.tile(cells, "
      "1)].flatten()"), "C14-R3"),
    ("interpolator reshapes as (points, components)",
     (_CB, "                out = out.reshape(self._base_tensor_order + "
      "(x.shape[1],))", "                out = out.reshape((x.shape[1],) + "
      "self._base_tensor_order)"), "C14-R3"),
]
TWINS = [
    ("tensor-order probe sized by the mapping's mesh",
     ("skfem/assembly/basis/cell_basis.py",
      "        loc_pts = np.zeros((self.mesh.dim(), 1))[:, :, np.newaxis]",
      "        loc_pts = np.zeros((self.mesh.p.shape[0], 1))[:, :, "
      "np.newaxis]")),
    ("line finder converts the query with astype(float)",
     ("skfem/mesh/mesh_line_1.py",
      "            xin = np.array(x, dtype=np.float64)",
      "            xin = x.astype(np.float64)")),
    ("1-D finder compares the counts with !=",
     (_LN, "            if len(elems) < len(x):",
      "            if len(elems) != len(x):")),
    ("finder containment written with the sum first",
     (_TR, "                      (1 - X[0] - X[1] >= -eps))",
      "                      (1 - (X[0] + X[1]) >= -eps))")),
    ("hexahedron split lists its tetrahedra in another order",
     (_HE, "            self.t[[0, 1, 3, 4]],\n            self.t[[0, 3, 2, "
      "4]],", "            self.t[[0, 3, 2, 4]],\n            self.t[[0, 1, "
      "3, 4]],")),
]
