"""C08 - quadrature rules deliver their advertised degree.

Finite and enumerable from literals: every table entry is audited in exact
rational arithmetic, the Gauss-Legendre point count is bounded symbolically,
and the tensor-product constructions are checked in an abstract domain of
"which rule / which index variable does this flat array depend on".
"""
from __future__ import annotations

import ast
from fractions import Fraction
from itertools import product
from math import factorial
from typing import Dict, List, Optional, Tuple

from ..elements import load_refdoms, RefdomInfo
from ..interp import Obj, ClassRef, PyFunc, Arr, Interp, Unsupported, Raised
from ..model import staged, AnalysisError, FuncInfo, Model, src
from ..poly import Poly

PID = "C08"
LEVEL = "proof"
TECHNIQUE = ("exact-rational audit of the literal quadrature tables, symbolic "
             "bound on the Gauss point count, abstract interpretation of the "
             "tensor-product constructions, dispatch exhaustiveness (ast)")
LEVEL_TEXT = (
    "Proof over a finite obligation set: every (table, key) pair of the "
    "triangle and tetrahedron dictionaries is evaluated from its literals in "
    "exact rational arithmetic against all monomials up to the key; the line "
    "rule's point-count expression and affine map are bounded symbolically "
    "for all orders; the quadrilateral/hexahedron/prism constructions are "
    "decided in an abstract domain of index variables; dispatch and clamps "
    "are checked structurally. The space is finite, so this is the right "
    "level - sampling orders would add nothing.")
LEVEL_NOTE = (
    "Trusted: numpy.polynomial.legendre.leggauss(m) is the m-point "
    "Gauss-Legendre rule on [-1,1] (degree 2m-1), numpy.meshgrid / repeat / "
    "tile / flatten follow their documented index maps. Literal rounding: a "
    "table passes when every moment error is <= 5e-14 (good tables measure "
    "<= 4e-15, a rule one degree short >= 8e-8).")
EXPLANATION = (
    "Static audit of skfem/quadrature.py: tables evaluated from source "
    "literals in exact rationals; constructions interpreted abstractly; no "
    "code of the repository is executed.")
TRUSTED = ["numpy.polynomial.legendre.leggauss (Gauss-Legendre, m points => "
           "degree 2m-1)", "numpy.meshgrid/repeat/tile/flatten index maps",
           "python fractions.Fraction arithmetic"]
ASSUMPTIONS = ["decimal literals are compared as the rationals they denote "
               "with tolerance 5e-14 on every moment"]

TOL = Fraction(5, 10**14)
QMOD = "skfem.quadrature"
F = "skfem/quadrature.py"


# ----------------------------------------------------------------------
def _simplex_measure(dim: int) -> Fraction:
    return Fraction(1, factorial(dim))


def _exact_moment(exps) -> Fraction:
    num = 1
    for a in exps:
        num *= factorial(a)
    return Fraction(num, factorial(len(exps) + sum(exps)))


def _is_unit_simplex(rd: RefdomInfo) -> bool:
    d = rd.dim
    want = {tuple(Fraction(0) for _ in range(d))}
    for k in range(d):
        want.add(tuple(Fraction(1 if j == k else 0) for j in range(d)))
    return set(rd.p) == want


def _find_table(fn: FuncInfo):
    """Locate ``try: return {...}[<index>]  except KeyError: ...``."""
    param = fn.params()[0]
    tries = [s for s in fn.node.body if isinstance(s, ast.Try)]
    if len(tries) != 1:
        raise AnalysisError(f"{fn.short()}: expected one try block holding "
                            f"the table lookup, found {len(tries)}")
    tr = tries[0]
    ret = [s for s in tr.body if isinstance(s, ast.Return)]
    if len(ret) != 1 or not isinstance(ret[0].value, ast.Subscript) or \
            not isinstance(ret[0].value.value, ast.Dict):
        raise AnalysisError(f"{fn.short()}: table lookup is not "
                            f"'return {{...}}[index]'")
    return param, tr, ret[0].value.value, ret[0].value.slice


def _clamps(fn: FuncInfo, param: str, rep, rule: str):
    """Statements before the lookup that reassign the order parameter: each
    must only ever raise it.  Returns the minimal order after clamping."""
    lo = None
    for st in fn.node.body:
        if isinstance(st, ast.Try):
            break
        if isinstance(st, ast.Expr) and isinstance(st.value, ast.Constant):
            continue
        assigns = [n for n in ast.walk(st) if isinstance(n, (ast.Assign,
                   ast.AugAssign)) and any(
                       isinstance(t, ast.Name) and t.id == param
                       for t in (n.targets if isinstance(n, ast.Assign)
                                 else [n.target]))]
        if not assigns:
            if isinstance(st, (ast.Assign, ast.Return, ast.Expr)):
                continue
            continue
        ok_shape = (isinstance(st, ast.If) and not st.orelse
                    and len(st.body) == 1 and isinstance(st.body[0], ast.Assign)
                    and isinstance(st.test, ast.Compare)
                    and len(st.test.ops) == 1
                    and isinstance(st.test.left, ast.Name)
                    and st.test.left.id == param
                    and isinstance(st.test.comparators[0], ast.Constant)
                    and isinstance(st.body[0].value, ast.Constant))
        if not ok_shape:
            raise AnalysisError(f"{fn.short()}: reassignment of the order "
                                f"parameter outside the clamp idiom: "
                                f"{src(st)[:70]}")
        a = st.test.comparators[0].value
        b = st.body[0].value.value
        op = st.test.ops[0]
        c = f"clamp '{src(st.test)} -> {param} = {b}'"
        if isinstance(op, ast.Lt):
            good, newlo = b >= a - 1, min(a, b) if b >= a - 1 else b
        elif isinstance(op, ast.LtE):
            good, newlo = b >= a, b
        else:
            good, newlo = False, None
        if good:
            rep.ok(rule, f"{fn.short()}:{c}", "orders satisfying the test are "
                   "only ever replaced by an order at least as large")
            lo = b if lo is None else max(lo, b)
        else:
            rep.fail(rule, F, fn.short(), c,
                     "the clamp can replace a requested order by a smaller "
                     "one, silently returning a weaker rule", st.lineno)
    return lo


class _GaussSym:
    """Symbolic Gauss-Legendre rules for auditing *generated* simplex rules.
    ``leggauss(n)`` returns the symbols (gx, gw): nodes on [-1, 1] and
    weights, of which only the defining property is used - sum_i gw_i
    gx_i^p = int_{-1}^{1} x^p for p <= 2n - 1.  ``np.meshgrid`` makes one
    independent copy of the symbols per grid axis (suffix by axis position,
    so arrays from different meshgrid calls over the same axes stay
    co-indexed).  Arrays over the grid are scalars (engine-B convention)."""

    AXES = ("c", "r", "p")

    def __init__(self):
        self.used = False
        self.n = None

    def hook(self, interp, name, args, kwargs, node):
        if name == "numpy.polynomial.legendre.leggauss":
            n = args[0]
            if isinstance(n, Fraction) and n.denominator == 1:
                n = int(n)
            if not isinstance(n, int) or n < 1:
                raise Raised("leggauss of a non-positive count")
            if self.n is not None and self.n != n:
                raise Unsupported("Gauss rules of different sizes in one "
                                  "generated rule")
            self.used, self.n = True, n
            return (Poly.sym("gx"), Poly.sym("gw"))
        if name == "numpy.ceil" and isinstance(args[0], (int, Fraction)):
            import math
            return Fraction(math.ceil(args[0]))
        if self.used and name == "numpy.meshgrid" and not kwargs:
            outs = []
            for k, a in enumerate(args):
                if isinstance(a, Arr):
                    fl = a.flat()
                    if len(fl) != 1:
                        raise Unsupported("meshgrid of a materialised array")
                    a = fl[0]
                a = Poly.coerce(a)
                if not a.symbols() <= {"gx", "gw"}:
                    raise Unsupported("meshgrid of an already gridded value")
                ax = self.AXES[k]
                outs.append(a.subs({"gx": Poly.sym("gx_" + ax),
                                    "gw": Poly.sym("gw_" + ax)}))
            return tuple(outs)
        if self.used and name == "numpy.vstack":
            rows = list(args[0])
            if all(isinstance(x, (Poly, int, Fraction)) for x in rows):
                return Arr([Poly.coerce(x) for x in rows])
        if self.used and name == "numpy.array" and isinstance(
                args[0], list):
            return Arr(args[0])
        return NotImplemented

    def attr_hook(self, interp, o, name, node):
        if self.used and isinstance(o, Poly) and name in ("flatten",
                                                          "ravel", "copy"):
            return PyFunc(lambda a, k, n: o)
        return NotImplemented

    def moment(self, p):
        """sum_i gw_i gx_i^p, or None beyond the exactness of the rule"""
        if p > 2 * self.n - 1:
            return None
        return Fraction(0) if p % 2 else Fraction(2, p + 1)


def _audit_generated(rep, R1, fname, fn, r, dim, val, gauss):
    cons = f"order={r}"
    if not (isinstance(val, tuple) and len(val) == 2):
        raise AnalysisError(f"{fname}({r}) is not (points, weights)")
    X, W = val
    rows = [Poly.coerce(x) for x in X.flat()] if isinstance(X, Arr) else None
    if rows is None or len(rows) != dim or not isinstance(W, (Poly, int,
                                                             Fraction)):
        raise AnalysisError(f"{fname}({r}): generated rule outside the "
                            f"symbolic Gauss domain")
    W = Poly.coerce(W)
    axes = sorted({s_[3:] for s_ in W.symbols() if s_.startswith("gw_")})
    if not axes or any(s_ in ("gx", "gw") for p_ in rows + [W]
                       for s_ in p_.symbols()):
        raise AnalysisError(f"{fname}({r}): generated rule is not a tensor "
                            f"grid of Gauss rules")
    adv = max(r, 0)
    worst = None
    nmono = 0
    for exps in product(range(adv + 1), repeat=dim):
        if sum(exps) > adv:
            continue
        nmono += 1
        Q = W
        for d_, e_ in enumerate(exps):
            for _ in range(e_):
                Q = Q * rows[d_]
        total = Fraction(0)
        inexact = None
        for mono, c in Q.t.items():
            pw = dict(mono)
            term = Fraction(c)
            for ax in axes:
                if pw.pop("gw_" + ax, 0) != 1:
                    raise AnalysisError(f"{fname}({r}): weights are not "
                                        f"linear in each axis' Gauss "
                                        f"weights")
                m = gauss.moment(pw.pop("gx_" + ax, 0))
                if m is None:
                    inexact = (ax, dict(mono).get("gx_" + ax))
                    break
                term *= m
            if inexact:
                break
            if pw:
                raise AnalysisError(f"{fname}({r}): stray symbols {pw}")
            total += term
        if inexact:
            worst = worst or (exps, f"needs the {gauss.n}-point Gauss rule "
                              f"along axis '{inexact[0]}' to be exact for "
                              f"degree {inexact[1]} > {2 * gauss.n - 1}")
        elif total != _exact_moment(exps):
            worst = worst or (exps, f"gives {total} instead of "
                              f"{_exact_moment(exps)}")
    if worst is None:
        rep.ok(R1, f"{fname}:{cons}:degree",
               f"generated from {gauss.n}-point Gauss rules: all {nmono} "
               f"monomials of total degree <= {adv} exact (symbolic "
               f"moments)")
    else:
        rep.fail(R1, F, fname, f"{cons}:degree",
                 f"the rule generated for order {r} does not integrate "
                 f"x^{worst[0]} exactly: {worst[1]}", fn.lineno)


def _dispatch_semantic(model: Model, rep, refdoms):
    """get_quadrature interpreted for every Refdom subclass (given as the
    class and through an element-like object carrying .refdom): a rule of
    the cell's own dimension comes back; simplices get exactly what their
    own table function returns; an unknown reference domain raises."""
    R4 = "C08-R4"
    fn = model.func(QMOD, "get_quadrature")
    own = {"RefTri": "get_quadrature_tri", "RefTet": "get_quadrature_tet",
           "RefLine": "get_quadrature_line",
           "RefPoint": "get_quadrature_point"}

    def call(arg, r):
        g = _GaussSym()
        it = Interp(model, call_hook=g.hook, attr_hook=g.attr_hook)
        return it.call(fn, [arg, r], {}), g

    def same(a, b):
        if isinstance(a, tuple) and isinstance(b, tuple):
            return len(a) == len(b) and all(same(x, y)
                                            for x, y in zip(a, b))
        if isinstance(a, Arr) and isinstance(b, Arr):
            return a.shape == b.shape and a.flat() == b.flat()
        return a == b
    for name, rd in sorted(refdoms.items()):
        for how in ("class", "element"):
            arg = ClassRef(rd.cls) if how == "class" else Obj(
                None, {"refdom": ClassRef(rd.cls)})
            cons = f"dispatch[{name},{how}]"
            try:
                val, g = call(arg, 3)
            except Raised as e:
                rep.fail(R4, F, "get_quadrature", cons,
                         f"no rule is returned for {name} ({e.what[:60]})",
                         fn.lineno)
                continue
            except Unsupported as e:
                if name == "RefWedge":
                    # line x triangle construction (repeat / tile): its
                    # content is the business of C08-R3; reaching it means
                    # the dispatch took the wedge branch
                    rep.ok(R4, cons, "the prism branch is taken (rule "
                           "audited by C08-R3)")
                    continue
                raise AnalysisError(f"get_quadrature({name}): {e}")
            X = val[0] if isinstance(val, tuple) and len(val) == 2 else None
            nrows = (len(X.data) if isinstance(X, Arr) and X.data
                     and isinstance(X.data, list) else None)
            if isinstance(X, Arr) and X.shape and X.shape[0] == 0:
                nrows = 0
            ok = nrows == rd.dim
            if ok and name in own:
                try:
                    g2 = _GaussSym()
                    ref = Interp(model, call_hook=g2.hook,
                                 attr_hook=g2.attr_hook).call(
                        model.func(QMOD, own[name]), [3], {})
                except (Raised, Unsupported) as e:
                    raise AnalysisError(f"{own[name]}(3): {e}")
                ok = same(val, ref)
            if ok:
                rep.ok(R4, cons, f"a {rd.dim}-dimensional rule"
                       + (f" = {own[name]}(n)" if name in own else ""))
            else:
                rep.fail(R4, F, "get_quadrature", cons,
                         f"get_quadrature({name}, 3) returns points with "
                         f"{nrows} coordinate rows"
                         + (f" / not what {own[name]}(3) returns"
                            if name in own else "")
                         + f": not the rule of the {rd.dim}-dimensional "
                         f"reference cell {name}", fn.lineno)
    # an unknown reference domain
    base = model.class_by_name("Refdom")
    try:
        call(ClassRef(base), 2)
        rep.fail(R4, F, "get_quadrature", "dispatch[unknown]",
                 "a reference domain without a rule gets one instead of an "
                 "error", fn.lineno)
    except Raised:
        rep.ok(R4, "dispatch[unknown]", "an unsupported reference domain "
               "raises")
    except Unsupported as e:
        raise AnalysisError(f"get_quadrature(Refdom): {e}")


def _audit_boxes(model: Model, rep, refdoms):
    """Quadrilateral and hexahedron rules, per requested order: the whole
    dispatch function is interpreted with symbolic Gauss-Legendre rules and
    every monomial of total degree <= order must come out exactly
    (int over [0,1]^d).  Independent of how the tensor product is spelled
    and of where the Gauss point count comes from."""
    R3 = "C08-R3"
    fn = model.func(QMOD, "get_quadrature")
    for name, dim in (("RefQuad", 2), ("RefHex", 3)):
        rd = refdoms[name]
        worst = None
        orders = range(0, 13 if dim == 2 else 9)
        for r in orders:
            gauss = _GaussSym()
            try:
                it = Interp(model, call_hook=gauss.hook,
                            attr_hook=gauss.attr_hook)
                val = it.call(fn, [ClassRef(rd.cls), r], {})
            except Raised:
                continue                      # order not offered
            except Unsupported as e:
                raise AnalysisError(f"get_quadrature({name}, {r}): {e}")
            if not gauss.used or not (isinstance(val, tuple)
                                      and len(val) == 2):
                raise AnalysisError(f"get_quadrature({name}, {r}) is not "
                                    f"built from Gauss-Legendre rules")
            X, W = val
            rows = [Poly.coerce(x) for x in X.flat()] \
                if isinstance(X, Arr) else None
            if rows is None or len(rows) != dim:
                raise AnalysisError(f"get_quadrature({name}, {r}): points")
            W = Poly.coerce(W)
            axes = sorted({s_[3:] for s_ in W.symbols()
                           if s_.startswith("gw_")})
            if len(axes) != dim:
                raise AnalysisError(f"get_quadrature({name}, {r}): weights "
                                    f"are not a {dim}-fold tensor product")
            for exps in product(range(r + 1), repeat=dim):
                if sum(exps) > r:
                    continue
                Q = W
                for d_, e_ in enumerate(exps):
                    for _ in range(e_):
                        Q = Q * rows[d_]
                total, why = Fraction(0), None
                for mono, c in Q.t.items():
                    pw = dict(mono)
                    term = Fraction(c)
                    for ax in axes:
                        if pw.pop("gw_" + ax, 0) != 1:
                            raise AnalysisError(
                                f"get_quadrature({name}, {r}): weights not "
                                f"linear in each axis' Gauss weights")
                        p_ = pw.pop("gx_" + ax, 0)
                        m = gauss.moment(p_)
                        if m is None:
                            why = (f"needs the {gauss.n}-point Gauss rule "
                                   f"to be exact for degree {p_} > "
                                   f"{2 * gauss.n - 1}")
                            break
                        term *= m
                    if why:
                        break
                    if pw:
                        raise AnalysisError(f"stray symbols {pw}")
                    total += term
                exact = Fraction(1)
                for e_ in exps:
                    exact /= (e_ + 1)
                if why is None and total != exact:
                    why = f"gives {total} instead of {exact}"
                if why and worst is None:
                    worst = (r, exps, why)
        cons = f"get_quadrature[{name}]:degree"
        if worst is None:
            rep.ok(R3, cons, f"orders {orders[0]}..{orders[-1]}: every "
                   f"monomial of total degree <= order integrated exactly "
                   f"over the unit {'square' if dim == 2 else 'cube'} "
                   f"(symbolic Gauss moments)")
        else:
            r, exps, why = worst
            rep.fail(R3, F, "get_quadrature", cons,
                     f"the {name} rule returned for order {r} does not "
                     f"integrate x^{exps} exactly: {why}", fn.lineno)


def _audit_simplex_table(model: Model, rep, fname: str, rd: RefdomInfo):
    """Audit per *requested order*: the function is interpreted for every
    order from -1 to the largest tabulated key (clamps, index arithmetic,
    post-scaling and fallbacks are therefore all part of what is audited)
    and for orders beyond the table, which must raise."""
    fn = model.func(QMOD, fname)
    R1 = "C08-R1"
    if not _is_unit_simplex(rd):
        raise AnalysisError(f"{rd.name}.p is not the unit simplex the exact "
                            f"moment formula assumes")
    dim = rd.dim
    dicts = [n for n in ast.walk(fn.node) if isinstance(n, ast.Dict)
             and n.keys and all(isinstance(k, ast.Constant)
                                and isinstance(k.value, int)
                                for k in n.keys)]
    if not dicts:
        raise AnalysisError(f"{fname}: no table keyed by integer orders")
    table = max(dicts, key=lambda d: len(d.keys))
    keys = sorted(k.value for k in table.keys)
    kline = {k.value: k.lineno for k in table.keys}
    nrules = 0
    seen_rules = {}
    beyond = (max(keys) + 1, max(keys) + 2, max(keys) + 9)
    for r in list(range(-1, max(keys) + 1)) + list(beyond):
        cons = f"order={r}"
        gauss = _GaussSym()
        try:
            it = Interp(model, call_hook=gauss.hook,
                        attr_hook=gauss.attr_hook)
            val = it.call(fn, [r], {})
        except Raised:
            rep.ok(R1, f"{fname}:{cons}:not-offered",
                   "order not offered: raises" if r not in beyond else
                   "orders beyond the table raise")
            continue
        except Unsupported as e:
            raise AnalysisError(f"{fname}({r}) outside grammar: {e}")
        if gauss.used:
            # a rule generated from Gauss-Legendre rules (no table entry)
            _audit_generated(rep, R1, fname, fn, r, dim, val, gauss)
            nrules += 1
            continue
        if not (isinstance(val, tuple) and len(val) == 2
                and isinstance(val[0], Arr) and isinstance(val[1], Arr)):
            raise AnalysisError(f"{fname}({r}) is not (points, weights)")
        X, W = val
        line = kline.get(r, fn.lineno)
        if len(X.shape) != 2 or X.shape[0] != dim or \
                W.shape != (X.shape[1],):
            rep.fail(R1, F, fname, f"{cons}:shape",
                     f"points {X.shape} / weights {W.shape} are not "
                     f"({dim}, n) / (n,)", line)
            continue
        nrules += 1
        adv = max(r, 0)
        pts = [[Fraction(X[d][q]) for d in range(dim)]
               for q in range(X.shape[1])]
        w = [Fraction(W[q]) for q in range(X.shape[1])]
        sig = (tuple(map(tuple, pts)), tuple(w))
        err = abs(sum(w) - _simplex_measure(dim))
        if err <= TOL:
            rep.ok(R1, f"{fname}:{cons}:sum",
                   f"sum of weights = 1/{factorial(dim)}")
        else:
            rep.fail(R1, F, fname, f"{cons}:sum",
                     f"the rule returned for order {r} has weights summing "
                     f"to {float(sum(w)):.16g}, not the measure "
                     f"{float(_simplex_measure(dim)):.16g}", line)
        outside = [q for q, p in enumerate(pts)
                   if min(p) < -TOL or sum(p) > 1 + TOL]
        if not outside:
            rep.ok(R1, f"{fname}:{cons}:inside",
                   f"{len(pts)} nodes in the closed reference cell")
        else:
            rep.fail(R1, F, fname, f"{cons}:inside",
                     f"node(s) {outside[:4]} of the rule for order {r} lie "
                     f"outside the reference cell", line)
        # moments: reuse the verdict of an identical rule audited to a
        # degree at least as high
        prev = seen_rules.get(sig)
        if prev is not None and prev[0] >= adv and prev[1]:
            rep.ok(R1, f"{fname}:{cons}:degree",
                   f"same rule as audited for degree {prev[0]}")
            continue
        worst, worst_m = Fraction(0), None
        pw = [[[Fraction(1)] for _ in range(dim)] for _ in pts]
        for q, p in enumerate(pts):
            for d in range(dim):
                for e in range(1, adv + 1):
                    pw[q][d].append(pw[q][d][-1] * p[d])
        nmono = 0
        for exps in product(range(adv + 1), repeat=dim):
            if sum(exps) > adv:
                continue
            nmono += 1
            s_ = Fraction(0)
            for q in range(len(pts)):
                t = w[q]
                for d in range(dim):
                    t *= pw[q][d][exps[d]]
                s_ += t
            e = abs(s_ - _exact_moment(exps))
            if e > worst:
                worst, worst_m = e, exps
        good = worst <= TOL
        seen_rules[sig] = (adv, good)
        if good:
            rep.ok(R1, f"{fname}:{cons}:degree",
                   f"all {nmono} monomials of total degree <= {adv} exact "
                   f"(max error {float(worst):.1e})", sample=(r == 5))
        else:
            rep.fail(R1, F, fname, f"{cons}:degree",
                     f"the rule returned for order {r} does not integrate "
                     f"x^{worst_m} exactly: error {float(worst):.2e} "
                     f"(tolerance {float(TOL):.0e})", line)
    return len(keys)


# ----------------------------------------------------------------------
def _audit_line(model: Model, rep):
    R2 = "C08-R2"
    fname = "get_quadrature_line"
    fn = model.func(QMOD, fname)
    param = fn.params()[0]
    lo = None
    # clamp statements (no try block here)
    for st in fn.node.body:
        if isinstance(st, ast.If):
            fake = FuncInfo(fn.name, fn.qualname, fn.module,
                            ast.FunctionDef(name=fn.name, args=fn.node.args,
                                            body=[st, ast.Try(body=[],
                                                              handlers=[],
                                                              orelse=[],
                                                              finalbody=[])],
                                            decorator_list=[], lineno=st.lineno))
            lo = _clamps(fake, param, rep, R2)
    # the leggauss call
    calls = [n for n in ast.walk(fn.node) if isinstance(n, ast.Call)
             and model.dotted(fn.module, n.func) ==
             "numpy.polynomial.legendre.leggauss"]
    if len(calls) != 1:
        raise AnalysisError(f"{fname}: expected exactly one leggauss call")
    arg = calls[0].args[0]
    rounding = None
    inner = arg
    # strip int(...)
    if isinstance(inner, ast.Call) and isinstance(inner.func, ast.Name) \
            and inner.func.id == "int":
        inner = inner.args[0]
        rounding = "trunc"
    if isinstance(inner, ast.Call):
        d = model.dotted(fn.module, inner.func)
        if d in ("numpy.ceil", "math.ceil"):
            rounding, inner = "ceil", inner.args[0]
        elif d in ("numpy.floor", "math.floor"):
            rounding, inner = "floor", inner.args[0]
        elif d in ("numpy.round", "numpy.rint"):
            rounding, inner = "round", inner.args[0]
    try:
        L = Interp(model).eval(inner, {param: Poly.sym("n")}, fn.module)
        L = Poly.coerce(L)
        a = L.diff("n")
        if not a.is_const():
            raise Unsupported("point count not affine in the order")
        a = a.const_value()
        b = (L - a * Poly.sym("n")).const_value()
    except (Unsupported, TypeError, ValueError) as e:
        raise AnalysisError(f"{fname}: point-count expression outside "
                            f"grammar: {e}")
    # m(n) = round_mode(a n + b) on integers n >= lo
    import math

    def m_of(n):
        v = a * n + b
        if rounding == "ceil":
            return math.ceil(v)
        if rounding in ("floor", "trunc"):
            return math.floor(v) if v >= 0 or rounding == "floor" \
                else math.trunc(v)
        if rounding == "round":
            return round(v)
        if v.denominator != 1:
            raise AnalysisError(f"{fname}: non-integer point count")
        return int(v)
    nmin = lo if lo is not None else 0
    cons = f"{fname}:point-count"
    # symbolic bound: m >= a n + b - slack ; need 2 m - 1 >= n for n >= nmin
    q = math.lcm(a.denominator, b.denominator)
    slack = {"ceil": Fraction(0), None: Fraction(0)}.get(
        rounding, Fraction(q - 1, q))
    c1 = 2 * a - 1
    c0 = 2 * (b - slack) - 1
    if c1 >= 0 and c1 * nmin + c0 >= 0:
        rep.ok(R2, cons, f"m = {rounding or ''}({L}) gives 2m-1 >= n for "
               f"every n >= {nmin} (affine bound {c1}*n + {c0} >= 0)",
               sample=True)
    else:
        wit = [n for n in range(nmin, nmin + 4 * q + 8)
               if 2 * m_of(n) - 1 < n]
        if wit:
            rep.fail(R2, F, fname, "point-count",
                     f"order n={wit[0]} gets m={m_of(wit[0])} Gauss points, "
                     f"exact only to degree {2 * m_of(wit[0]) - 1}",
                     calls[0].lineno)
        else:
            raise AnalysisError(f"{fname}: cannot bound the point count")
    # affine map [-1,1] -> [0,1] and weight scaling
    def hook(interp, name, args, kwargs, node):
        if name == "numpy.polynomial.legendre.leggauss":
            return (Poly.sym("X"), Poly.sym("W"))
        return NotImplemented
    try:
        r = Interp(model, call_hook=hook).call(fn, [5], {})
    except (Unsupported, Raised) as e:
        raise AnalysisError(f"{fname}: body outside grammar: {e}")
    if not (isinstance(r, tuple) and len(r) == 2):
        raise AnalysisError(f"{fname}: does not return (points, weights)")
    Xr, Wr = r
    xs = Xr.flat() if isinstance(Xr, Arr) else [Xr]
    if len(xs) != 1 or not isinstance(xs[0], Poly):
        raise AnalysisError(f"{fname}: returned points not a 1-row array")
    x = xs[0]
    at = lambda v: x.subs({"X": Poly.const(v)})  # noqa: E731
    sx = x.diff("X")
    # the point axis is not materialised: a (1, n) array is Arr of shape (1,)
    if at(-1) == 0 and at(1) == 1 and (isinstance(Xr, Arr)
                                      and Xr.shape == (1,)):
        rep.ok(R2, f"{fname}:map", f"nodes {x} map [-1,1] onto [0,1], "
               "returned as a (1, n) array")
    else:
        rep.fail(R2, F, fname, "map",
                 f"nodes are {x} of the Gauss nodes: [-1,1] is not mapped "
                 f"onto [0,1] as a (1, n) array", fn.lineno)
    Wp = Poly.coerce(Wr) if not isinstance(Wr, Arr) else None
    if Wp is not None and Wp == sx * Poly.sym("W"):
        rep.ok(R2, f"{fname}:weights", f"weights {Wp} carry the Jacobian "
               f"{sx} of the node map")
    else:
        rep.fail(R2, F, fname, "weights",
                 f"weights are {Wr} but the node map has Jacobian {sx}",
                 fn.lineno)
    return lo


# ----------------------------------------------------------------------
# abstract domain for the tensor constructions

class Rule:
    """One call to a base rule: coordinate rows and a weight vector that are
    co-indexed by one index variable."""
    def __init__(self, uid, kind, nrows, cell):
        self.uid, self.kind, self.nrows, self.cell = uid, kind, nrows, cell

    def __repr__(self):
        return f"{self.kind}#{self.uid}"


class Flat:
    """Flat (or (rows, n)) array: for each row the factors it is a product
    of, each factor = (rule, component|'w', index variable).  ``layout`` is
    the ordered tuple of index variables (major -> minor) or an opaque grid
    signature; arrays combined elementwise must share it."""
    def __init__(self, rows, layout, is_2d):
        self.rows, self.layout, self.is_2d = rows, layout, is_2d


class Grid:
    """One output of meshgrid, not yet flattened."""
    def __init__(self, factors, gid, axes):
        self.factors, self.gid, self.axes = factors, gid, axes


class TensorEval:
    def __init__(self, model, fn, refdoms, rep):
        self.model, self.fn, self.refdoms, self.rep = model, fn, refdoms, rep
        self.uid = 0
        self.var = 0
        self.env = {}

    def newvar(self):
        self.var += 1
        return f"i{self.var}"

    def base_rule(self, name):
        self.uid += 1
        if name == "get_quadrature_line":
            r = Rule(self.uid, "line", 1, self.refdoms["RefLine"])
        elif name == "get_quadrature_tri":
            r = Rule(self.uid, "tri", 2, self.refdoms["RefTri"])
        elif name == "get_quadrature_tet":
            r = Rule(self.uid, "tet", 3, self.refdoms["RefTet"])
        else:
            raise AnalysisError(f"unknown base rule {name}")
        v = self.newvar()
        X = Flat([[(r, k, v)] for k in range(r.nrows)], (v,), True)
        W = Flat([[(r, "w", v)]], (v,), False)
        return (X, W)

    def extent_var(self, e):
        """``len(W1)`` / ``X1.shape[1]`` / ``W1.shape[0]`` -> index variable
        whose extent it is."""
        if isinstance(e, ast.Call) and isinstance(e.func, ast.Name) \
                and e.func.id == "len" and len(e.args) == 1:
            v = self.ev(e.args[0])
            if isinstance(v, Flat) and not v.is_2d and len(v.layout) == 1:
                return v.layout[0]
        if isinstance(e, ast.Subscript) and isinstance(e.value, ast.Attribute)\
                and e.value.attr == "shape":
            v = self.ev(e.value.value)
            k = e.slice.value if isinstance(e.slice, ast.Constant) else None
            if isinstance(v, Flat) and len(v.layout) == 1 and \
                    k == (1 if v.is_2d else 0):
                return v.layout[0]
        raise AnalysisError(f"tensor construction: cannot tell which rule's "
                            f"length '{src(e)}' is")

    def ev(self, e):
        if isinstance(e, ast.Name):
            if e.id not in self.env:
                raise AnalysisError(f"tensor construction: unknown name "
                                    f"{e.id}")
            return self.env[e.id]
        if isinstance(e, ast.Tuple):
            return tuple(self.ev(x) for x in e.elts)
        if isinstance(e, ast.Subscript):
            v = self.ev(e.value)
            if isinstance(v, Flat) and v.is_2d and isinstance(e.slice,
                                                              ast.Slice):
                lo = e.slice.lower.value if e.slice.lower is not None else None
                hi = e.slice.upper.value if e.slice.upper is not None else None
                return Flat(v.rows[slice(lo, hi)], v.layout, True)
            if isinstance(v, Flat) and v.is_2d and isinstance(
                    e.slice, ast.Constant):
                return Flat([v.rows[e.slice.value]], v.layout, False)
            raise AnalysisError(f"tensor construction: subscript "
                                f"{src(e)} outside grammar")
        if isinstance(e, ast.BinOp) and isinstance(e.op, ast.Mult):
            a, b = self.ev(e.left), self.ev(e.right)
            if isinstance(a, Grid) and isinstance(b, Grid):
                if a.gid != b.gid:
                    raise AnalysisError("product of arrays from different "
                                        "meshgrid calls")
                return Grid(a.factors + b.factors, a.gid, a.axes)
            if isinstance(a, Flat) and isinstance(b, Flat) and \
                    len(a.rows) == 1 and len(b.rows) == 1:
                if a.layout != b.layout:
                    self.rep.fail("C08-R3", F, self.fn.short(),
                                  f"product:{src(e)[:40]}",
                                  "elementwise product of arrays with "
                                  f"different index layouts {a.layout} vs "
                                  f"{b.layout}", e.lineno)
                return Flat([a.rows[0] + b.rows[0]], a.layout, False)
            raise AnalysisError(f"tensor construction: product {src(e)[:50]}")
        if isinstance(e, ast.Call):
            d = self.model.dotted(self.fn.module, e.func)
            if d and d.startswith(QMOD + ".get_quadrature_"):
                return self.base_rule(d.rsplit(".", 1)[1])
            if d == "numpy.meshgrid":
                if e.keywords:
                    raise AnalysisError("meshgrid with keywords")
                ins = [self.ev(a) for a in e.args]
                self.uid += 1
                gid = self.uid
                axes = []
                for v in ins:
                    if not (isinstance(v, Flat) and len(v.rows) == 1
                            and len(v.layout) == 1):
                        raise AnalysisError("meshgrid input is not a single "
                                            "row of one rule")
                    # every meshgrid axis is a fresh, independent index
                    axes.append((self.newvar(), v))
                outs = []
                for (nv, v) in axes:
                    fac = [(r, c, nv) for (r, c, _) in v.rows[0]]
                    outs.append(Grid(fac, gid, tuple(a for a, _ in axes)))
                # remember which grids were built from which source vars
                return tuple(outs)
            if d in ("numpy.vstack",):
                seq = self.ev(e.args[0])
                rows, layout = [], None
                for s in seq:
                    if not isinstance(s, Flat):
                        raise AnalysisError("vstack of unflattened value")
                    if layout is None:
                        layout = s.layout
                    elif layout != s.layout:
                        self.rep.fail("C08-R3", F, self.fn.short(),
                                      "vstack-layout",
                                      f"coordinate rows stacked with "
                                      f"different index layouts {layout} vs "
                                      f"{s.layout}", e.lineno)
                    rows.extend(s.rows)
                return Flat(rows, layout, True)
            if d == "numpy.outer" and len(e.args) == 2:
                a, b = self.ev(e.args[0]), self.ev(e.args[1])
                if isinstance(a, Flat) and isinstance(b, Flat) and \
                        len(a.rows) == 1 and len(b.rows) == 1:
                    # outer(a, b)[i, j] = a[i] * b[j]; C-order flatten keeps
                    # a's index major
                    return Flat([a.rows[0] + b.rows[0]],
                                a.layout + b.layout, False)
                raise AnalysisError("np.outer of non-vector values")
            if d in ("numpy.repeat", "numpy.tile"):
                v = self.ev(e.args[0])
                if not isinstance(v, Flat):
                    raise AnalysisError(f"{d} of non-flat value")
                nv = self.extent_var(e.args[1])
                # extents are those of another rule; the new digit is an
                # independent copy of that rule's index variable
                if d == "numpy.repeat":
                    ax = [k.value.value for k in e.keywords if k.arg == "axis"
                          and isinstance(k.value, ast.Constant)]
                    if v.is_2d and ax != [1]:
                        raise AnalysisError("repeat of a (rows, n) array "
                                            "needs axis=1")
                    return Flat(v.rows, v.layout + (nv,), v.is_2d)
                if v.is_2d and not (isinstance(e.args[1], ast.Tuple)):
                    # np.tile(X(1,n), k) tiles the last axis
                    pass
                return Flat(v.rows, (nv,) + v.layout, v.is_2d)
            if isinstance(e.func, ast.Attribute) and e.func.attr in (
                    "flatten", "ravel"):
                v = self.ev(e.func.value)
                order = "C"
                for k in e.keywords:
                    if k.arg == "order" and isinstance(k.value, ast.Constant):
                        order = k.value.value
                if e.args and isinstance(e.args[0], ast.Constant):
                    order = e.args[0].value
                if isinstance(v, Grid):
                    return Flat([v.factors], ("grid", v.axes, order), False)
                if isinstance(v, Flat):
                    return v
            raise AnalysisError(f"tensor construction: call {src(e)[:60]} "
                                f"outside grammar")
        raise AnalysisError(f"tensor construction: expression "
                            f"{src(e)[:60]} outside grammar")

    def run(self, body):
        for st in body:
            if isinstance(st, ast.Assign) and len(st.targets) == 1:
                v = self.ev(st.value)
                t = st.targets[0]
                if isinstance(t, ast.Name):
                    self.env[t.id] = v
                elif isinstance(t, ast.Tuple) and isinstance(v, tuple) and \
                        len(v) == len(t.elts):
                    for n, x in zip(t.elts, v):
                        self.env[n.id] = x
                else:
                    raise AnalysisError("tensor construction: assignment "
                                        "shape")
            elif isinstance(st, ast.Return):
                return self.ev(st.value)
            elif isinstance(st, ast.Expr) and isinstance(st.value,
                                                         ast.Constant):
                continue
            else:
                raise AnalysisError(f"tensor construction: statement "
                                    f"{src(st)[:60]} outside grammar")
        raise AnalysisError("tensor construction: no return")


def _canon_layout(layout, alias):
    if layout and layout[0] == "grid":
        return ("grid", tuple(alias.get(a, a) for a in layout[1]), layout[2])
    return tuple(alias.get(a, a) for a in layout)


def _check_tensor_branch(model, rep, fn, refdoms, rd: RefdomInfo, body, line):
    R3 = "C08-R3"
    te = TensorEval(model, fn, refdoms, rep)
    res = te.run(body)
    cons = f"get_quadrature[{rd.name}]"
    if not (isinstance(res, tuple) and len(res) == 2
            and all(isinstance(r, Flat) for r in res)):
        raise AnalysisError(f"{cons}: does not return (points, weights)")
    Y, W = res
    before = len(rep.findings)
    # 1. co-indexing of points and weights.  Two meshgrids of equal arity
    #    flattened in the same order are co-indexed axis by axis when the
    #    inputs at each axis have the same extent (= come from the same rule)
    def grid_axes(l):
        return l[1] if l and l[0] == "grid" else None
    ya, wa = grid_axes(Y.layout), grid_axes(W.layout)
    alias = {}
    if ya is not None and wa is not None:
        if len(ya) != len(wa) or Y.layout[2] != W.layout[2]:
            rep.fail(R3, F, "get_quadrature", f"{rd.name}:grids",
                     "points and weights are flattened from grids of "
                     "different arity or order", line)
        else:
            alias = dict(zip(wa, ya))
    elif Y.layout != W.layout:
        rep.fail(R3, F, "get_quadrature", f"{rd.name}:layout",
                 f"points layout {Y.layout} differs from weights layout "
                 f"{W.layout}", line)
    # 2. group by index variable
    byvar: Dict[str, dict] = {}
    for k, row in enumerate(Y.rows):
        if len(row) != 1:
            raise AnalysisError(f"{cons}: coordinate row is a product")
        r, c, v = row[0]
        byvar.setdefault(v, {"coords": [], "w": []})["coords"].append((k, r, c))
    for (r, c, v) in W.rows[0]:
        v = alias.get(v, v)
        byvar.setdefault(v, {"coords": [], "w": []})["w"].append(r)
    factors = []
    for v, d in byvar.items():
        rules = {r.uid for (_, r, _) in d["coords"]} | {r.uid for r in d["w"]}
        rr = ([r for (_, r, _) in d["coords"]] + d["w"])[0]
        comps = sorted(c for (_, _, c) in d["coords"])
        if len(rules) != 1:
            # a line rule used for two axes is fine when each axis has its
            # own complete (coords, weights) pair from *some* instance of an
            # identical rule: same kind and same order argument
            kinds = {r.kind for (_, r, _) in d["coords"]} | \
                    {r.kind for r in d["w"]}
            if len(kinds) != 1:
                rep.fail(R3, F, "get_quadrature", f"{rd.name}:axis-{v}",
                         "an index variable pairs coordinates and weights of "
                         "different rules", line)
                continue
        if comps != list(range(rr.nrows)):
            rep.fail(R3, F, "get_quadrature", f"{rd.name}:split-{rr.kind}",
                     f"coordinate rows of the {rr.kind} rule are split over "
                     f"independent index variables (variable {v} carries "
                     f"rows {comps} of {rr.nrows}): nodes leave the cell",
                     line)
        if len(d["w"]) != 1:
            rep.fail(R3, F, "get_quadrature", f"{rd.name}:weights-{rr.kind}-{v}",
                     f"the weight vector of the {rr.kind} rule enters "
                     f"{len(d['w'])} times for index variable {v} (must be "
                     f"exactly once): weights do not sum to the measure",
                     line)
        factors.append((rr, [k for (k, _, _) in sorted(
            d["coords"], key=lambda t: t[2])]))
    # 3. product of the factor cells, in the coordinate order of Y, is the
    #    target reference cell
    if len(rep.findings) == before:
        dim = len(Y.rows)
        verts = [dict()]
        for rr, pos in factors:
            new = []
            for base in verts:
                for pv in rr.cell.p:
                    d = dict(base)
                    for c, k in enumerate(pos):
                        d[k] = pv[c]
                    new.append(d)
            verts = new
        got = {tuple(d.get(k) for k in range(dim)) for d in verts}
        want = set(rd.p)
        if dim != rd.dim or got != want:
            rep.fail(R3, F, "get_quadrature", f"{rd.name}:cell",
                     f"the product of the factor cells in the returned "
                     f"coordinate order is not {rd.name}: vertices "
                     f"{sorted(got - want)[:3]} are not vertices of the "
                     f"target cell", line)
    if len(rep.findings) == before:
        desc = " x ".join(f"{rr.kind}(rows {pos})" for rr, pos in factors)
        rep.ok(R3, cons, f"nodes and weights co-indexed; factors {desc}; "
               f"product cell = {rd.name}; sum w = product of measures",
               sample=True)


def _dispatch(model, rep, refdoms):
    R4 = "C08-R4"
    fn = model.func(QMOD, "get_quadrature")
    chain = [s for s in fn.node.body if isinstance(s, ast.If)
             and isinstance(s.test, ast.Compare)
             and isinstance(s.test.left, ast.Name)]
    if not chain:
        raise AnalysisError("get_quadrature: dispatch chain not found")
    node = chain[-1]
    var = node.test.left.id
    seen = {}
    while True:
        t = node.test
        if not (isinstance(t, ast.Compare) and len(t.ops) == 1
                and isinstance(t.ops[0], (ast.Eq, ast.Is))
                and isinstance(t.left, ast.Name) and t.left.id == var
                and isinstance(t.comparators[0], ast.Name)):
            raise AnalysisError(f"get_quadrature: branch test "
                                f"'{src(t)}' outside the dispatch idiom")
        seen[t.comparators[0].id] = node
        if len(node.orelse) == 1 and isinstance(node.orelse[0], ast.If):
            node = node.orelse[0]
            continue
        tail = node.orelse
        break
    for name in refdoms:
        if name in seen:
            rep.ok(R4, f"dispatch:{name}", "reference cell has a branch")
        else:
            rep.fail(R4, F, "get_quadrature", f"dispatch:{name}",
                     f"no branch for reference cell {name}", fn.lineno)
    if tail and isinstance(tail[-1], ast.Raise):
        rep.ok(R4, "dispatch:else", "unknown reference cells raise")
    else:
        rep.fail(R4, F, "get_quadrature", "dispatch:else",
                 "an unknown reference cell does not raise", fn.lineno)
    # direct branches must return the rule of their own cell
    direct = {"RefTri": "get_quadrature_tri", "RefTet": "get_quadrature_tet",
              "RefLine": "get_quadrature_line",
              "RefPoint": "get_quadrature_point"}
    order_param = fn.params()[1]
    for name, want in direct.items():
        if name not in seen:
            continue
        body = seen[name].body
        ok = (len(body) == 1 and isinstance(body[0], ast.Return)
              and isinstance(body[0].value, ast.Call)
              and model.dotted(fn.module, body[0].value.func)
              == f"{QMOD}.{want}"
              and len(body[0].value.args) == 1
              and isinstance(body[0].value.args[0], ast.Name)
              and body[0].value.args[0].id == order_param)
        if ok:
            rep.ok(R4, f"dispatch:{name}->rule", f"returns {want}(norder)")
        else:
            rep.fail(R4, F, "get_quadrature", f"dispatch:{name}->rule",
                     f"branch does not return {want}({order_param})",
                     seen[name].lineno)
    return fn, seen


def run(model: Model, rep, tier: str) -> None:
    rep.rule("C08-R1", "every simplex table entry integrates all monomials "
             "up to its key exactly, weights sum to the measure, nodes "
             "inside, for every requested order from -1 to the largest "
             "key (clamps, post-scaling, fallbacks included); orders beyond "
             "the table raise or return a rule audited the same way "
             "(generated Gauss-based rules by symbolic moments)")
    rep.rule("C08-R2", "Gauss-Legendre point count covers the order for all "
             "n; [-1,1]->[0,1] map with matching Jacobian")
    rep.rule("C08-R3", "tensor constructions keep each base rule's "
             "coordinates and weights co-indexed and tile the target cell")
    rep.rule("C08-R4", "dispatch covers every Refdom subclass, returns the "
             "cell's own rule, else raises")
    refdoms = load_refdoms(model)
    ntri = _audit_simplex_table(model, rep, "get_quadrature_tri",
                                refdoms["RefTri"])
    ntet = _audit_simplex_table(model, rep, "get_quadrature_tet",
                                refdoms["RefTet"])
    rep.units("triangle tables", ntri)
    rep.units("tetrahedron tables", ntet)
    if ntri < 18 or ntet < 8:
        raise AnalysisError(f"only {ntri} triangle / {ntet} tetrahedron "
                            f"tables found (18 / 9 confirmed by hand)")
    def tensor_stage():
        fn, seen = _dispatch(model, rep, refdoms)
        for name in ("RefQuad", "RefHex", "RefWedge"):
            if name in seen:
                _check_tensor_branch(model, rep, fn, refdoms, refdoms[name],
                                     seen[name].body, seen[name].lineno)
    staged(lambda: _dispatch_semantic(model, rep, refdoms),
           lambda: _audit_boxes(model, rep, refdoms),
           lambda: _audit_line(model, rep), tensor_stage)
    # the point rule
    pf = model.func(QMOD, "get_quadrature_point")
    try:
        r = Interp(model).call(pf, [0], {})
        X, W = r
        ok = isinstance(W, Arr) and W.flat() == [1]
    except Exception:
        ok = False
    if ok:
        rep.ok("C08-R2", "get_quadrature_point", "single weight 1 (measure "
               "of a point)")
    else:
        rep.fail("C08-R2", F, "get_quadrature_point", "weights",
                 "point rule does not return the single weight 1", pf.lineno)
    rep.require_min("C08-R1", 70)
    rep.require_min("C08-R3", 3)
    rep.require_min("C08-R4", 9)


# ----------------------------------------------------------------------
# self-validation (thorough tier): edits that compile and break / keep C08
_Q = "skfem/quadrature.py"
_TRI_EXC = """    except KeyError:
        raise NotImplementedError("The requested order of quadrature"
                                  "is not implemented!")


def get_quadrature_line("""
_TRI_GEN = """    except KeyError:
        X, W = get_quadrature_line(norder%s)
        u, v = np.meshgrid(X, X)
        wu, wv = np.meshgrid(W, W)
        u, v = u.flatten(), v.flatten()
        return (np.vstack((u, (1. - u) * v)),
                (wu * wv).flatten() * (1. - u))


def get_quadrature_line("""
MUTANTS = [
    ("hexahedron rule rounds its own Gauss point count down",
     (F, "    elif refdom == RefHex:\n        X, W = get_quadrature_line("
      "norder)\n", "    elif refdom == RefHex:\n        x, w = leggauss("
      "max(int(norder + 1) // 2, 2))\n        X, W = .5 * x + .5, .5 * w\n"),
     "C08-R3"),
    ("triangle orders beyond the table served by a collapsed Gauss rule "
     "that ignores the degree of the Jacobian",
     (F, _TRI_EXC, _TRI_GEN % ""), "C08-R1"),
    ("collapsed Gauss rule without the Jacobian factor",
     (F, _TRI_EXC, (_TRI_GEN % " + 1").replace(
         "(wu * wv).flatten() * (1. - u))", "(wu * wv).flatten())")),
     "C08-R1"),
    ("one digit of a triangle weight",
     (_Q, "                        -0.28125,", "                        -0.28124,"),
     "C08-R1"),
    ("one node of a triangle rule moved",
     (_Q, "[0.333333333333333, 0.2, 0.6, 0.2],",
      "[0.333333333333333, 0.2, 0.6, 0.3],"), "C08-R1"),
    ("tetrahedron clamp lowers high orders",
     (_Q, "    if norder < 1:\n        norder = 1\n",
      "    if norder > 4:\n        norder = 4\n"), "C08-R1"),
    ("missing tetrahedron order falls back to a lower rule",
     (_Q, "        raise NotImplementedError(\n            \"The requested "
      "order of quadrature is not available.\"\n        )",
      "        return get_quadrature_tet(norder - 1)"), "C08-R1"),
    ("triangle table indexed one order low",
     (_Q, "        }[norder]\n    except KeyError:\n        raise "
      "NotImplementedError(\"The requested order of quadrature\"",
      "        }[norder - 1]\n    except KeyError:\n        raise "
      "NotImplementedError(\"The requested order of quadrature\""), "C08-R1"),
    ("ceil -> floor in the Gauss point count",
     (_Q, "np.ceil((norder + 1.0) / 2.0)", "np.floor((norder + 1.0) / 2.0)"),
     "C08-R2"),
    ("line weights lose the Jacobian",
     (_Q, "return np.array([0.5 * X + 0.5]), W / 2.0",
      "return np.array([0.5 * X + 0.5]), W"), "C08-R2"),
    ("line nodes mapped to [-1/2, 1/2]",
     (_Q, "return np.array([0.5 * X + 0.5]), W / 2.0",
      "return np.array([0.5 * X]), W / 2.0"), "C08-R2"),
    ("quadrilateral grid pairs nodes with weights",
     (_Q, "        A, B = np.meshgrid(X, X)\n",
      "        A, B = np.meshgrid(X, W)\n"), "C08-R3"),
    ("hexahedron weights use two factors only",
     (_Q, "        A, B, C = np.meshgrid(W, W, W)\n        Z = A * B * C\n",
      "        A, B, C = np.meshgrid(W, W, W)\n        Z = A * B\n"),
     "C08-R3"),
    ("hexahedron nodes flattened in mixed order",
     (_Q, "(A.flatten(order=\"F\"), B.flatten(order=\"F\"), "
      "C.flatten(order=\"F\"))",
      "(A.flatten(order=\"F\"), B.flatten(order=\"C\"), "
      "C.flatten(order=\"F\"))"), "C08-R3"),
    ("prism rule: triangle rows on independent axes again",
     (_Q, "        Y = np.vstack((np.repeat(X2, len(W1), axis=1),\n"
      "                       np.tile(X1, len(W2))))\n"
      "        W = np.repeat(W2, len(W1)) * np.tile(W1, len(W2))\n",
      "        A, B, C = np.meshgrid(X1, X2[:1], X2[1:])\n"
      "        Y = np.vstack((A.flatten(order=\"F\"),\n"
      "                       B.flatten(order=\"F\"),\n"
      "                       C.flatten(order=\"F\")))\n"
      "        A, B, C = np.meshgrid(W1, W2, W2)\n"
      "        Z = A * B * C\n"
      "        W = Z.flatten(order=\"F\")\n"), "C08-R3"),
    ("prism rule: weights tiled in the opposite digit order",
     (_Q, "        W = np.repeat(W2, len(W1)) * np.tile(W1, len(W2))\n",
      "        W = np.tile(W2, len(W1)) * np.repeat(W1, len(W2))\n"),
     "C08-R3"),
    ("prism rule: line coordinate first",
     (_Q, "        Y = np.vstack((np.repeat(X2, len(W1), axis=1),\n"
      "                       np.tile(X1, len(W2))))\n",
      "        Y = np.vstack((np.tile(X1, len(W2)),\n"
      "                       np.repeat(X2, len(W1), axis=1)))\n"), "C08-R3"),
    ("quadrilateral branch removed from the dispatch",
     (_Q, "    elif refdom == RefQuad:\n", "    elif refdom == RefQuad "
      "and norder < 0:\n"), None),
    ("tetrahedron branch returns the triangle rule",
     (_Q, "        return get_quadrature_tet(norder)\n    elif refdom == "
      "RefLine:", "        return get_quadrature_tri(norder)\n    elif "
      "refdom == RefLine:"), "C08-R4"),
]
TWINS = [
    ("triangle orders beyond the table served by a collapsed Gauss rule of "
     "sufficient degree",
     (F, _TRI_EXC, _TRI_GEN % " + 1")),
    ("triangle rule: two nodes exchanged together with their weights",
     (_Q, "                        [0.333333333333333, 0.2, 0.6, 0.2],\n"
      "                        [0.333333333333333, 0.6, 0.2, 0.2],\n",
      "                        [0.333333333333333, 0.6, 0.2, 0.2],\n"
      "                        [0.333333333333333, 0.2, 0.6, 0.2],\n")),
    ("point count written as ceil(n/2 + 1/2)",
     (_Q, "np.ceil((norder + 1.0) / 2.0)", "np.ceil(norder / 2.0 + 0.5)")),
    ("line map written as (X + 1) / 2",
     (_Q, "return np.array([0.5 * X + 0.5]), W / 2.0",
      "return np.array([(X + 1.0) / 2.0]), 0.5 * W")),
    ("quadrilateral grid flattened in C order throughout",
     [(_Q, "        Y = np.vstack((A.flatten(order=\"F\"), "
       "B.flatten(order=\"F\")))\n        A, B = np.meshgrid(W, W)\n"
       "        Z = A * B\n        W = Z.flatten(order=\"F\")",
       "        Y = np.vstack((A.flatten(order=\"C\"), "
       "B.flatten(order=\"C\")))\n        A, B = np.meshgrid(W, W)\n"
       "        Z = A * B\n        W = Z.flatten(order=\"C\")")]),
    ("extra clamp that only raises the order",
     (_Q, "    if norder < 1:\n        norder = 1\n",
      "    if norder < 2:\n        norder = 2\n")),
]
