"""C16 - threaded assembly equals serial assembly under every schedule:
race freedom by ownership, decided statically."""
from __future__ import annotations

import ast
from typing import Dict, List, Set

from ..asm import Run
from ..effects import Analyzer
from ..model import AnalysisError, Model, src, walk_no_nested
from .c01 import _form_tags, _key

PID = "C16"
LEVEL = "proof"
TECHNIQUE = ("ownership proof of race freedom: symbolic run of the threaded "
             "producer records which worker writes which slot (pairwise "
             "disjoint, covering, equal to the serial values); effect "
             "analysis shows workers store nowhere else; event order shows "
             "every started thread is joined before the output is read")
LEVEL_TEXT = (
    "Proof by ownership under the stated assumption that the user integrand "
    "is pure: O1 the pair list enumerates every (trial, test) local pair "
    "exactly once; O2 array_split chunks are handed one per thread; O3 the "
    "only store a worker performs is data[j, i] for pairs of its own chunk "
    "and neither worker nor kernel stores to any other parameter, attribute, "
    "global or closure; O4 each slot receives exactly the serial value; O5 "
    "serial and threaded branches are complementary in nthreads; O6 every "
    "started thread is joined and all joins precede the first read of the "
    "buffer; O7 slot identity as in C01-R2. O1-O7 imply the same matrix for "
    "every interleaving and every positive thread count: no two workers "
    "ever touch the same memory location and the main thread reads only "
    "after all joins. Decided for thread counts 1..P+2 over representative "
    "rectangular local sizes; no schedule needs to be enumerated.")
LEVEL_TEXT += (
    " Added after the seeding phase: every configuration is run under two "
    "extreme schedules - each worker runs to completion when started / "
    "only when joined - so anything a worker reads from the enclosing "
    "frame after its creation (a loop variable captured by a closure) "
    "differs between the two.")
LEVEL_TEXT += (
    " Added in the hunting round (defects found by independent agents "
    "on the unchanged tree, DESIGN.md 9.4 / 9.6): "
    "(O7) an integrand that raises makes every threaded configuration "
    "raise like the serial one.")
LEVEL_NOTE = (
    "Assumes the integrand is pure and numpy.array_split yields disjoint, "
    "covering, order-preserving chunks (its contract). NumPy/GIL internals "
    "are trusted: distinct data[j, i] slots are distinct memory.")
EXPLANATION = "Ownership-based race-freedom proof over the producer's source."
TRUSTED = ["numpy.array_split contract", "threading.Thread.start/join "
           "happens-before semantics", "distinct array slots are distinct "
           "memory"]
ASSUMPTIONS = ["user integrand has no side effects"]

BF = "skfem.assembly.form.bilinear_form"
F = "skfem/assembly/form/bilinear_form.py"


def run(model: Model, rep, tier: str) -> None:
    for r, t in (("C16-O1", "pair list = range(Nu) x range(Nv), each once"),
                 ("C16-O2", "one thread per array_split chunk, split along "
                            "the pair axis"),
                 ("C16-O3", "workers store only their own data[j, i] slots"),
                 ("C16-O4", "threaded slot value == serial slot value"),
                 ("C16-O5", "serial / threaded branches complementary in "
                            "nthreads"),
                 ("C16-O6", "every started thread joined before the buffer "
                            "is read"),
                 ("C16-O7", "an integrand that raises makes the threaded "
                            "assembly raise like the serial one (no worker's "
                            "failure is dropped)")):
        rep.rule(r, t)
    fn = model.func(BF, "BilinearForm._assemble")
    line = fn.lineno
    an = Analyzer(model)
    # ---- O3 (effects): worker and kernel
    wk = model.func(BF, "BilinearForm._threaded_kernel")
    kn = model.func(BF, "BilinearForm._kernel")
    s = an.summarize(wk)
    roots = set()
    for e in s.effects:
        roots |= set(e.roots)
    if roots <= {"param:data"} and roots:
        rep.ok("C16-O3", "_threaded_kernel:effects",
               "the worker's only effect is a store into its 'data' "
               "argument")
    else:
        rep.fail("C16-O3", F, "BilinearForm._threaded_kernel",
                 "_threaded_kernel:effects",
                 f"the worker stores to {sorted(roots - {'param:data'})} "
                 f"besides its output slots: shared state is written "
                 f"concurrently", wk.lineno)
    sk = an.summarize(kn)
    if not [e for e in sk.effects if e.roots]:
        rep.ok("C16-O3", "_kernel:effects", "the kernel stores nowhere")
    else:
        e = sk.effects[0]
        rep.fail("C16-O3", F, "BilinearForm._kernel", "_kernel:effects",
                 f"the kernel has a side effect ({e.detail}) that all "
                 f"workers perform concurrently", e.line)
    # ---- what an integrand gets when it indexes a field: a private array
    # (np.array(self)[key] copies), so an integrand that works in place on a
    # component ('ux = u[0]; ux *= w.rho') cannot reach the basis arrays all
    # workers - and all later pairs - share
    gi = model.func("skfem.element.discrete_field",
                    "DiscreteField.__getitem__")
    sg = an.summarize(gi)
    if not sg.returns:
        rep.ok("C16-O3", "DiscreteField.__getitem__:private",
               "indexing a field returns newly allocated storage")
    else:
        rep.fail("C16-O3", gi.path, "DiscreteField.__getitem__",
                 "DiscreteField.__getitem__:private",
                 f"indexing a field returns a view of the field itself "
                 f"(aliases {sorted(sg.returns)}): an integrand updating a "
                 f"component in place rewrites the basis arrays shared by "
                 f"all workers, and each pair's value then depends on the "
                 f"schedule", gi.lineno)
    # ---- symbolic runs
    for sizes in ({"u": 2, "v": 3}, {"u": 3, "v": 2}, {"u": 1, "v": 1}):
        npairs = sizes["u"] * sizes["v"]
        serial = Run(model, "BilinearForm", "_assemble", sizes, nthreads=0)
        sblocks, _ = serial.blocks(serial.result[1])
        sval = {_key(b): b.value for b in sblocks}
        tag = f"{sizes['u']}x{sizes['v']}"
        for nth, sched in [(n, s) for n in range(-1, npairs + 3)
                           for s in (("eager", "late") if n > 0
                                     else ("eager",))]:
            # two extreme schedules: every worker runs to completion the
            # moment it is started / only when it is joined.  Whatever a
            # worker reads from the enclosing frame after its creation
            # (loop variables captured by a closure, buffers rebound later)
            # differs between the two.
            r = Run(model, "BilinearForm", "_assemble", sizes, nthreads=nth,
                    schedule=sched, worker_raise_ok=True)
            if r.result is None:
                rep.fail("C16-O4", F, "BilinearForm._assemble",
                         f"raises[{sizes['u']}x{sizes['v']},nthreads={nth}]",
                         f"with nthreads={nth} the assembly raises "
                         f"({str(r.raised)[:80]}) for sizes the serial "
                         f"assembly handles", line)
                continue
            blocks, _ = r.blocks(r.result[1])
            cons = f"[{tag},nthreads={nth}]" if sched == "eager" else \
                f"[{tag},nthreads={nth},workers run at join]"
            main_writes = [b for b in blocks if b.thread is None]
            thr_writes = [b for b in blocks if b.thread is not None]
            # O5
            if nth <= 0:
                ok5 = not r.threads and len(main_writes) == npairs
            else:
                ok5 = not main_writes and len(r.threads) > 0
            if ok5:
                rep.ok("C16-O5", "branches" + cons,
                       "serial path only" if nth <= 0 else "threaded path "
                       "only")
            else:
                rep.fail("C16-O5", F, "BilinearForm._assemble",
                         "branches" + cons,
                         f"with nthreads={nth}: {len(main_writes)} slots "
                         f"written by the main thread and "
                         f"{len(thr_writes)} by {len(r.threads)} workers - "
                         f"the two paths must be complementary", line)
            if nth <= 0:
                continue
            # O1: every pair exactly once
            keys = [_key(b) for b in blocks]
            if len(keys) == npairs and set(keys) == set(sval):
                rep.ok("C16-O1", "pairs" + cons,
                       f"{npairs} local pairs, each computed once")
            else:
                dup = len(keys) - len(set(keys))
                rep.fail("C16-O1", F, "BilinearForm._assemble",
                         "pairs" + cons,
                         f"{len(set(keys))} distinct slots written "
                         f"({dup} duplicate writes) for {npairs} local "
                         f"pairs", line)
            # O2: one thread per chunk, nthreads threads, axis 0
            splits = [e for e in r.events if e[0] == "array_split"]
            ok2 = (len(r.threads) == nth and len(splits) == 1
                   and splits[0][1] == 0)
            owners: Dict[tuple, Set[int]] = {}
            for b in thr_writes:
                owners.setdefault(_key(b), set()).add(b.thread)
            shared = [k for k, v in owners.items() if len(v) > 1]
            if ok2 and not shared:
                rep.ok("C16-O2", "threads" + cons,
                       f"{nth} threads, write sets pairwise disjoint "
                       f"(sizes {[sum(1 for b in thr_writes if b.thread == t.tid) for t in r.threads]})")
            else:
                rep.fail("C16-O2", F, "BilinearForm._assemble",
                         "threads" + cons,
                         f"{len(r.threads)} threads for nthreads={nth}, "
                         f"split axis "
                         f"{splits[0][1] if splits else None}, "
                         f"{len(shared)} slot(s) written by more than one "
                         f"worker", line)
            # O4: values equal the serial ones slot by slot
            diff = [k for k in sval if k in dict((_key(b), b) for b in blocks)
                    and dict((_key(b), b.value) for b in blocks)[k]
                    != sval[k]]
            missing = [k for k in sval if k not in set(keys)]
            if not diff and not missing:
                rep.ok("C16-O4", "values" + cons, "every slot holds the "
                       "serial kernel value for its (trial, test) pair")
            else:
                k = (diff or missing)[0]
                got = dict((_key(b), b.value) for b in blocks).get(k)
                rep.fail("C16-O4", F, "BilinearForm._threaded_kernel",
                         "values" + cons,
                         f"slot {k[0]}+c holds {got} under threading but "
                         f"{sval[k]} serially", wk.lineno)
            # the workers hand the form the same kind of parameter object
            # as the serial path (attribute access to w.x, w.h, fields)
            plain = [e for e in r.events if e[0] == "plain-dict-params"]
            if not plain:
                rep.ok("C16-O4", "params" + cons, "the form receives the "
                       "FormExtraParams object in every worker")
            else:
                rep.fail("C16-O4", F, "BilinearForm._threaded_kernel",
                         "params" + cons,
                         "a worker calls the form with a plain dict derived "
                         "from the parameters (e.g. wdict.copy()): "
                         "attribute access w.x / w.h / w.<field> raises "
                         "AttributeError inside the worker thread, which "
                         "threading only prints - the slots stay zero while "
                         "serial assembly succeeds", wk.lineno)
            # O6: start* -> join(all) -> flatten
            ev = [e[0] for e in r.events]
            started = [t for t in r.threads if t.started]
            joined = [t for t in r.threads if t.joined]
            fl = [i for i, e in enumerate(r.events) if e[0] == "flatten"
                  and e[1] is (r.result[1].buf if hasattr(r.result[1], "buf")
                               else r.result[1])]
            last_join = max([i for i, e in enumerate(r.events)
                             if e[0] == "join"], default=-1)
            last_start = max([i for i, e in enumerate(r.events)
                              if e[0] == "start"], default=-1)
            ok6 = (len(started) == len(r.threads) == len(joined)
                   and fl and last_join < fl[0] and last_start < fl[0])
            if ok6:
                rep.ok("C16-O6", "join" + cons,
                       f"{len(joined)} joins precede the read of the buffer")
            else:
                rep.fail("C16-O6", F, "BilinearForm._assemble",
                         "join" + cons,
                         f"{len(started)} thread(s) started, {len(joined)} "
                         f"joined before the buffer is flattened and "
                         f"returned: the result can be read while workers "
                         f"still write", line)
    # ---- O7: a failing pair.  threading.Thread swallows the exception of
    # its target: the worker's remaining slots keep the zeros they were
    # allocated with and the caller gets a matrix where serial assembly
    # raises.  Run with an integrand that raises for one pair.
    for sizes in ({"u": 2, "v": 3},):
        npairs = sizes["u"] * sizes["v"]
        for fail in ("u.basis[0];v.basis[0];w", "u.basis[1];v.basis[2];w"):
            ser = Run(model, "BilinearForm", "_assemble", sizes, nthreads=0,
                      fail_tags=fail)
            if ser.raised is None:
                raise AnalysisError("serial run with a failing integrand "
                                    "does not raise: model out of date")
            for nth in (1, 2, npairs):
                for sched in ("eager", "late"):
                    r = Run(model, "BilinearForm", "_assemble", sizes,
                            nthreads=nth, schedule=sched, fail_tags=fail)
                    cons = f"worker-failure[{fail},nthreads={nth}," \
                           f"{sched}]"
                    dropped = [e for e in r.events
                               if e[0] == "thread-raised"]
                    if r.raised is not None:
                        rep.ok("C16-O7", cons, "the failure of a worker "
                               "reaches the caller")
                    else:
                        rep.fail("C16-O7", F, "BilinearForm._assemble",
                                 cons,
                                 f"the integrand raises for the pair "
                                 f"({fail}); serial assembly raises, but "
                                 f"with nthreads={nth} the exception dies "
                                 f"with its worker thread "
                                 f"({len(dropped)} dropped) and a matrix is "
                                 f"returned whose unwritten slots are zero",
                                 line)
    rep.require_min("C16-O1", 10)
    rep.require_min("C16-O6", 10)


_B = F
_THR = """            threads = [
                Thread(
                    target=worker,
                    args=(data, ix, ubasis.basis, vbasis.basis, wdict, dx)
                ) for ix in np.array_split(indices, self.nthreads, axis=0)
            ]
"""
_BF = "skfem/assembly/form/bilinear_form.py"
MUTANTS = [
    ("worker failures are collected but never re-raised",
     (_BF, "            if len(errors) > 0:\n                raise errors[0]\n",
      ""), "C16-O7"),
    ("workers run the kernel directly again (exceptions die with the "
     "thread)",
     (_BF, "                    target=worker,",
      "                    target=self._threaded_kernel,"), "C16-O7"),
    ("indexing a field hands out a view of the shared basis array",
     ("skfem/element/discrete_field.py", "        return np.array(self)[key]",
      "        return np.asarray(self)[key]"), "C16-O3"),
    ("workers take a plain-dict copy of the parameters",
     (_B, "    def _threaded_kernel(self, data, ix, ubasis, vbasis, wdict, "
      "dx):\n", "    def _threaded_kernel(self, data, ix, ubasis, vbasis, "
      "wdict, dx):\n        wdict = wdict.copy()\n"), "C16-O4"),
    ("workers address a flattened view with the test-side stride",
     (_B, "            data[i, j] = self._kernel(\n                "
      "ubasis[j],", "            data.reshape(-1, data.shape[-1])["
      "len(vbasis) * i + j] = self._kernel(\n                ubasis[j],"),
     None),
    ("worker share captured by a late-binding closure",
     (_B, _THR, """            threads = []
            for ix in np.array_split(indices, self.nthreads, axis=0):
                threads.append(Thread(target=lambda: worker(
                    data, ix, ubasis.basis, vbasis.basis, wdict, dx)))
"""), "C16-O1"),
    ("worker writes the transposed slot",
     (_B, "            data[i, j] = self._kernel(\n                ubasis[j],",
      "            data[j, i] = self._kernel(\n                ubasis[j],"),
     None),
    ("join loop removed",
     (_B, "            for t in threads:\n                t.join()\n", ""),
     "C16-O6"),
    ("only the last thread is joined",
     (_B, "            for t in threads:\n                t.join()\n",
      "            threads[-1].join()\n"), "C16-O6"),
    ("pairs split along the wrong axis",
     (_B, "np.array_split(indices, self.nthreads, axis=0)",
      "np.array_split(indices, self.nthreads, axis=1)"), None),
    ("worker passes the functions of the exchanged indices",
     (_B, "                ubasis[j],\n                vbasis[i],\n"
      "                wdict,\n                dx,\n            )\n",
      "                ubasis[i],\n                vbasis[j],\n"
      "                wdict,\n                dx,\n            )\n"), None),
    ("worker records progress in the shared parameter dictionary",
     (_B, "        for ij in ix:\n            i, j = ij\n",
      "        for ij in ix:\n            i, j = ij\n            "
      "wdict['last'] = ij\n"), "C16-O3"),
    ("worker accumulates into an attribute of the form",
     (_B, "        for ij in ix:\n            i, j = ij\n",
      "        for ij in ix:\n            i, j = ij\n            "
      "self.ncalls = getattr(self, 'ncalls', 0) + 1\n"), "C16-O3"),
    ("every thread receives the whole pair list",
     (_B, "args=(data, ix, ubasis.basis, vbasis.basis, wdict, dx)",
      "args=(data, indices, ubasis.basis, vbasis.basis, wdict, dx)"),
     "C16-O2"),
    ("pair list enumerates the test index only up to the trial size",
     (_B, "                [[i, j] for j, i in product(range(ubasis.Nbfun),\n"
      "                                            range(vbasis.Nbfun))]",
      "                [[i, j] for j, i in product(range(ubasis.Nbfun),\n"
      "                                            range(ubasis.Nbfun))]"),
     None),
    ("serial branch also runs when threads are requested",
     (_B, "                if self.nthreads <= 0:\n", "                if "
      "self.nthreads <= 1:\n"), "C16-O5"),
    ("threads started but flatten happens before the joins",
     (_B, "            for t in threads:\n                t.join()\n"
      "            if len(errors) > 0:\n                raise errors[0]\n\n"
      "        data = data.flatten('C')\n",
      "        data = data.flatten('C')\n        if self.nthreads > 0:\n"
      "            for t in threads:\n                t.join()\n"
      "            if len(errors) > 0:\n                raise errors[0]\n"),
     "C16-O6"),
]
TWINS = [
    ("worker failures re-raised with a truth test of the list",
     (_BF, "            if len(errors) > 0:\n                raise errors[0]\n",
      "            if errors:\n                raise errors[0]\n")),
    ("indexing a field copies after selecting",
     ("skfem/element/discrete_field.py", "        return np.array(self)[key]",
      "        return np.asarray(self)[key].copy()")),
    ("workers address a flattened view with the trial-side stride",
     (_B, "            data[i, j] = self._kernel(\n                "
      "ubasis[j],", "            data.reshape(-1, data.shape[-1])["
      "len(ubasis) * i + j] = self._kernel(\n                ubasis[j],")),
    ("worker share bound through a lambda default",
     (_B, _THR, """            threads = []
            for ix in np.array_split(indices, self.nthreads, axis=0):
                threads.append(Thread(
                    target=lambda ix=ix: worker(
                        data, ix, ubasis.basis, vbasis.basis, wdict, dx)))
"""), None),
    ("start and join in one comprehension each",
     (_B, "            for t in threads:\n                t.start()\n"
      "            for t in threads:\n                t.join()\n",
      "            [t.start() for t in threads]\n"
      "            [t.join() for t in threads]\n")),
    ("pair list built with explicit loops",
     (_B, "            indices = np.array(\n"
      "                [[i, j] for j, i in product(range(ubasis.Nbfun),\n"
      "                                            range(vbasis.Nbfun))]\n"
      "            )",
      "            indices = np.array(\n"
      "                [[i, j] for j in range(ubasis.Nbfun)\n"
      "                 for i in range(vbasis.Nbfun)]\n"
      "            )")),
]
